#!/bin/sh
# Build the framework offline from files on disk only: warm the Go build cache for the
# check binaries (both toolchains). Checks rebuild from /repo's working tree on every run.
set -e
export GOFLAGS=-mod=mod GOPROXY=off GOSUMDB=off GOTOOLCHAIN=local
cd /verif
mkdir -p bin evidence replays
for d in checks/c*/; do
  p=$(basename "$d")
  if [ -f "$d/meta.json" ] && ls "$d"/*_test.go >/dev/null 2>&1; then
    if grep -q '"module_dir"' "$d/meta.json"; then continue; fi
    go test -c -tags verif -vet=off -o "bin/$p.test" "./checks/$p" || exit 1
  fi
done
if [ -d pm ]; then
  (cd pm && GOTOOLCHAIN=local go1.26.8 test -c -tags verif -vet=off -o ../bin/c20.test ./c20 ) || exit 1
fi
echo setup ok
