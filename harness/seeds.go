package harness

import (
	"go/ast"
	"go/parser"
	"go/token"
	"os"
	"path/filepath"
	"sort"
	"strconv"
	"strings"
)

// RepoDir - location of the code under test
func RepoDir() string {
	if d := os.Getenv("VERIF_REPO"); d != "" {
		return d
	}
	return "/repo"
}

// SeedSources - program texts embedded in the repository: the inputs of the parser example
// suites (ast_ok_test.go / ast_fail_test.go) and the fenced zinc blocks of the manual.
// Extracted at run time so that new examples are picked up automatically.
func SeedSources() []string {
	seen := map[string]bool{}
	var out []string
	add := func(s string) {
		if s == "" || seen[s] {
			return
		}
		seen[s] = true
		out = append(out, s)
	}
	for _, f := range []string{"pkg/syntax/zh/ast_ok_test.go", "pkg/syntax/zh/ast_fail_test.go"} {
		fset := token.NewFileSet()
		file, err := parser.ParseFile(fset, filepath.Join(RepoDir(), f), nil, 0)
		if err != nil {
			continue
		}
		ast.Inspect(file, func(n ast.Node) bool {
			bl, ok := n.(*ast.BasicLit)
			if !ok || bl.Kind != token.STRING {
				return true
			}
			s, err := strconv.Unquote(bl.Value)
			if err != nil || !strings.Contains(s, "========") {
				return true
			}
			for _, sec := range strings.Split(s, "========") {
				parts := strings.Split(sec, "--------")
				if len(parts) >= 3 {
					add(strings.Trim(parts[1], "\n"))
					add(strings.TrimSpace(parts[1]))
				}
			}
			return true
		})
	}
	mds, _ := filepath.Glob(filepath.Join(RepoDir(), "doc/zh-cn/manual/*.md"))
	sort.Strings(mds)
	for _, md := range mds {
		b, err := os.ReadFile(md)
		if err != nil {
			continue
		}
		lines := strings.Split(string(b), "\n")
		in := false
		var cur []string
		indent := 0
		for _, ln := range lines {
			t := strings.TrimSpace(ln)
			if strings.HasPrefix(t, "```") {
				if in {
					add(strings.Join(cur, "\n"))
					cur = nil
					in = false
				} else if strings.HasPrefix(t, "```zinc") {
					in = true
					indent = len(ln) - len(strings.TrimLeft(ln, " "))
				}
				continue
			}
			if in {
				// remove at most `indent` leading spaces (the fence's own indentation)
				k := 0
				for k < indent && k < len(ln) && ln[k] == ' ' {
					k++
				}
				cur = append(cur, ln[k:])
			}
		}
	}
	return out
}
