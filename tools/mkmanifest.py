#!/usr/bin/env python3
"""Generate MANIFEST.json from checks/*/meta.json (single source of truth)."""
import glob, json, os, subprocess
ROOT = os.path.dirname(os.path.dirname(os.path.abspath(__file__)))
props = [json.loads(l)["id"] for l in open(os.path.join(ROOT, "properties.jsonl")) if l.strip()]
hooks = subprocess.run(["git", "-C", "/repo", "log", "--format=%H %s"], stdout=subprocess.PIPE, text=True).stdout.splitlines()
hook_commits = [l.split()[0] for l in hooks if " verif hook" in l]
man = {
 "version": 1,
 "setup_cmd": "cd /verif && ./setup.sh",
 "hooks": {
  "guard": "verif",
  "enable": "go build tag: every check builds its test binary with `go test -c -tags verif` against /repo through the replace directive in /verif/go.mod (and /verif/pm/go.mod)",
  "baseline_off_cmd": "cd /repo && GOFLAGS=-mod=mod GOPROXY=off GOSUMDB=off go test -json -vet=off -count=1 -timeout 25m ./...",
  "source_commits": hook_commits,
  "add_only": True
 },
 "engines": [
  {"name": "rapid-driver", "path": "/verif/check", "serves_properties": [], "kind_free_text": "python driver + Go test binaries: pgregory.net/rapid v1.3.0 generators/state machines, bounded-exhaustive enumerators, explicit oracles; sharded by seed"}
 ],
 "checks": [],
 "not_applicable": [],
 "notes": "Every check: ./check CNN --tier quick|thorough (cwd /verif). Exit 0 held / 1 VIOLATION / 2 inconclusive (infrastructure). Known findings are listed in known_findings.jsonl and printed as KNOWN-FINDING lines. See DESIGN.md."
}
for p in props:
    mp = os.path.join(ROOT, "checks", p.lower(), "meta.json")
    meta = json.load(open(mp)) if os.path.exists(mp) else None
    if not meta or not meta.get("claimed", True) or meta.get("not_applicable"):
        reason = (meta or {}).get("not_applicable") or "check not built yet in this round (planned, see DESIGN.md section 6)"
        man["not_applicable"].append({"property_id": p, "reason": reason})
        continue
    man["engines"][0]["serves_properties"].append(p)
    man["checks"].append({
        "property_id": p,
        "quick_cmd": "./check %s --tier quick" % p,
        "thorough_cmd": "./check %s --tier thorough" % p,
        "evidence_file": "/verif/evidence/%s.json" % p,
        "replay_cmd_template": "./check %s --replay {path}" % p,
        "engine": "rapid-driver",
        "level_claimed": {"category": meta.get("level", "exploration"), "text": meta["level_text"], "design_ref": "DESIGN.md section 6, " + p},
        "level_note": meta["level_note"],
        "technique": meta["technique"],
    })
json.dump(man, open(os.path.join(ROOT, "MANIFEST.json"), "w"), ensure_ascii=False, indent=1)
print("claimed:", [c["property_id"] for c in man["checks"]])
