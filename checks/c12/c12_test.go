// C12 - lists are 1-indexed sequences, dictionaries insertion-ordered maps
package c12

import (
	"bytes"
	"encoding/json"
	"fmt"
	"strconv"
	"strings"
	"testing"

	"github.com/DemoHn/Zn/pkg/common"
	zerr "github.com/DemoHn/Zn/pkg/error"
	r "github.com/DemoHn/Zn/pkg/runtime"
	"github.com/DemoHn/Zn/pkg/value"
	"pgregory.net/rapid"

	h "verif/harness"
	"verif/zn"
)

func TestMain(m *testing.M) { h.Main(m, "C12", replay) }

// op - one operation of a history. Vals index into the value pool.
type op struct {
	Op   string   `json:"op"`
	I    int      `json:"i,omitempty"`
	J    int      `json:"j,omitempty"`
	K    string   `json:"k,omitempty"`
	V    int      `json:"v,omitempty"`
	Vs   []int    `json:"vs,omitempty"`
	Keys []string `json:"keys,omitempty"`
	S    int      `json:"s,omitempty"` // collection acted upon (histories hold nSlots collections; copy: S = destination, J = source)
}

const nSlots = 3

type history struct {
	Kind     string   `json:"kind"` // list | dict
	Init     []int    `json:"init,omitempty"`
	InitKeys []string `json:"init_keys,omitempty"`
	Ops      []op     `json:"ops"`
}

func replay(sub string, raw json.RawMessage) ([]h.Failure, error) {
	switch sub {
	case "list", "dict":
		var hs history
		if err := json.Unmarshal(raw, &hs); err != nil {
			return nil, err
		}
		if hs.Kind == "dict" {
			return runDict(&hs), nil
		}
		return runList(&hs), nil
	case "program":
		return replayProgram(raw)
	case "find":
		var c findCase
		if err := json.Unmarshal(raw, &c); err != nil {
			return nil, err
		}
		return checkFind(c), nil
	}
	return nil, fmt.Errorf("unknown sub-check %q", sub)
}

// value pool: fresh model values (and fresh elements) per use
func poolValue(i int) zn.Value {
	switch i % 11 {
	case 9: // a dictionary two lists deep (its key order must survive every rendering)
		d := zn.NewDict()
		d.Set("z", float64(1))
		d.Set("a", float64(2))
		return &zn.ListV{Items: []zn.Value{&zn.ListV{Items: []zn.Value{d}}}}
	case 10:
		d := zn.NewDict()
		d.Set("m", &zn.ListV{Items: []zn.Value{}})
		d.Set("b", zn.NullV{})
		d.Set("k", "v")
		inner := zn.NewDict()
		inner.Set("y", d)
		inner.Set("c", &zn.ListV{Items: []zn.Value{&zn.ListV{Items: []zn.Value{d}}}})
		return inner
	case 0:
		return float64(0)
	case 1:
		return float64(1)
	case 2:
		return float64(2)
	case 3:
		return "a"
	case 4:
		return "b"
	case 5:
		return zn.NullV{}
	case 6:
		return &zn.ListV{Items: []zn.Value{float64(1)}}
	case 7:
		return true
	default:
		d := zn.NewDict()
		d.Set("x", float64(1))
		return d
	}
}

func errCode(err error) int {
	if e, ok := err.(*zerr.RuntimeError); ok {
		return e.Code
	}
	if err == nil {
		return 0
	}
	return -1
}

func isErr(err error) bool { return err != nil }

// ---------------------------------------------------------------------------------------
// list histories

func runList(hs *history) (fails []h.Failure) {
	var model []zn.Value
	items := []r.Element{}
	for _, i := range hs.Init {
		model = append(model, poolValue(i))
		items = append(items, zn.ToElem(poolValue(i)))
	}
	arr := value.NewArray(items)
	// further collections start empty; "copy" stores an independent copy of one in another
	arrs := []*value.Array{arr}
	models := [][]zn.Value{model}
	for i := 1; i < nSlots; i++ {
		arrs = append(arrs, value.NewArray([]r.Element{}))
		models = append(models, nil)
	}
	var hist []string
	fail := func(sig, why string) {
		fails = append(fails, h.Failure{Sig: "list/" + sig, Msg: fmt.Sprintf("initial list %s, after %s\n%s\nmodel: %s\nlist:  %s", zn.Show(&zn.ListV{Items: initVals(hs.Init)}), strings.Join(hist, "; "), why, zn.Show(&zn.ListV{Items: model}), arr.String())})
	}
	kind, msg, site := h.Guard(func() {
		for _, o := range hs.Ops {
			hist = append(hist, describe(o))
			if o.S < 0 || o.S >= nSlots {
				o.S = 0
			}
			arr, model = arrs[o.S], models[o.S]
			n := len(model)
			switch o.Op {
			case "copy":
				if o.J < 0 || o.J >= nSlots {
					o.J = 0
				}
				arrs[o.S] = value.DuplicateValue(arrs[o.J]).(*value.Array)
				models[o.S] = append([]zn.Value{}, models[o.J]...)
				arr, model = arrs[o.S], models[o.S]
			case "get":
				got, err := h.ListGet(arr, o.I)
				if o.I < 1 || o.I > n {
					if errCode(err) != zerr.ErrIndexOutOfRange {
						fail("read-out-of-range-accepted", fmt.Sprintf("reading #%d of a list of %d: expected an index error, got %v %v", o.I, n, got, err))
						return
					}
				} else if err != nil {
					fail("read-rejected", fmt.Sprintf("reading #%d: %v", o.I, err))
					return
				} else if ok, why := zn.Same(got, model[o.I-1]); !ok {
					fail("read-wrong-element", fmt.Sprintf("#%d: %s", o.I, why))
					return
				}
			case "set":
				err := h.ListSet(arr, o.I, zn.ToElem(poolValue(o.V)))
				if o.I < 1 || o.I > n {
					if errCode(err) != zerr.ErrIndexOutOfRange {
						fail("write-out-of-range-accepted", fmt.Sprintf("writing #%d of a list of %d: expected an index error, got %v", o.I, n, err))
						return
					}
				} else if err != nil {
					fail("write-rejected", fmt.Sprintf("writing #%d: %v", o.I, err))
					return
				} else {
					model[o.I-1] = poolValue(o.V)
				}
			case "append":
				_, err := arr.ExecMethod("后增", []r.Element{zn.ToElem(poolValue(o.V))})
				if err != nil {
					fail("append-rejected", err.Error())
					return
				}
				model = append(model, poolValue(o.V))
				last, _ := arr.GetProperty("末项")
				if ok, why := zn.Same(last, poolValue(o.V)); !ok {
					fail("append-last", "后增 x then 末项: "+why)
					return
				}
			case "prepend":
				_, err := arr.ExecMethod("前增", []r.Element{zn.ToElem(poolValue(o.V))})
				if err != nil {
					fail("prepend-rejected", err.Error())
					return
				}
				model = append([]zn.Value{poolValue(o.V)}, model...)
			case "shift", "pop":
				name := "左移"
				if o.Op == "pop" {
					name = "右移"
				}
				got, err := arr.ExecMethod(name, nil)
				if err != nil {
					fail("shift-rejected", err.Error())
					return
				}
				var want zn.Value = zn.NullV{}
				if n > 0 {
					if o.Op == "shift" {
						want, model = model[0], append([]zn.Value{}, model[1:]...)
					} else {
						want, model = model[n-1], append([]zn.Value{}, model[:n-1]...)
					}
				}
				if ok, why := zn.Same(got, want); !ok {
					fail("shift-wrong-element", name+": "+why)
					return
				}
			case "swap":
				_, err := arr.ExecMethod("交换", []r.Element{value.NewNumber(float64(o.I)), value.NewNumber(float64(o.J))})
				if o.I < 1 || o.I > n || o.J < 1 || o.J > n {
					if !isErr(err) {
						fail("swap-out-of-range-accepted", fmt.Sprintf("交换 %d %d on %d elements accepted", o.I, o.J, n))
						return
					}
				} else if err != nil {
					fail("swap-rejected", err.Error())
					return
				} else {
					model[o.I-1], model[o.J-1] = model[o.J-1], model[o.I-1]
				}
			case "merge":
				var extra []zn.Value
				for _, vi := range o.Vs {
					extra = append(extra, poolValue(vi))
				}
				arg := zn.ToElem(&zn.ListV{Items: extra})
				before := append([]zn.Value{}, model...)
				got, err := arr.ExecMethod("合并", []r.Element{arg})
				if err != nil {
					fail("merge-rejected", err.Error())
					return
				}
				concat := append(append([]zn.Value{}, model...), extra...)
				if ok, why := zn.Same(got, &zn.ListV{Items: concat}); !ok {
					fail("merge-result", "合并: "+why)
					return
				}
				// receiver afterwards: either unchanged or the concatenation
				if ok, _ := zn.Same(arr, &zn.ListV{Items: concat}); ok {
					model = concat
				} else if ok, _ := zn.Same(arr, &zn.ListV{Items: before}); ok {
					model = before
				} else {
					fail("merge-receiver", "receiver after 合并 is neither the old list nor the concatenation")
					return
				}
				// the result is a new value: detach it from further mutations by not keeping it
			case "merge-collections":
				// the arguments are the collections of the history themselves (method
				// arguments travel by reference), possibly the receiver: 合并 appends the
				// arguments as they were when the call started
				var argv []r.Element
				concat := append([]zn.Value{}, model...)
				for _, si := range o.Vs {
					if si < 0 || si >= nSlots {
						si = 0
					}
					argv = append(argv, arrs[si])
					concat = append(concat, models[si]...)
				}
				got, err := arr.ExecMethod("合并", argv)
				if err != nil {
					fail("merge-rejected", err.Error())
					return
				}
				if ok, why := zn.Same(got, &zn.ListV{Items: concat}); !ok {
					fail("merge-result", fmt.Sprintf("合并 of collections %v: %s", o.Vs, why))
					return
				}
				if ok, _ := zn.Same(arr, &zn.ListV{Items: concat}); ok {
					model = concat
				} else if ok, _ := zn.Same(arr, &zn.ListV{Items: model}); !ok {
					fail("merge-receiver", "receiver after 合并 is neither the old list nor the concatenation")
					return
				}
			case "first-set", "last-set":
				if n == 0 {
					continue // not specified for an empty list
				}
				name := "首项"
				idx := 0
				if o.Op == "last-set" {
					name, idx = "末项", n-1
				}
				if err := arr.SetProperty(name, zn.ToElem(poolValue(o.V))); err != nil {
					fail("first-last-set-rejected", err.Error())
					return
				}
				model[idx] = poolValue(o.V)
			case "reverse":
				got, err := arr.GetProperty("逆序")
				if err != nil {
					fail("reverse-rejected", err.Error())
					return
				}
				rev := make([]zn.Value, n)
				for i := range model {
					rev[n-1-i] = model[i]
				}
				if ok, why := zn.Same(got, &zn.ListV{Items: rev}); !ok {
					fail("reverse-wrong", "逆序: "+why)
					return
				}
				// involution
				back, err := got.GetProperty("逆序")
				if err != nil {
					fail("reverse-rejected", err.Error())
					return
				}
				if ok, why := zn.Same(back, &zn.ListV{Items: model}); !ok {
					fail("reverse-not-involution", "逆序 twice: "+why)
					return
				}
				// the reversed list is a list of its own: changing IT leaves the receiver alone
				// (the comparison of every collection with its model follows below)
				if _, err := got.ExecMethod("后增", []r.Element{value.NewString("仅在逆序中")}); err != nil {
					fail("reverse-result-not-a-list", err.Error())
					return
				}
				// ... and so does changing its ITEMS in place
				touchItems(got, n)
			case "contains", "find":
				needle := poolValue(o.V)
				pos := 0
				for i, m := range model {
					if eq, _ := zn.Equal(m, needle); eq {
						pos = i + 1
						break
					}
				}
				if o.Op == "contains" {
					got, err := arr.ExecMethod("包含", []r.Element{zn.ToElem(needle)})
					if err != nil {
						fail("contains-rejected", err.Error())
						return
					}
					if ok, why := zn.Same(got, pos > 0); !ok {
						fail("contains-wrong", fmt.Sprintf("包含 %s: %s", zn.Show(needle), why))
						return
					}
				} else {
					got, err := arr.ExecMethod("寻找", []r.Element{zn.ToElem(needle)})
					if err != nil {
						fail("find-rejected", err.Error())
						return
					}
					gn, ok := got.(*value.Number)
					if !ok {
						fail("find-not-a-number", got.String())
						return
					}
					p := gn.GetValue()
					if pos > 0 && p != float64(pos) {
						fail("find-position", fmt.Sprintf("寻找 %s: the first equal element is #%d, reported position %v", zn.Show(needle), pos, p))
						return
					}
					if pos == 0 && p >= 1 && p <= float64(n) && p == float64(int(p)) {
						fail("find-absent-valid-position", fmt.Sprintf("寻找 %s: absent, but reported the valid position %v", zn.Show(needle), p))
						return
					}
				}
			}
			models[o.S] = model
			// invariants after every step, for every collection of the history: display
			// form, length, first/last, elements
			for si := range arrs {
				arr, model = arrs[si], models[si]
				if ok, why := zn.Same(arr, &zn.ListV{Items: model}); !ok {
					fail("state-diverged", fmt.Sprintf("collection %d: %s", si, why))
					return
				}
				if arr.String() != zn.Show(&zn.ListV{Items: model}) {
					fail("display", fmt.Sprintf("collection %d: displayed form differs", si))
					return
				}
				ln, _ := arr.GetProperty("长度")
				if ok, why := zn.Same(ln, float64(len(model))); !ok {
					fail("length", why)
					return
				}
				if len(model) > 0 {
					f, _ := arr.GetProperty("首项")
					l, _ := arr.GetProperty("末项")
					ok1, _ := zn.Same(f, model[0])
					ok2, _ := zn.Same(l, model[len(model)-1])
					if !ok1 || !ok2 {
						fail("first-last", "首项/末项 disagree with the sequence")
						return
					}
				}
			}
		}
	})
	if kind != "" {
		fails = append(fails, h.Failure{Sig: "list/" + kind + "@" + site, Msg: strings.Join(hist, "; ") + "\n" + msg})
	}
	return
}

// touchItems - change every item of a derived list in place (nested lists / dictionaries grow,
// numbers are incremented)
func touchItems(list r.Element, n int) {
	for i := 1; i <= n; i++ {
		item, err := h.ListGet(list, i)
		if err != nil {
			return
		}
		switch x := item.(type) {
		case *value.Array:
			x.ExecMethod("后增", []r.Element{value.NewString("仅在副本中")})
		case *value.HashMap:
			x.ExecMethod("写入", []r.Element{value.NewString("仅在副本中"), value.NewNumber(1)})
		case *value.Number:
			x.ExecMethod("自增", []r.Element{value.NewNumber(1)})
		}
	}
}

func initVals(idx []int) []zn.Value {
	var out []zn.Value
	for _, i := range idx {
		out = append(out, poolValue(i))
	}
	return out
}

func describe(o op) string {
	d := describe1(o)
	if o.Op == "copy" || o.Op == "dcopy" {
		return fmt.Sprintf("collection %d = copy of collection %d", o.S, o.J)
	}
	if o.S != 0 {
		return fmt.Sprintf("[collection %d] %s", o.S, d)
	}
	return d
}

func describe1(o op) string {
	switch o.Op {
	case "get":
		return fmt.Sprintf("read #%d", o.I)
	case "set":
		return fmt.Sprintf("#%d = %s", o.I, zn.Show(poolValue(o.V)))
	case "append", "prepend", "first-set", "last-set", "contains", "find":
		return fmt.Sprintf("%s %s", o.Op, zn.Show(poolValue(o.V)))
	case "swap":
		return fmt.Sprintf("swap %d %d", o.I, o.J)
	case "merge":
		return fmt.Sprintf("merge %v", o.Vs)
	case "merge-collections":
		return fmt.Sprintf("merge collections %v", o.Vs)
	case "dget", "dread", "ddel":
		return fmt.Sprintf("%s %q", o.Op, o.K)
	case "dset", "dwrite":
		return fmt.Sprintf("%s %q = %s", o.Op, o.K, zn.Show(poolValue(o.V)))
	}
	return o.Op
}

func genListHistory(t *rapid.T) (*history, []string) {
	hs := &history{Kind: "list"}
	n0 := rapid.IntRange(0, 4).Draw(t, "n0")
	for i := 0; i < n0; i++ {
		hs.Init = append(hs.Init, rapid.IntRange(0, 10).Draw(t, "init"))
	}
	nops := rapid.IntRange(1, 25).Draw(t, "nops")
	mut := map[string]bool{}
	// long lists that grow and are drained again (storage is reallocated / reused on the way)
	long := rapid.IntRange(0, 7).Draw(t, "long") == 0
	drain := "shift"
	if long {
		n1 := rapid.IntRange(20, 160).Draw(t, "n1")
		for i := n0; i < n1; i++ {
			hs.Init = append(hs.Init, rapid.IntRange(0, 10).Draw(t, "init"))
		}
		n0 = n1
		nops = rapid.IntRange(n1/2, n1+40).Draw(t, "nops-long")
		drain = rapid.SampledFrom([]string{"shift", "shift", "pop", "append", "prepend"}).Draw(t, "drain")
		mut["long"] = true
	}
	size := n0
	multi := rapid.Bool().Draw(t, "multi") // several collections with copies between them
	for i := 0; i < nops; i++ {
		k := rapid.SampledFrom([]string{"get", "get", "set", "append", "append", "prepend", "shift", "pop", "swap", "merge", "first-set", "last-set", "reverse", "contains", "find", "find", "copy", "merge-collections"}).Draw(t, "op")
		if long && rapid.IntRange(0, 9).Draw(t, "drainop") < 8 {
			k = drain
		}
		o := op{Op: k}
		if multi {
			o.S = rapid.IntRange(0, nSlots-1).Draw(t, "slot")
		}
		if long && k == drain {
			o.S = 0 // the long collection
		}
		if k == "copy" {
			if !multi {
				continue
			}
			o.J = rapid.IntRange(0, nSlots-1).Draw(t, "from")
			mut["copy"] = true
		}
		switch k {
		case "get", "set":
			o.I = rapid.IntRange(-1, size+2).Draw(t, "i")
			o.V = rapid.IntRange(0, 10).Draw(t, "v")
		case "swap":
			o.I = rapid.IntRange(0, size+1).Draw(t, "i")
			o.J = rapid.IntRange(0, size+1).Draw(t, "j")
		case "merge":
			o.Vs = rapid.SliceOfN(rapid.IntRange(0, 10), 0, 3).Draw(t, "vs")
		case "merge-collections":
			o.Vs = rapid.SliceOfN(rapid.IntRange(0, nSlots-1), 1, 3).Draw(t, "slots")
			mut["merge-collections"] = true
		default:
			o.V = rapid.IntRange(0, 10).Draw(t, "v")
		}
		switch k {
		case "append", "prepend":
			size++
			mut[k] = true
		case "shift", "pop":
			if size > 0 {
				size--
			}
			mut[k] = true
		case "set", "swap", "first-set", "last-set":
			mut[k] = true
		case "merge":
			mut[k] = true
			size += len(o.Vs) // upper bound; get/set ranges only need to straddle the boundary
		}
		hs.Ops = append(hs.Ops, o)
	}
	var labels []string
	for k := range mut {
		labels = append(labels, "list-"+k)
	}
	return hs, labels
}

func TestListHistories(t *testing.T) {
	rapid.Check(t, func(t *rapid.T) {
		hs, labels := genListHistory(t)
		key, _ := json.Marshal(hs)
		h.R.Case(t, "list", string(key), hs, labels, len(labels) >= 3, runList(hs))
	})
}

// ---------------------------------------------------------------------------------------
// dictionary histories

type omap struct {
	keys []string
	m    map[string]zn.Value
}

func (o *omap) set(k string, v zn.Value) {
	if _, ok := o.m[k]; !ok {
		o.keys = append(o.keys, k)
	}
	o.m[k] = v
}
func (o *omap) del(k string) {
	if _, ok := o.m[k]; !ok {
		return
	}
	delete(o.m, k)
	for i, x := range o.keys {
		if x == k {
			o.keys = append(append([]string{}, o.keys[:i]...), o.keys[i+1:]...)
			return
		}
	}
}
func (o *omap) dict() *zn.DictV {
	d := zn.NewDict()
	for _, k := range o.keys {
		d.Set(k, o.m[k])
	}
	return d
}

// jsonKeyOrder - top-level key order of a JSON object text
// refJSON - compact JSON of a model value with every dictionary in insertion order (the
// pool holds small integers, ASCII / CJK texts, 空, booleans, lists and dictionaries only)
func refJSON(v zn.Value) string {
	switch x := v.(type) {
	case float64:
		return strconv.FormatFloat(x, 'f', -1, 64)
	case string:
		b, _ := json.Marshal(x)
		return string(b)
	case bool:
		if x {
			return "true"
		}
		return "false"
	case zn.NullV:
		return "null"
	case *zn.ListV:
		parts := make([]string, len(x.Items))
		for i, it := range x.Items {
			parts[i] = refJSON(it)
		}
		return "[" + strings.Join(parts, ",") + "]"
	case *zn.DictV:
		parts := make([]string, len(x.Keys))
		for i, k := range x.Keys {
			kb, _ := json.Marshal(k)
			parts[i] = string(kb) + ":" + refJSON(x.M[k])
		}
		return "{" + strings.Join(parts, ",") + "}"
	}
	return "?"
}

func jsonKeyOrder(s string) ([]string, error) {
	dec := json.NewDecoder(bytes.NewReader([]byte(s)))
	tok, err := dec.Token()
	if err != nil {
		return nil, err
	}
	if d, ok := tok.(json.Delim); !ok || d != '{' {
		return nil, fmt.Errorf("not an object")
	}
	var keys []string
	for dec.More() {
		kt, err := dec.Token()
		if err != nil {
			return nil, err
		}
		keys = append(keys, kt.(string))
		var skip json.RawMessage
		if err := dec.Decode(&skip); err != nil {
			return nil, err
		}
	}
	return keys, nil
}

func runDict(hs *history) (fails []h.Failure) {
	model := &omap{m: map[string]zn.Value{}}
	var pairs []value.KVPair
	for i, k := range hs.InitKeys {
		model.set(k, poolValue(hs.Init[i]))
		pairs = append(pairs, value.KVPair{Key: k, Value: zn.ToElem(poolValue(hs.Init[i]))})
	}
	hm := value.NewHashMap(pairs)
	hms := []*value.HashMap{hm}
	models := []*omap{model}
	for i := 1; i < nSlots; i++ {
		hms = append(hms, value.NewHashMap(nil))
		models = append(models, &omap{m: map[string]zn.Value{}})
	}
	var hist []string
	fail := func(sig, why string) {
		fails = append(fails, h.Failure{Sig: "dict/" + sig, Msg: fmt.Sprintf("literal keys %v, after %s\n%s\nmodel:      %s\ndictionary: %s", hs.InitKeys, strings.Join(hist, "; "), why, zn.Show(model.dict()), hm.String())})
	}
	kind, msg, site := h.Guard(func() {
		for _, o := range hs.Ops {
			hist = append(hist, describe(o))
			if o.S < 0 || o.S >= nSlots {
				o.S = 0
			}
			hm, model = hms[o.S], models[o.S]
			switch o.Op {
			case "dcopy":
				if o.J < 0 || o.J >= nSlots {
					o.J = 0
				}
				hms[o.S] = value.DuplicateValue(hms[o.J]).(*value.HashMap)
				cp := &omap{m: map[string]zn.Value{}}
				for _, k := range models[o.J].keys {
					cp.set(k, models[o.J].m[k])
				}
				models[o.S] = cp
			case "dget":
				got, err := h.DictGet(hm, o.K)
				want, ok := model.m[o.K]
				if !ok {
					if errCode(err) != zerr.ErrIndexKeyNotFound {
						fail("missing-key-read-accepted", fmt.Sprintf("#%q is absent: expected a key error, got %v %v", o.K, got, err))
						return
					}
				} else if err != nil {
					fail("read-rejected", err.Error())
					return
				} else if ok, why := zn.Same(got, want); !ok {
					fail("read-wrong-value", why)
					return
				}
			case "dset":
				if err := h.DictSet(hm, o.K, zn.ToElem(poolValue(o.V))); err != nil {
					fail("write-rejected", err.Error())
					return
				}
				model.set(o.K, poolValue(o.V))
			case "dwrite":
				if _, err := hm.ExecMethod("写入", []r.Element{value.NewString(o.K), zn.ToElem(poolValue(o.V))}); err != nil {
					fail("write-rejected", err.Error())
					return
				}
				model.set(o.K, poolValue(o.V))
			case "dread":
				got, err := hm.ExecMethod("读取", []r.Element{value.NewString(o.K)})
				if err != nil {
					fail("read-rejected", err.Error())
					return
				}
				if want, ok := model.m[o.K]; ok {
					if same, why := zn.Same(got, want); !same {
						fail("read-wrong-value", "读取: "+why)
						return
					}
				}
			case "ddel":
				if _, err := hm.ExecMethod("移除", []r.Element{value.NewString(o.K)}); err != nil {
					fail("delete-rejected", err.Error())
					return
				}
				model.del(o.K)
			}
			// every collection of the history must agree with its model after every step
			for si := range hms {
				hm, model = hms[si], models[si]
				want := model.dict()
				if ok, why := zn.Same(hm, want); !ok {
					fail("state-diverged", why)
					return
				}
				if hm.String() != zn.Show(want) {
					fail("display-order", "displayed form differs")
					return
				}
				ks, _ := hm.GetProperty("所有索引")
				vs, _ := hm.GetProperty("所有值")
				wk := &zn.ListV{}
				wv := &zn.ListV{}
				for _, k := range model.keys {
					wk.Items = append(wk.Items, k)
					wv.Items = append(wv.Items, model.m[k])
				}
				if ok, why := zn.Same(ks, wk); !ok {
					fail("keys-order", "所有索引: "+why)
					return
				}
				if ok, why := zn.Same(vs, wv); !ok {
					fail("values-order", "所有值: "+why)
					return
				}
				// the list of values is a list of its own: changing its items in place leaves the
				// dictionary alone (the JSON text below and the next comparison would show it)
				touchItems(vs, len(model.keys))
				ln, _ := hm.GetProperty("长度")
				if ok, why := zn.Same(ln, float64(len(model.keys))); !ok {
					fail("length", why)
					return
				}
				// generated JSON follows the same order
				js, err := common.HashMapToJSONString(hm)
				if err != nil {
					fail("json-rejected", err.Error())
					return
				}
				order, err := jsonKeyOrder(js.GetValue())
				if err != nil {
					fail("json-invalid", err.Error()+": "+js.GetValue())
					return
				}
				if want := refJSON(model.dict()); js.GetValue() != want {
					fail("json-text", fmt.Sprintf("generated JSON %s; the dictionary in insertion order at every level is %s", js.GetValue(), want))
					return
				}
				if strings.Join(order, "\x00") != strings.Join(model.keys, "\x00") {
					fail("json-key-order", fmt.Sprintf("generated JSON %s lists keys %v, insertion order is %v", js.GetValue(), order, model.keys))
					return
				}
			}
		}
	})
	if kind != "" {
		fails = append(fails, h.Failure{Sig: "dict/" + kind + "@" + site, Msg: strings.Join(hist, "; ") + "\n" + msg})
	}
	return
}

var dictKeys = []string{"b", "a", "c", "键", "10", "2", "Z"}

func TestDictHistories(t *testing.T) {
	rapid.Check(t, func(t *rapid.T) {
		hs := &history{Kind: "dict"}
		n0 := rapid.IntRange(0, 5).Draw(t, "n0")
		for i := 0; i < n0; i++ {
			hs.InitKeys = append(hs.InitKeys, rapid.SampledFrom(dictKeys).Draw(t, "k0"))
			hs.Init = append(hs.Init, rapid.IntRange(0, 10).Draw(t, "v0"))
		}
		nops := rapid.IntRange(1, 25).Draw(t, "nops")
		removed := map[string]bool{}
		reinserted, overwrote := false, false
		multi := rapid.Bool().Draw(t, "multi")
		copies := 0
		present := map[string]bool{}
		for _, k := range hs.InitKeys {
			present[k] = true
		}
		for i := 0; i < nops; i++ {
			k := rapid.SampledFrom([]string{"dget", "dset", "dset", "dwrite", "dread", "ddel", "ddel", "dcopy"}).Draw(t, "op")
			o := op{Op: k, K: rapid.SampledFrom(dictKeys).Draw(t, "key"), V: rapid.IntRange(0, 10).Draw(t, "v")}
			if multi {
				o.S = rapid.IntRange(0, nSlots-1).Draw(t, "slot")
			}
			if k == "dcopy" {
				if !multi {
					continue
				}
				o.J = rapid.IntRange(0, nSlots-1).Draw(t, "from")
				copies++
				hs.Ops = append(hs.Ops, o)
				continue
			}
			if o.S != 0 {
				// the label bookkeeping below follows collection 0 only
				hs.Ops = append(hs.Ops, o)
				continue
			}
			switch k {
			case "dset", "dwrite":
				if removed[o.K] && !present[o.K] {
					reinserted = true
				}
				if present[o.K] {
					overwrote = true
				}
				present[o.K] = true
			case "ddel":
				if present[o.K] {
					removed[o.K] = true
					delete(present, o.K)
				}
			}
			hs.Ops = append(hs.Ops, o)
		}
		var labels []string
		if reinserted {
			labels = append(labels, "dict-reinsert-after-remove")
		}
		if overwrote {
			labels = append(labels, "dict-overwrite")
		}
		if copies > 0 {
			labels = append(labels, "dict-copies")
		}
		key, _ := json.Marshal(hs)
		h.R.Case(t, "dict", string(key), hs, labels, reinserted || copies > 0 || (overwrote && len(removed) > 0), runDict(hs))
	})
}

func TestCorpus(t *testing.T) { h.RunCorpus(t, "c12", replay) }
