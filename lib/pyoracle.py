#!/usr/bin/env python3
"""Batch oracle: an independent JSON implementation (CPython's json) behind an NDJSON
stdin/stdout protocol. Values travel in a tagged form so that doubles (as bit patterns),
key order, duplicate keys and arbitrary code points survive the transport.

 request  {"op":"loads","text":[code points]}
 response {"ok":true,"value":T} | {"ok":false,"err":"..."}
 request  {"op":"dumps","value":T,"ensure_ascii":bool,"indent":null|int,"seps":null|[a,b]}
 response {"ok":true,"text":[code points]}
 request  {"op":"fmtnum","b":"16 hex digits","spec":".6g",["scale100":true]}
 response {"ok":true,"text":[code points]}

 T = {"t":"num","b":"16 hex digits"} | {"t":"str","cp":[...]} | {"t":"bool","v":b} | {"t":"null"}
   | {"t":"list","items":[T...]} | {"t":"obj","pairs":[[[key code points],T]...]}
"""
import json, struct, sys


class Pairs(list):
    pass


def strict_const(name):
    raise ValueError("non-standard constant " + name)


def to_tagged(v):
    if v is None:
        return {"t": "null"}
    if v is True or v is False:
        return {"t": "bool", "v": v}
    if isinstance(v, float):
        return {"t": "num", "b": struct.pack(">d", v).hex()}
    if isinstance(v, str):
        return {"t": "str", "cp": [ord(c) for c in v]}
    if isinstance(v, Pairs):
        return {"t": "obj", "pairs": [[[ord(c) for c in k], to_tagged(x)] for k, x in v]}
    if isinstance(v, list):
        return {"t": "list", "items": [to_tagged(x) for x in v]}
    raise ValueError("unexpected python value %r" % (v,))


def from_tagged(t):
    k = t["t"]
    if k == "null":
        return None
    if k == "bool":
        return t.get("v", False)
    if k == "num":
        f = struct.unpack(">d", bytes.fromhex(t["b"]))[0]
        # integral doubles are written as ints by json.dumps when given as int
        return f
    if k == "str":
        return "".join(chr(c) for c in t.get("cp") or [])
    if k == "list":
        return [from_tagged(x) for x in t.get("items") or []]
    if k == "obj":
        d = {}
        for kcp, x in t.get("pairs") or []:
            d["".join(chr(c) for c in kcp)] = from_tagged(x)
        return d
    raise ValueError(k)


def main():
    out = sys.stdout
    for line in sys.stdin:
        line = line.strip()
        if not line:
            continue
        try:
            req = json.loads(line)
            if req["op"] == "loads":
                text = "".join(chr(c) for c in req["text"])
                v = json.loads(text, parse_int=float, parse_constant=strict_const,
                               object_pairs_hook=Pairs)
                resp = {"ok": True, "value": to_tagged(v)}
            elif req["op"] == "dumps":
                v = from_tagged(req["value"])
                seps = tuple(req["seps"]) if req.get("seps") else None
                text = json.dumps(v, ensure_ascii=req.get("ensure_ascii", True), indent=req.get("indent"),
                                  separators=seps, allow_nan=False)
                resp = {"ok": True, "text": [ord(c) for c in text]}
            elif req["op"] == "fmtnum":
                # rendering of one double by CPython's float formatting (correctly rounded,
                # independent of Go's strconv): spec is a format spec such as ".6g" ".3f" ".2E";
                # scale100 multiplies by 100 first (the % directive), in double arithmetic
                f = struct.unpack(">d", bytes.fromhex(req["b"]))[0]
                if req.get("scale100"):
                    f = f * 100
                resp = {"ok": True, "text": [ord(c) for c in format(f, req["spec"])]}
            else:
                resp = {"ok": False, "err": "unknown op"}
        except Exception as e:  # malformed document, non-finite number, ...
            resp = {"ok": False, "err": "%s: %s" % (type(e).__name__, e)}
        out.write(json.dumps(resp) + "\n")
        out.flush()


if __name__ == "__main__":
    main()
