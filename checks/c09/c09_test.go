// C09 - exceptions reach the nearest matching handler and unwind cleanly
package c09

import (
	"encoding/json"
	"fmt"
	"strings"
	"testing"

	"pgregory.net/rapid"

	h "verif/harness"
	"verif/zn"
)

func TestMain(m *testing.M) { h.Main(m, "C09", replay) }

type saved struct {
	Src       string            `json:"src"`
	Modules   map[string]string `json:"modules,omitempty"`
	WantTrace []string          `json:"want_trace"`
	WantErr   bool              `json:"want_err"`
	ErrWhat   string            `json:"err_what,omitempty"`
	ErrMsg    string            `json:"err_msg,omitempty"` // message of an uncaught explicit exception
	ErrDepth  int               `json:"err_depth"`         // user-level calls active at the raise (-1 unknown)
	WantKnown bool              `json:"want_value_known"`
	WantShow  string            `json:"want_show,omitempty"`
	Steps     int64             `json:"ref_steps"`
}

func replay(sub string, raw json.RawMessage) ([]h.Failure, error) {
	if sub == "depth" {
		var c depthCase
		if err := json.Unmarshal(raw, &c); err != nil {
			return nil, err
		}
		return checkDepth(c), nil
	}
	var s saved
	if err := json.Unmarshal(raw, &s); err != nil {
		return nil, err
	}
	return judge(&s), nil
}

func judge(s *saved) []h.Failure {
	o := h.Run(s.Src, h.Opts{Modules: s.Modules, EvalTicks: 20*s.Steps + 2000, WantVM: true})
	ctx := "program:\n" + s.Src
	for n, m := range s.Modules {
		ctx += "\n--- module " + n + ":\n" + m
	}
	switch o.Kind {
	case h.KPanic:
		return []h.Failure{{Sig: "exc/go-panic@" + o.PanicSite, Msg: ctx + "\nGo panic: " + o.PanicMsg}}
	case h.KBudget:
		return []h.Failure{{Sig: "exc/does-not-terminate", Msg: ctx + "\n" + o.PanicMsg}}
	case h.KNil:
		return []h.Failure{{Sig: "exc/nil-result", Msg: ctx + "\nthe program's value is a nil element"}}
	}
	if strings.Join(o.Trace, "\n") != strings.Join(s.WantTrace, "\n") {
		return []h.Failure{{Sig: "exc/trace-mismatch" + firstDiff(s.WantTrace, o.Trace), Msg: fmt.Sprintf("%s\ndocumented trace: %v (error=%v %s)\ninterpreter trace: %v\noutcome: %s", ctx, s.WantTrace, s.WantErr, s.ErrWhat, o.Trace, o.Short())}}
	}
	if s.WantErr != (o.Kind == h.KError) {
		sig := "exc/uncaught-expected:" + s.ErrWhat
		if !s.WantErr {
			sig = "exc/unexpected-error"
		}
		return []h.Failure{{Sig: sig, Msg: fmt.Sprintf("%s\ndocumented error=%v (%s); interpreter: %s", ctx, s.WantErr, s.ErrWhat, o.Short())}}
	}
	if o.Kind == h.KValue {
		if s.WantKnown && o.ValText != s.WantShow {
			return []h.Failure{{Sig: "exc/wrong-result", Msg: fmt.Sprintf("%s\ndocumented result %q; interpreter: %s", ctx, s.WantShow, o.Short())}}
		}
		if o.StackLen != 0 {
			return []h.Failure{{Sig: "exc/call-stack-not-empty", Msg: fmt.Sprintf("%s\n%d frames left on the call stack after a successful run", ctx, o.StackLen)}}
		}
		for id, d := range o.ScopeDepth {
			if d != 0 {
				return []h.Failure{{Sig: "exc/scope-depth-leak", Msg: fmt.Sprintf("%s\nsymbol table of module %d left at depth %d after a successful run", ctx, id, d)}}
			}
		}
		return nil
	}
	// uncaught: the program ends with the exception's message
	// (the message line - the last line of the report - not the quoted source lines, which may
	// well contain the very literal the message was written as)
	if s.ErrMsg != "" && !strings.HasSuffix(lastLine(o.Display), "："+s.ErrMsg) {
		return []h.Failure{{Sig: "exc/message-lost", Msg: fmt.Sprintf("%s\nuncaught exception message %q is not part of the reported error:\n%s", ctx, s.ErrMsg, o.Display)}}
	}
	if s.ErrDepth >= 0 && o.VM != nil {
		user := 0
		for _, fr := range o.VM.GetCallStack() {
			if fr.GetModule() != nil && fr.GetModule().GetID() >= 0 {
				user++
			}
		}
		if user != s.ErrDepth+1 {
			return []h.Failure{{Sig: "exc/stale-or-missing-frames", Msg: fmt.Sprintf("%s\nat the uncaught error %d user-level calls were active (+ the program frame), but the call stack holds %d non-native frames:\n%s", ctx, s.ErrDepth, user, o.Display)}}
		}
	}
	return nil
}

func lastLine(text string) string {
	lines := strings.Split(strings.TrimRight(text, "\n"), "\n")
	return lines[len(lines)-1]
}

func firstDiff(want, got []string) string {
	i := 0
	for i < len(want) && i < len(got) && want[i] == got[i] {
		i++
	}
	switch {
	case i < len(want) && i < len(got):
		return "@value"
	case i < len(got):
		return "@extra-output"
	}
	return "@missing-output"
}

// ---------------------------------------------------------------------------------------
// generator

type gen struct {
	t             *rapid.T
	labels        map[string]bool
	nfun          int
	useMod        bool
	maxRaiseDepth int
	probes        int
}

func (g *gen) pick(n int, w string) int { return rapid.IntRange(0, n-1).Draw(g.t, w) }

func show(tag string, es ...zn.Expr) zn.Stmt {
	return &zn.ExprStmt{E: &zn.Call{Name: "显示", Args: append([]zn.Expr{&zn.Str{V: tag}}, es...)}}
}
func num(f float64) zn.Expr { return &zn.Num{Val: f} }
func v(n string) zn.Expr    { return &zn.Var{Name: n} }
func str(s string) zn.Expr  { return &zn.Str{V: s} }

// raise - a statement list that raises (kind drawn)
func (g *gen) raise(tag string) []zn.Stmt {
	switch g.pick(15, "raise") {
	case 13:
		g.labels["raise:format-directive-on-text"] = true
		return []zn.Stmt{&zn.Let{Names: []string{"Q" + tag}, E: &zn.Bin{Op: "%", L: str("{#.2}"), R: &zn.ListLit{Items: []zn.Expr{str("x")}}}}}
	case 14:
		g.labels["raise:format-count-mismatch"] = true
		return []zn.Stmt{show("fmt", &zn.Bin{Op: "%", L: str("{}{}"), R: &zn.ListLit{Items: []zn.Expr{num(1)}}})}
	case 11:
		g.labels["raise:arity-mismatch"] = true
		return []zn.Stmt{show("ar", &zn.Call{Name: "Helper"})}
	case 12:
		g.labels["raise:arity-mismatch"] = true
		return []zn.Stmt{&zn.Let{Names: []string{"Y" + tag}, E: &zn.Call{Name: "Helper", Args: []zn.Expr{num(1), num(2)}}}}
	case 0, 1:
		g.labels["raise:throw-builtin"] = true
		// (messages are text, whatever they contain: per cent signs, braces, backslashes)
		return []zn.Stmt{&zn.Throw{Class: "异常", Args: []zn.Expr{str("m-" + tag + []string{"", "", " 100%d 完成50%，剩余%s", " {#.2} {} \\n", " %!v(MISSING) %%"}[g.pick(5, "odd-msg")])}}}
	case 2:
		g.labels["raise:throw-custom-ctor"] = true
		return []zn.Stmt{&zn.Throw{Class: "E1", Args: []zn.Expr{str("c-" + tag), num(7)}}}
	case 3:
		g.labels["raise:throw-custom-noctor"] = true
		return []zn.Stmt{&zn.Throw{Class: "E2", Args: []zn.Expr{str("d-" + tag)}}}
	case 4:
		g.labels["raise:div-zero"] = true
		return []zn.Stmt{&zn.Let{Names: []string{"Z" + tag}, E: &zn.Bin{Op: "/", L: num(1), R: num(0)}}}
	case 5:
		g.labels["raise:index"] = true
		return []zn.Stmt{show("idx", &zn.Index{Root: &zn.ListLit{Items: []zn.Expr{num(1)}}, Idx: num(5)})}
	case 6:
		g.labels["raise:key"] = true
		return []zn.Stmt{show("key", &zn.Index{Root: &zn.DictLit{Keys: []string{"a"}, Vals: []zn.Expr{num(1)}}, Idx: str("k")})}
	case 7:
		g.labels["raise:type"] = true
		return []zn.Stmt{show("ty", &zn.Bin{Op: "+", L: num(1), R: str("a")})}
	case 8:
		g.labels["raise:name"] = true
		return []zn.Stmt{show("nm", v("未知名"))}
	case 9:
		g.labels["raise:in-loop"] = true
		// raised in the second pass of a loop of any kind (list / dictionary, 0..2 loop
		// variables, 每当), by a 抛出 of either class or by a runtime fault: no further pass,
		// no statement after the loop
		var raise zn.Stmt
		switch g.pick(4, "loop-raise") {
		case 0:
			raise = &zn.Throw{Class: "异常", Args: []zn.Expr{str("l-" + tag)}}
		case 1:
			raise = &zn.Throw{Class: "E1", Args: []zn.Expr{str("lc-" + tag), num(7)}}
		case 2:
			raise = show("lz", &zn.Bin{Op: "/", L: num(1), R: num(0)})
		default:
			raise = &zn.Throw{Class: "E2", Args: []zn.Expr{str("ld-" + tag)}}
		}
		w := "W" + tag
		body := []zn.Stmt{
			show("loop-"+tag, v(w)),
			&zn.If{Conds: []zn.Expr{&zn.Bin{Op: "==", L: v(w), R: num(2)}}, Blocks: [][]zn.Stmt{{raise}}},
		}
		after := show("after-loop-" + tag)
		switch g.pick(6, "loop-kind") {
		case 0:
			return []zn.Stmt{&zn.ForEach{Names: []string{w}, E: &zn.ListLit{Items: []zn.Expr{num(1), num(2), num(3)}}, Body: body}, after}
		case 1:
			return []zn.Stmt{&zn.ForEach{Names: []string{"K" + tag, w}, E: &zn.ListLit{Items: []zn.Expr{num(1), num(2), num(3)}}, Body: body}, after}
		case 2:
			g.labels["raise:in-dictionary-loop"] = true
			return []zn.Stmt{&zn.ForEach{Names: []string{w}, E: &zn.DictLit{Keys: []string{"a", "b", "c"}, Vals: []zn.Expr{num(1), num(2), num(3)}}, Body: body}, after}
		case 3:
			g.labels["raise:in-dictionary-loop"] = true
			return []zn.Stmt{&zn.ForEach{Names: []string{"K" + tag, w}, E: &zn.DictLit{Keys: []string{"z", "m", "a"}, Vals: []zn.Expr{num(1), num(2), num(3)}}, Body: body}, after}
		case 4:
			// no loop variable: a counter of the body's own
			g.labels["raise:in-dictionary-loop"] = true
			return []zn.Stmt{&zn.Let{Names: []string{w}, E: num(0)}, &zn.ForEach{E: &zn.DictLit{Keys: []string{"a", "b", "c"}, Vals: []zn.Expr{num(1), num(2), num(3)}},
				Body: append([]zn.Stmt{&zn.ExprStmt{E: &zn.Assign{Target: v(w), E: &zn.Bin{Op: "+", L: v(w), R: num(1)}}}}, body...)}, after}
		default:
			return []zn.Stmt{&zn.Let{Names: []string{w}, E: num(0)}, &zn.While{Cond: &zn.Bin{Op: "<", L: v(w), R: num(3)},
				Body: append([]zn.Stmt{&zn.ExprStmt{E: &zn.Assign{Target: v(w), E: &zn.Bin{Op: "+", L: v(w), R: num(1)}}}}, body...)}, after}
		}
	default:
		g.labels["raise:in-constructor"] = true
		return []zn.Stmt{&zn.Let{Names: []string{"O" + tag}, E: &zn.New{Class: "K9", Args: []zn.Expr{num(0)}}}}
	}
}

// handlers - drawn handler placement for a body
func (g *gen) handlers(tag string) []zn.Catch {
	mk := func(class string) zn.Catch {
		body := []zn.Stmt{show("h-" + tag + "-" + class)}
		if g.pick(2, "readmsg") == 0 {
			body = append(body, show("msg", &zn.This{Name: "内容"}))
		}
		switch g.pick(7, "hkind") {
		case 5, 6:
			// no 输出, and the last statement is an expression with a value of its own: the
			// value of the handled body is still 空
			g.labels["handler-ends-in-valued-expression"] = true
			if g.pick(2, "hexpr") == 0 {
				body = append(body, &zn.ExprStmt{E: &zn.Call{Name: "Helper", Args: []zn.Expr{num(5)}}})
			} else {
				body = append(body, &zn.Let{Names: []string{"HV" + tag}, E: num(0)}, &zn.ExprStmt{E: &zn.Assign{Target: v("HV" + tag), E: num(41)}})
			}
		case 0:
			body = append(body, &zn.Return{E: str("hv-" + tag)})
		case 1:
			g.labels["raise-in-handler"] = true
			body = append(body, &zn.Throw{Class: "异常", Args: []zn.Expr{str("rethrown-" + tag)}})
		case 2:
			body = append(body, &zn.Return{E: num(-1)})
		}
		return zn.Catch{Class: class, Body: body}
	}
	switch g.pick(7, "hplace") {
	case 0, 1:
		return nil
	case 2:
		return []zn.Catch{mk("异常")}
	case 3:
		return []zn.Catch{mk("E1")}
	case 4:
		return []zn.Catch{mk("E1"), mk("异常")}
	case 5:
		return []zn.Catch{mk("异常"), mk("E2")}
	default:
		return []zn.Catch{mk("E2"), mk("E1")}
	}
}

// body of function i (1-based); functions may call higher-numbered ones
func (g *gen) funcBody(i int, depth int) ([]zn.Stmt, []zn.Catch) {
	tag := fmt.Sprintf("F%d", i)
	local := "L" + tag
	body := []zn.Stmt{show(tag+"-enter", v("P")), &zn.Let{Names: []string{local}, E: &zn.Bin{Op: "+", L: v("P"), R: num(float64(10 * i))}}}
	if i < g.nfun && g.pick(4, "calls") > 0 {
		callee := i + 1 + g.pick(g.nfun-i, "callee")
		var call zn.Expr = &zn.Call{Name: fmt.Sprintf("F%d", callee), Args: []zn.Expr{&zn.Bin{Op: "+", L: v("P"), R: num(1)}}}
		if g.useMod && g.pick(4, "modcall") == 0 {
			call = &zn.Call{Name: "G1", Args: []zn.Expr{v("P")}}
			g.labels["call-into-module"] = true
		}
		r := "R" + tag
		switch g.pick(5, "callsite") {
		case 0: // the protected call sits inside a 遍历 pass (the loop's own scope is open when the exception passes)
			var coll zn.Expr = &zn.ListLit{Items: []zn.Expr{num(1), num(2)}}
			if g.pick(2, "loop-over-dict") == 0 {
				coll = &zn.DictLit{Keys: []string{"z", "a"}, Vals: []zn.Expr{num(1), num(2)}}
				g.labels["call-inside-dictionary-loop"] = true
			}
			body = append(body, &zn.Let{Names: []string{r}, E: num(-5)},
				&zn.ForEach{Names: []string{"I" + tag}, E: coll, Body: []zn.Stmt{
					&zn.Let{Names: []string{"B" + tag}, E: v("I" + tag)},
					&zn.ExprStmt{E: &zn.Assign{Target: v(r), E: call}},
					show(tag+"-in-loop", v("B"+tag)),
				}})
			g.labels["call-inside-foreach"] = true
		case 1: // inside a 每当 pass and a branch
			body = append(body, &zn.Let{Names: []string{r}, E: num(-5)}, &zn.Let{Names: []string{"N" + tag}, E: num(0)},
				&zn.While{Cond: &zn.Bin{Op: "<", L: v("N" + tag), R: num(2)}, Body: []zn.Stmt{
					&zn.ExprStmt{E: &zn.Assign{Target: v("N" + tag), E: &zn.Bin{Op: "+", L: v("N" + tag), R: num(1)}}},
					&zn.If{Conds: []zn.Expr{&zn.BoolLit{V: true}}, Blocks: [][]zn.Stmt{{&zn.ExprStmt{E: &zn.Assign{Target: v(r), E: call}}}}},
				}})
			g.labels["call-inside-while"] = true
		default:
			body = append(body, &zn.Let{Names: []string{r}, E: call})
		}
		// probes after the protected call: own local, own input, result, a main-module method
		body = append(body, show(tag+"-after", v(r), v(local), v("P")), show(tag+"-probe-main", &zn.Call{Name: "Helper", Args: []zn.Expr{v(local)}}))
		g.probes += 2
		if g.useMod {
			body = append(body, show(tag+"-probe-module", &zn.Call{Name: "G2", Args: []zn.Expr{v(local)}}))
			g.probes++
		}
		if g.pick(6, "probe-callee-local") == 0 {
			body = append(body, show(tag+"-callee-local", v(fmt.Sprintf("LF%d", callee))))
			g.labels["probe-callee-local"] = true
		}
	}
	if g.pick(3, "raise-here") == 0 {
		body = append(body, g.raise(tag)...)
		body = append(body, show(tag+"-after-raise"))
		if depth > g.maxRaiseDepth {
			g.maxRaiseDepth = depth
		}
	}
	body = append(body, show(tag+"-exit"), &zn.Return{E: &zn.Bin{Op: "*", L: v(local), R: num(2)}})
	return body, g.handlers(tag)
}

func (g *gen) program() (*zn.Program, map[string]*zn.Program) {
	p := &zn.Program{}
	mods := map[string]*zn.Program{}
	g.nfun = 1 + g.pick(4, "nfun")
	g.useMod = g.pick(3, "usemod") == 0
	if g.useMod {
		p.Imports = []zn.Import{{Name: "甲"}}
		gb := []zn.Stmt{show("G1-enter", v("P")), &zn.Let{Names: []string{"LG"}, E: num(5)}}
		if g.pick(2, "g-raise") == 0 {
			gb = append(gb, g.raise("G1")...)
		}
		gb = append(gb, &zn.Return{E: num(77)})
		m := &zn.Program{Body: []zn.Stmt{
			&zn.ClassDef{Name: "K9", Props: []zn.Prop{{Name: "V", Init: num(0)}}},
			&zn.CtorDef{Class: "K9", Params: []string{"A"}, Body: []zn.Stmt{show("K9m-ctor"), &zn.ExprStmt{E: &zn.Assign{Target: &zn.This{Name: "V"}, E: &zn.Bin{Op: "/", L: num(1), R: v("A")}}}}},
			&zn.ClassDef{Name: "E1", Props: []zn.Prop{{Name: "内容", Init: str("")}, {Name: "码", Init: num(0)}}},
			&zn.CtorDef{Class: "E1", Params: []string{"M", "C"}, Body: []zn.Stmt{
				&zn.ExprStmt{E: &zn.Assign{Target: &zn.This{Name: "内容"}, E: v("M")}},
				&zn.ExprStmt{E: &zn.Assign{Target: &zn.This{Name: "码"}, E: v("C")}}}},
			&zn.ClassDef{Name: "E2", Props: []zn.Prop{{Name: "内容", Init: str("e2-default")}}},
			&zn.FuncDef{Name: "G1", Params: []string{"P"}, Body: gb, Catches: g.handlers("G1")},
			// a method of the module that relies on another method and a type of its own module
			&zn.FuncDef{Name: "G3", Params: []string{"P"}, Body: []zn.Stmt{&zn.Return{E: &zn.Bin{Op: "+", L: v("P"), R: num(300)}}}},
			&zn.FuncDef{Name: "G2", Params: []string{"P"}, Body: []zn.Stmt{&zn.Let{Names: []string{"OG"}, E: &zn.New{Class: "E2"}}, &zn.Return{E: &zn.Call{Name: "G3", Args: []zn.Expr{v("P")}}}}},
		}}
		mods["甲"] = m
	}
	// exception types and a constructor that faults (in main when no module is used)
	if !g.useMod {
		p.Body = append(p.Body,
			&zn.ClassDef{Name: "E1", Props: []zn.Prop{{Name: "内容", Init: str("")}, {Name: "码", Init: num(0)}}},
			&zn.CtorDef{Class: "E1", Params: []string{"M", "C"}, Body: []zn.Stmt{
				&zn.ExprStmt{E: &zn.Assign{Target: &zn.This{Name: "内容"}, E: v("M")}},
				&zn.ExprStmt{E: &zn.Assign{Target: &zn.This{Name: "码"}, E: v("C")}}}},
			&zn.ClassDef{Name: "E2", Props: []zn.Prop{{Name: "内容", Init: str("e2-default")}}},
			&zn.ClassDef{Name: "K9", Props: []zn.Prop{{Name: "V", Init: num(0)}}},
			&zn.CtorDef{Class: "K9", Params: []string{"A"}, Body: []zn.Stmt{show("K9-ctor"), &zn.ExprStmt{E: &zn.Assign{Target: &zn.This{Name: "V"}, E: &zn.Bin{Op: "/", L: num(1), R: v("A")}}}}},
		)
	}
	p.Body = append(p.Body, &zn.FuncDef{Name: "Helper", Params: []string{"Q"}, Body: []zn.Stmt{&zn.Return{E: &zn.Bin{Op: "+", L: v("Q"), R: num(1000)}}}})
	for i := g.nfun; i >= 1; i-- {
		body, catches := g.funcBody(i, i)
		p.Body = append(p.Body, &zn.FuncDef{Name: fmt.Sprintf("F%d", i), Params: []string{"P"}, Body: body, Catches: catches})
	}
	// an object whose method raises / handles: 其 must be restored after a handled exception
	if g.pick(2, "object") == 0 {
		g.labels["object-receiver"] = true
		mbody := []zn.Stmt{show("M-enter", &zn.This{Name: "名"}), &zn.Let{Names: []string{"R0"}, E: &zn.Call{Name: "F1", Args: []zn.Expr{num(0)}}}, show("M-after", v("R0"), &zn.This{Name: "名"})}
		mbody = append(mbody, &zn.Return{E: &zn.This{Name: "名"}})
		p.Body = append(p.Body, &zn.ClassDef{Name: "Obj", Props: []zn.Prop{{Name: "名", Init: str("o1")}}, Methods: []zn.FuncDef{{Name: "跑", Body: mbody, Catches: g.handlers("M")}}})
		p.Body = append(p.Body, &zn.Let{Names: []string{"O1"}, E: &zn.New{Class: "Obj"}}, show("main-obj", &zn.MCall{Root: v("O1"), Chain: []zn.Call{{Name: "跑"}}}), show("main-obj-after", &zn.Member{Root: v("O1"), Name: "名"}))
	}
	p.Body = append(p.Body, &zn.Let{Names: []string{"Lmain"}, E: num(1)}, show("main-start"))
	ncalls := 1 + g.pick(2, "ncalls")
	for c := 0; c < ncalls; c++ {
		r := fmt.Sprintf("Rm%d", c)
		p.Body = append(p.Body, &zn.Let{Names: []string{r}, E: &zn.Call{Name: "F1", Args: []zn.Expr{num(float64(c))}}}, show("main-after", v(r), v("Lmain")), show("main-probe", &zn.Call{Name: "Helper", Args: []zn.Expr{num(float64(c))}}))
		if g.useMod {
			p.Body = append(p.Body, show("main-probe-module", &zn.Call{Name: "G2", Args: []zn.Expr{num(float64(c))}}))
		}
	}
	// the same protected calls far down the call stack (any call depth)
	if g.pick(3, "deep") == 0 {
		k := []int{200, 250, 254, 255, 256, 257, 258, 300, 511, 512, 513, 1000}[g.pick(12, "deepk")]
		p.Body = append(p.Body,
			&zn.FuncDef{Name: "深", Params: []string{"N"}, Body: []zn.Stmt{
				&zn.If{Conds: []zn.Expr{&zn.Bin{Op: "<=", L: v("N"), R: num(0)}}, Blocks: [][]zn.Stmt{{&zn.Return{E: &zn.Call{Name: "F1", Args: []zn.Expr{num(3)}}}}}},
				&zn.Let{Names: []string{"深果"}, E: &zn.Call{Name: "深", Args: []zn.Expr{&zn.Bin{Op: "-", L: v("N"), R: num(1)}}}},
				&zn.Return{E: v("深果")},
			}},
			&zn.Let{Names: []string{"Rdeep"}, E: &zn.Call{Name: "深", Args: []zn.Expr{num(float64(k))}}},
			show("main-after-deep", v("Rdeep"), v("Lmain")), show("main-probe-deep", &zn.Call{Name: "Helper", Args: []zn.Expr{num(9)}}))
		g.labels[fmt.Sprintf("handled-at-depth>=%d", (k/256)*256)] = true
		g.labels["deep-call-stack"] = true
	}
	if g.pick(4, "final-fault") == 0 {
		g.labels["final-uncaught-fault"] = true
		p.Body = append(p.Body, &zn.ExprStmt{E: &zn.Call{Name: "F1", Args: []zn.Expr{&zn.Bin{Op: "/", L: num(1), R: num(0)}}}})
	}
	p.Body = append(p.Body, &zn.Return{E: str("done")})
	p.Catches = g.handlers("main")
	return p, mods
}

func TestExceptions(t *testing.T) {
	rapid.Check(t, func(t *rapid.T) {
		g := &gen{t: t, labels: map[string]bool{}}
		p, mods := g.program()
		src, _ := zn.Render(p, nil)
		msrc := map[string]string{}
		in := zn.NewInterp()
		for n, m := range mods {
			msrc[n], _ = zn.Render(m, nil)
			in.Modules[n] = m
		}
		ref := in.Run(p)
		if ref.Exhausted {
			h.R.Skip("reference budget")
			return
		}
		if len(ref.Unspec) > 0 {
			h.R.Skip("exceptions: " + ref.Unspec[0])
			return
		}
		s := saved{Src: src, Modules: msrc, WantTrace: ref.Out, WantErr: ref.Err != nil, Steps: ref.Steps, ErrDepth: -1}
		if ref.Err != nil {
			s.ErrWhat = ref.Err.What
			if ex, ok := ref.Err.Exc.(*zn.ExcV); ok && !ex.Synthetic {
				s.ErrMsg = ex.Msg
			}
			if ob, ok := ref.Err.Exc.(*zn.ObjV); ok {
				if m, ok := ob.Props["内容"].(string); ok {
					s.ErrMsg = m
				}
			}
			if !ref.Err.InHandler && ref.Err.What != "arity" {
				s.ErrDepth = ref.Err.Depth
			}
		} else if ref.ValKnown {
			s.WantKnown, s.WantShow = true, zn.Show(ref.Val)
		}
		fails := judge(&s)
		var labels []string
		for l := range g.labels {
			labels = append(labels, l)
		}
		handled := 0
		for _, ln := range ref.Out {
			if strings.HasPrefix(ln, "h-") {
				handled++
			}
		}
		if handled > 0 {
			labels = append(labels, "handled")
		}
		if ref.Err != nil {
			labels = append(labels, "uncaught:"+ref.Err.What)
		}
		nt := handled > 0 && (g.maxRaiseDepth >= 2 || g.labels["call-into-module"] || g.probes >= 2)
		h.R.Case(t, "exceptions", src+fmt.Sprint(msrc), s, labels, nt, fails)
	})
}

func TestCorpus(t *testing.T) { h.RunCorpus(t, "c09", replay) }
