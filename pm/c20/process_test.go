package c20

import (
	"encoding/json"

	h "verif/harness"
)

func replayProcess(raw json.RawMessage) ([]h.Failure, error) { return nil, nil }
