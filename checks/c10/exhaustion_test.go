package c10

// Programs that would need unbounded resources of the HOST: recursion without an end (in every
// form a call can take), documents and sources nested millions of levels deep. The harness's own
// call-depth ceiling is switched off here: the interpreter itself has to turn these into Zn
// errors - a Go stack exhaustion is a fatal error that no recover() catches (the process ends).

import (
	"encoding/json"
	"fmt"
	"strings"
	"testing"

	h "verif/harness"
)

type exhaustCase struct {
	Name  string `json:"name"`
	Src   string `json:"src"`
	Ticks int64  `json:"ticks,omitempty"` // step budget (a non-terminating program is not a crash)
}

func checkExhaustion(c exhaustCase) []h.Failure {
	h.TrackCurrent("exhaustion: " + c.Name)
	ticks := c.Ticks
	if ticks == 0 {
		ticks = 400_000_000
	}
	o := h.Run(c.Src, h.Opts{EvalTicks: ticks, MaxDepth: -1})
	switch o.Kind {
	case h.KPanic:
		return []h.Failure{{Sig: "exhaustion/go-panic@" + o.PanicSite, Msg: fmt.Sprintf("%s: %s", c.Name, o.PanicMsg)}}
	case h.KNil:
		return []h.Failure{{Sig: "exhaustion/nil-result", Msg: c.Name}}
	case h.KBudget:
		h.R.BudgetHit()
	}
	return nil
}

func exhaustionCases() []exhaustCase {
	deep := func(open, mid, cl string, n int) string {
		return strings.Repeat(open, n) + mid + strings.Repeat(cl, n)
	}
	return []exhaustCase{
		{"direct recursion", "如何F？\n    输出（F）\n（F）", 0},
		{"recursion with growing argument", "如何F？\n    输入N\n    输出（F：N + 1）\n（F：0）", 0},
		{"mutual recursion", "如何F？\n    输出（G）\n如何G？\n    输出（F）\n（F）", 0},
		{"method recursion on an object", "定义C：\n    其P = 0\n    如何转？\n        输出以此（转）\n以（新建C）（转）", 0},
		{"recursion through a constructor", "定义C：\n    其P = 0\n如何新建C？\n    其P = （新建C）\n输出（新建C）", 0},
		{"recursion inside a handler", "如何F？\n    抛出异常：“x”！\n    拦截异常：\n        输出（F）\n（F）", 0},
		{"recursion caught and retried", "如何F？\n    输出（F）\n    拦截异常：\n        输出（F）\n（F）", 20_000_000},
		{"recursion in a loop body", "如何F？\n    以V遍历【1，2】：\n        （F）\n（F）", 0},
		{"recursion through an imported library callback-free path", "导入《@JSON》\n如何F？\n    输入D\n    输出（F：（解析JSON：（生成JSON：D）））\n（F：【“a” = 1】）", 0},
		{"JSON document nested 8 million levels (built by doubling)", "导入《@JSON》\n令S = “[”\n令K = 0\n每当K < 23：\n    S = 以S（拼接：S）\n    K = K + 1\n输出（解析JSON：以“{\"a\":”（拼接：S））\n拦截异常：\n    输出“caught”", 0},
		{"JSON objects nested 4 million levels", "导入《@JSON》\n令S = “{\"a\":”\n令K = 0\n每当K < 22：\n    S = 以S（拼接：S）\n    K = K + 1\n输出（解析JSON：S）\n拦截异常：\n    输出“caught”", 0},
		{"JSON document nested 9999 levels, parsed and generated again", "导入《@JSON》\n令S = “[”\n令E = “]”\n令K = 0\n每当K < 13：\n    S = 以S（拼接：S）\n    E = 以E（拼接：E）\n    K = K + 1\n令文 = 以“{\"a\":”（拼接：以S（取样：1、9000）、“1”、以E（取样：1、9000）、“}”）\n输出以（生成JSON：（解析JSON：文））之长度\n拦截异常：\n    输出“caught”", 0},
		{"source with 1.5 million nested braces", "令甲 = " + deep("{", "1", "}", 1500000), 0},
		{"source with 1.5 million nested lists", "令甲 = " + deep("【", "1", "】", 1500000), 0},
		{"source with a sum of 1.5 million terms", "令甲 = " + strings.Repeat("1 + ", 1500000) + "1\n输出甲", 0},
		{"source with a sum of 4000 terms", "令甲 = " + strings.Repeat("1 + ", 4000) + "1\n输出甲", 0},
		{"source with an index chain of 1 million links", "令甲 = 【1】\n令乙 = 甲" + strings.Repeat("#1", 1000000), 0},
		// the PRODUCT of two bounded things: nesting inside the body (below the parser's bound) at
		// every level of a recursion (far below the bound on nested calls)
		{"2400 nested groups in the body of a method recursing 3000 levels deep", "如何F？\n    输入N\n    如果N < 1：\n        输出 0\n    输出 " + deep("1 + {", "（F：N - 1）", "}", 2400) + "\n输出（F：3000）", 0},
		{"2000 nested lists in the body of a method recursing 5000 levels deep", "如何F？\n    输入N\n    如果N < 1：\n        输出 0\n    输出 " + deep("【", "（F：N - 1）", "】", 2000) + "\n输出（F：5000）", 0},
		{"a call chain of 3000 argument levels in the body of a method recursing 3000 levels deep", "如何G？\n    输入X\n    输出X\n如何F？\n    输入N\n    如果N < 1：\n        输出 0\n    输出 " + deep("（G：", "（F：N - 1）", "）", 3000) + "\n输出（F：3000）", 0},
		{"source with 1 million nested calls", "如何F？\n    输入X\n    输出X\n令甲 = " + deep("（F：", "1", "）", 1000000), 0},
	}
}

func TestResourceExhaustion(t *testing.T) {
	for _, c := range exhaustionCases() {
		saved := c
		if len(saved.Src) > 4000 {
			saved.Src = "<generated: " + c.Name + ">"
		}
		key, _ := json.Marshal(saved.Name)
		h.R.Case(t, "exhaustion", string(key), saved, []string{"host-resource"}, true, checkExhaustion(c))
	}
	h.R.Exhaustive("exhaustion", fmt.Sprintf("%d listed shapes of unbounded recursion / nesting", len(exhaustionCases())))
}
