#!/usr/bin/env python3-vt
"""Validate MANIFEST.json and every evidence file against the given schemas."""
import glob, json, sys
import jsonschema
ok = True
def check(path, schema):
    global ok
    try:
        jsonschema.validate(json.load(open(path)), json.load(open(schema)))
        print("valid  ", path)
    except Exception as e:
        ok = False
        print("INVALID", path, str(e)[:400])
check("/verif/MANIFEST.json", "/root/.vp/MANIFEST.schema.json")
for f in sorted(glob.glob("/verif/evidence/*.json")):
    check(f, "/root/.vp/EVIDENCE.schema.json")
sys.exit(0 if ok else 1)
