package c14

import (
	"fmt"
	"strings"
	"testing"

	h "verif/harness"
)

// {} stands for the display form of the k-th element - whatever that element is. The display
// form of a value is what 显示 writes for it: for every value expression E of the list (plain
// values, collections, objects, methods, types, exceptions, and collections holding those)
// the program shows E and “<{}>” % 【E】 and the two lines must agree.

var displayExprs = []string{"1", "-0.5", "1*10^21", "“文”", "“”", "真", "空", "【】", "【1，“a”】", "【“k” = 1】", "【=】",
	"物", "某法", "某型", "显示", "异常", "（新建异常：“m”）", "【物】", "【“k” = 某法】", "【【某型，1】，物】", "物之值", "此处无"}

const displayPrelude = "定义某型：\n    其值 = 【1，2】\n如何某法？\n    输出1\n令物 = （新建某型）\n"

type displayCase struct {
	Expr string `json:"expr"`
	Tpl  string `json:"tpl"`
}

func checkDisplayForm(c displayCase) []h.Failure {
	src := displayPrelude + "（显示：" + c.Expr + "）\n（显示：“" + c.Tpl + "” % 【" + c.Expr + "】）\n"
	o := h.Run(src, h.Opts{})
	ctx := "program:\n" + src
	switch o.Kind {
	case h.KPanic, h.KBudget, h.KNil:
		return []h.Failure{{Sig: "display/" + o.Kind + "@" + o.PanicSite, Msg: ctx + "\n" + o.PanicMsg}}
	}
	if len(o.Trace) == 0 {
		return nil // the expression itself fails (此处无: an undefined name): nothing is claimed
	}
	if len(o.Trace) != 2 {
		return []h.Failure{{Sig: "display/placeholder-rejects-a-value-that-has-a-display-form", Msg: fmt.Sprintf("%s\n显示 writes %q, the template fails: %s", ctx, o.Trace[0], o.Short())}}
	}
	want := strings.Replace(c.Tpl, "{}", o.Trace[0], 1)
	if o.Trace[1] != want {
		return []h.Failure{{Sig: "display/placeholder-differs-from-display-form", Msg: fmt.Sprintf("%s\n显示 writes %q, so the template must yield %q; got %q", ctx, o.Trace[0], want, o.Trace[1])}}
	}
	return nil
}

func TestPlaceholderIsDisplayForm(t *testing.T) {
	n := 0
	for _, e := range displayExprs {
		for _, tpl := range []string{"{}", "<{}>", "值：{}。"} {
			c := displayCase{Expr: e, Tpl: tpl}
			h.R.Case(t, "display", e+"|"+tpl, c, []string{"placeholder-vs-display-form"}, true, checkDisplayForm(c))
			n++
		}
	}
	h.R.Exhaustive("display", fmt.Sprintf("%d listed value expressions x 3 templates", len(displayExprs)))
}
