// C03 - parsing builds the tree the grammar prescribes, for any layout
package c03

import (
	"encoding/json"
	"fmt"
	"sort"
	"strings"
	"testing"

	"pgregory.net/rapid"

	h "verif/harness"
	"verif/zn"
)

func TestMain(m *testing.M) { h.Main(m, "C03", replay) }

type treeCase struct {
	Canonical string   `json:"canonical"` // canonical rendering of the abstract program
	Variant   string   `json:"variant"`   // a second rendering under a drawn layout policy
	Want      string   `json:"want_tree"` // S-expression the grammar prescribes
	Features  []string `json:"features,omitempty"`
}

type srcCase struct {
	Src string `json:"src"`
}

func replay(sub string, raw json.RawMessage) ([]h.Failure, error) {
	switch sub {
	case "tree":
		var c treeCase
		if err := json.Unmarshal(raw, &c); err != nil {
			return nil, err
		}
		return checkTree(c), nil
	case "inputs":
		var c inputsCase
		if err := json.Unmarshal(raw, &c); err != nil {
			return nil, err
		}
		return checkInputs(c), nil
	case "corruption":
		var c srcCase
		if err := json.Unmarshal(raw, &c); err != nil {
			return nil, err
		}
		return checkComplete(c.Src), nil
	}
	return nil, fmt.Errorf("unknown sub-check %q", sub)
}

func parseDump(src string) (dump string, fail *h.Failure) {
	pr := h.Parse(src, 0)
	switch pr.Kind {
	case h.KBudget:
		return "", &h.Failure{Sig: "tree/parser-does-not-terminate@" + pr.PanicSite, Msg: "parser exceeded its step budget"}
	case h.KPanic:
		return "", &h.Failure{Sig: "tree/go-panic@" + pr.PanicSite, Msg: pr.PanicMsg}
	case h.KError:
		o := &h.Outcome{}
		h.ClassifyErr(o, pr.Err)
		return "", &h.Failure{Sig: fmt.Sprintf("tree/valid-program-rejected@code%d", o.ErrCode), Msg: fmt.Sprintf("syntax error %d at %d: %s", o.ErrCode, o.Cursor, o.ErrMsg)}
	}
	d, missing := h.DumpProgramNoEmpty(pr.Program)
	if len(missing) > 0 {
		return d, &h.Failure{Sig: "tree/incomplete@" + missing[0], Msg: fmt.Sprintf("tree lacks %v", missing)}
	}
	return d, nil
}

func checkTree(c treeCase) []h.Failure {
	for _, v := range []struct{ what, src string }{{"canonical rendering", c.Canonical}, {"layout variant", c.Variant}} {
		got, f := parseDump(v.src)
		if f != nil {
			f.Msg = fmt.Sprintf("%s (layout features %v):\n%s\n%s", v.what, c.Features, v.src, f.Msg)
			return []h.Failure{*f}
		}
		if got != c.Want {
			sig := "tree/wrong-tree"
			if v.what == "layout variant" {
				sig = "tree/layout-changes-tree"
			}
			return []h.Failure{{Sig: sig, Msg: fmt.Sprintf("%s (layout features %v):\n%s\nprescribed tree: %s\nparser's tree:   %s\nfirst difference: %s", v.what, c.Features, v.src, c.Want, got, firstDiff(c.Want, got))}}
		}
	}
	return nil
}

func firstDiff(a, b string) string {
	i := 0
	for i < len(a) && i < len(b) && a[i] == b[i] {
		i++
	}
	lo := i - 40
	if lo < 0 {
		lo = 0
	}
	ha, hb := i+60, i+60
	if ha > len(a) {
		ha = len(a)
	}
	if hb > len(b) {
		hb = len(b)
	}
	return fmt.Sprintf("…%s… vs …%s…", a[lo:ha], b[lo:hb])
}

func checkComplete(src string) []h.Failure {
	pr := h.Parse(src, 0)
	switch pr.Kind {
	case h.KBudget:
		return []h.Failure{{Sig: "corruption/parser-does-not-terminate@" + pr.PanicSite, Msg: src}}
	case h.KPanic:
		return []h.Failure{{Sig: "corruption/go-panic@" + pr.PanicSite, Msg: src + "\n" + pr.PanicMsg}}
	case h.KValue:
		if _, missing := h.DumpProgram(pr.Program); len(missing) > 0 {
			return []h.Failure{{Sig: "corruption/incomplete-tree@" + missing[0], Msg: fmt.Sprintf("accepted source:\n%s\nbut the tree lacks %v", src, missing)}}
		}
	}
	return nil
}

func genPolicy(t *rapid.T) *zn.Policy {
	feats := map[string]bool{}
	for _, f := range zn.LayoutFeatures {
		if rapid.IntRange(0, 2).Draw(t, "feature-"+f) == 0 {
			feats[f] = true
		}
	}
	return &zn.Policy{
		Rich:     true,
		Seed:     rapid.Uint64().Draw(t, "layout-seed"),
		Features: feats,
		Tab:      rapid.Bool().Draw(t, "tab"),
		EOL:      rapid.SampledFrom([]string{"\n", "\n", "\r\n", "\r", "\n\r"}).Draw(t, "eol"),
	}
}

func TestTrees(t *testing.T) {
	depth := h.Scale(3, 4)
	rapid.Check(t, func(t *rapid.T) {
		g := &zn.SynGen{T: t, Kinds: map[string]bool{}}
		p := g.Program(rapid.IntRange(0, depth).Draw(t, "depth"))
		canonical, _ := zn.Render(p, nil)
		pol := genPolicy(t)
		variant, _ := zn.Render(p, pol)
		c := treeCase{Canonical: canonical, Variant: variant, Want: zn.ExpectedDump(p)}
		var labels []string
		for k := range g.Kinds {
			labels = append(labels, "stmt:"+k)
		}
		nfeat := 0
		for f := range pol.Used {
			c.Features = append(c.Features, f)
			labels = append(labels, "layout:"+f)
			nfeat++
		}
		if pol.Tab {
			c.Features = append(c.Features, "tab-indent")
			nfeat++
		}
		if pol.EOL != "\n" {
			c.Features = append(c.Features, fmt.Sprintf("eol-%q", pol.EOL))
			labels = append(labels, fmt.Sprintf("layout:eol-%q", pol.EOL))
			nfeat++
		}
		sort.Strings(c.Features)
		nt := len(g.Kinds) >= 3 && nfeat >= 2
		h.R.Case(t, "tree", variant, c, labels, nt, checkTree(c))
	})
}

// token-level corruptions of renderings: if the parser accepts, the tree must be complete
func TestCorruptions(t *testing.T) {
	rapid.Check(t, func(t *rapid.T) {
		g := &zn.SynGen{T: t, Kinds: map[string]bool{}}
		p := g.Program(rapid.IntRange(0, 3).Draw(t, "depth"))
		lines := zn.Lines(p, nil)
		// flatten positions (line, token)
		type pos struct{ l, k int }
		var ps []pos
		for li, ln := range lines {
			for k := range ln.Toks {
				ps = append(ps, pos{li, k})
			}
		}
		if len(ps) == 0 {
			return
		}
		n := rapid.IntRange(1, 2).Draw(t, "ncorrupt")
		kind := ""
		for i := 0; i < n; i++ {
			at := ps[rapid.IntRange(0, len(ps)-1).Draw(t, "at")]
			if at.l >= len(lines) {
				continue // beyond an earlier cut
			}
			toks := lines[at.l].Toks
			if at.k >= len(toks) {
				continue
			}
			switch rapid.IntRange(0, 3).Draw(t, "ck") {
			case 0: // delete one token
				lines[at.l].Toks = append(append([]zn.Tok{}, toks[:at.k]...), toks[at.k+1:]...)
				kind = "delete"
			case 1: // duplicate
				lines[at.l].Toks = append(append(append([]zn.Tok{}, toks[:at.k+1]...), toks[at.k]), toks[at.k+1:]...)
				kind = "duplicate"
			case 2: // swap with the next token
				if at.k+1 < len(toks) {
					nt := append([]zn.Tok{}, toks...)
					nt[at.k], nt[at.k+1] = nt[at.k+1], nt[at.k]
					lines[at.l].Toks = nt
				}
				kind = "swap"
			case 3: // cut the program at a token boundary
				lines[at.l].Toks = toks[:at.k]
				lines = lines[:at.l+1]
				kind = "cut"
			}
		}
		src, _ := zn.Layout(lines, nil)
		labels := []string{"corruption:" + kind}
		if pr := h.Parse(src, 0); pr.Kind == h.KValue {
			labels = append(labels, "accepted")
		} else {
			labels = append(labels, "rejected")
		}
		h.R.Case(t, "corruption", src, srcCase{src}, labels, strings.Count(src, "\n") >= 2, checkComplete(src))
	})
}

// TestLargeFlatPrograms - long but FLAT programs (nothing nested): thousands of list items,
// statements, arguments. The bound on nesting depth must not turn into a bound on size.
func TestLargeFlatPrograms(t *testing.T) {
	sizes := []int{10, 4999, 5000, 5001, 12000}
	if h.Thorough() {
		sizes = append(sizes, 60000)
	}
	for _, n := range sizes {
		items := make([]string, n)
		for i := range items {
			items[i] = fmt.Sprint(i % 7)
		}
		var stmts strings.Builder
		for i := 0; i < n; i++ {
			fmt.Fprintf(&stmts, "令甲%d = 乙 + %d\n", i, i%5)
		}
		var blocks strings.Builder
		for i := 0; i < n/4+1; i++ {
			fmt.Fprintf(&blocks, "如果甲 > %d 且 乙 /= 0：\n    （显示：甲、乙、%d）\n", i, i)
		}
		shapes := map[string]string{
			"list-items":     "令表 = 【" + strings.Join(items, "，") + "】\n",
			"call-arguments": "（显示：" + strings.Join(items, "、") + "）\n",
			"statements":     stmts.String(),
			"blocks":         blocks.String(),
			"dictionary":     "令典 = 【“k” = " + strings.Join(items, "，“k” = ") + "】\n",
		}
		for name, src := range shapes {
			pr := h.Parse(src, int64(400*len(src)+100000))
			var fails []h.Failure
			switch pr.Kind {
			case h.KValue:
				// twice the text is twice the program
				pr2 := h.Parse(src+src, int64(800*len(src)+100000))
				if pr2.Kind != h.KValue {
					fails = append(fails, h.Failure{Sig: "flat/accepted-once-rejected-twice", Msg: fmt.Sprintf("%s with %d parts parses, the same text written twice does not (%s)", name, n, pr2.Kind)})
				} else if c1, c2 := len(pr.Program.ExecBlock.StmtBlock.Children), len(pr2.Program.ExecBlock.StmtBlock.Children); c2 != 2*c1 {
					fails = append(fails, h.Failure{Sig: "flat/statement-count", Msg: fmt.Sprintf("%s: %d top-level statements, written twice: %d", name, c1, c2)})
				}
			case h.KBudget:
				fails = append(fails, h.Failure{Sig: "flat/parser-budget", Msg: fmt.Sprintf("%s with %d parts: the parser exceeded %d steps per character", name, n, 400)})
			default:
				msg := pr.PanicMsg
				if pr.Err != nil {
					msg = pr.Err.Error()
				}
				fails = append(fails, h.Failure{Sig: "flat/valid-program-rejected", Msg: fmt.Sprintf("a flat %s program with %d parts is rejected: %s %s", name, n, pr.Kind, msg)})
			}
			h.R.Case(t, "flat", fmt.Sprintf("%s-%d", name, n), map[string]any{"shape": name, "n": n}, []string{"flat-" + name}, n >= 4999, fails)
		}
	}
}

func TestCorpus(t *testing.T) { h.RunCorpus(t, "c03", replay) }
