#!/bin/bash
# intake of one independently written change and a first detection run against it:
#   tools/seed_round.sh <id> <CNN> <worktree> "<needs>" [other CNN ...]
cd /verif
id="$1"; prop="$2"; wt="$3"; needs="$4"; shift 4
tools/seed_intake.py "$id" "$prop" "$wt" "$needs" || exit 1
for p in "$prop" "$@"; do
  echo "==== $id against $p"
  tools/altcheck.sh "$wt" "$p" 2>&1 | grep -a -A5 "^VIOLATION\|seed=\|KNOWN\|inconclusive\|BUILD" | cut -c1-400 | head -14
done
