package zn

import (
	"fmt"
	"math"

	r "github.com/DemoHn/Zn/pkg/runtime"
	"github.com/DemoHn/Zn/pkg/value"
)

// ToElem - build the interpreter's element for a plain reference value (for 输入 binding)
func ToElem(v Value) r.Element {
	switch x := v.(type) {
	case float64:
		return value.NewNumber(x)
	case bool:
		return value.NewBool(x)
	case string:
		return value.NewString(x)
	case NullV:
		return value.NewNull()
	case *ListV:
		items := []r.Element{}
		for _, it := range x.Items {
			items = append(items, ToElem(it))
		}
		return value.NewArray(items)
	case *DictV:
		pairs := []value.KVPair{}
		for _, k := range x.Keys {
			pairs = append(pairs, value.KVPair{Key: k, Value: ToElem(x.M[k])})
		}
		return value.NewHashMap(pairs)
	}
	panic(fmt.Sprintf("ToElem: unsupported %T", v))
}

// FromElem - plain reference value of an element (ok=false for objects, functions, ...)
func FromElem(e r.Element) (Value, bool) {
	switch x := e.(type) {
	case *value.Number:
		return x.GetValue(), true
	case *value.Bool:
		return x.GetValue(), true
	case *value.String:
		return x.GetValue(), true
	case *value.Null:
		return NullV{}, true
	case *value.Array:
		l := &ListV{}
		for _, it := range x.GetValue() {
			v, ok := FromElem(it)
			if !ok {
				return nil, false
			}
			l.Items = append(l.Items, v)
		}
		return l, true
	case *value.HashMap:
		d := NewDict()
		for _, k := range x.GetKeyOrder() {
			v, ok := FromElem(x.GetValue()[k])
			if !ok {
				return nil, false
			}
			d.Set(k, v)
		}
		if len(d.M) != len(x.GetValue()) {
			return nil, false
		}
		return d, true
	}
	return nil, false
}

// Same - exact agreement of an element with a reference value: type, float bits (all NaNs
// alike), text, element order and dictionary key order
func Same(e r.Element, v Value) (bool, string) {
	switch x := v.(type) {
	case float64:
		n, ok := e.(*value.Number)
		if !ok {
			return false, fmt.Sprintf("expected number %v, got %T %s", x, e, e.String())
		}
		g := n.GetValue()
		if math.IsNaN(x) && math.IsNaN(g) {
			return true, ""
		}
		if math.Float64bits(g) != math.Float64bits(x) {
			return false, fmt.Sprintf("expected number %v (%#x), got %v (%#x)", x, math.Float64bits(x), g, math.Float64bits(g))
		}
		return true, ""
	case bool:
		b, ok := e.(*value.Bool)
		if !ok || b.GetValue() != x {
			return false, fmt.Sprintf("expected %s, got %T %s", Show(x), e, e.String())
		}
		return true, ""
	case string:
		s, ok := e.(*value.String)
		if !ok || s.GetValue() != x {
			return false, fmt.Sprintf("expected text %q, got %T %q", x, e, e.String())
		}
		return true, ""
	case NullV:
		if _, ok := e.(*value.Null); !ok {
			return false, fmt.Sprintf("expected 空, got %T %s", e, e.String())
		}
		return true, ""
	case *ListV:
		a, ok := e.(*value.Array)
		if !ok {
			return false, fmt.Sprintf("expected list %s, got %T %s", Show(x), e, e.String())
		}
		if len(a.GetValue()) != len(x.Items) {
			return false, fmt.Sprintf("expected list %s, got %s", Show(x), e.String())
		}
		for i, it := range a.GetValue() {
			if ok, why := Same(it, x.Items[i]); !ok {
				return false, fmt.Sprintf("element %d: %s", i+1, why)
			}
		}
		return true, ""
	case *DictV:
		h, ok := e.(*value.HashMap)
		if !ok {
			return false, fmt.Sprintf("expected dictionary %s, got %T %s", Show(x), e, e.String())
		}
		ko := h.GetKeyOrder()
		if len(ko) != len(x.Keys) || len(h.GetValue()) != len(x.Keys) {
			return false, fmt.Sprintf("expected dictionary %s, got %s", Show(x), e.String())
		}
		for i, k := range x.Keys {
			if ko[i] != k {
				return false, fmt.Sprintf("key order: expected %v, got %v", x.Keys, ko)
			}
			if ok, why := Same(h.GetValue()[k], x.M[k]); !ok {
				return false, fmt.Sprintf("key %q: %s", k, why)
			}
		}
		return true, ""
	case *ObjV:
		o, ok := e.(*value.Object)
		if !ok || o.GetObjectName() != x.Class.Name {
			return false, fmt.Sprintf("expected object of %s, got %T %s", x.Class.Name, e, e.String())
		}
		return true, ""
	case *ExcV:
		ex, ok := e.(*value.Exception)
		if !ok || ex.Message != x.Msg {
			return false, fmt.Sprintf("expected exception %q, got %T %s", x.Msg, e, e.String())
		}
		return true, ""
	case *FuncV:
		if _, ok := e.(*value.Function); !ok {
			return false, fmt.Sprintf("expected a method, got %T", e)
		}
		return true, ""
	case *ClassV:
		if _, ok := e.(*value.ClassModel); !ok {
			return false, fmt.Sprintf("expected a type, got %T", e)
		}
		return true, ""
	}
	return false, fmt.Sprintf("unsupported reference value %T", v)
}
