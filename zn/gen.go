package zn

import (
	"math"
	"math/big"
	"regexp"
	"strings"

	"pgregory.net/rapid"
)

var numeralRe = regexp.MustCompile(`^([-+]?)([0-9]+)(?:\.([0-9]+))?(?:(?:[eE]([-+][0-9]+))|(?:\*(?:10)?\^([-+]?[0-9]+)))?$`)

// NumeralValue - correctly rounded double of a documented numeral (exact rational arithmetic)
func NumeralValue(s string) (float64, bool) {
	m := numeralRe.FindStringSubmatch(s)
	if m == nil {
		return 0, false
	}
	digits := m[2] + m[3]
	mant, _ := new(big.Int).SetString(digits, 10)
	exp := int64(0)
	es := m[4]
	if es == "" {
		es = m[5]
	}
	if es != "" {
		e, ok := new(big.Int).SetString(es, 10)
		if !ok || !e.IsInt64() || e.Int64() > 100000 || e.Int64() < -100000 {
			return 0, false
		}
		exp = e.Int64()
	}
	exp -= int64(len(m[3]))
	var f float64
	switch {
	case mant.Sign() == 0:
		f = 0
	case exp > 400:
		f = math.Inf(1)
	case exp < -(int64(len(digits)) + 400):
		f = 0
	default:
		r := new(big.Rat).SetInt(mant)
		ae := exp
		if ae < 0 {
			ae = -ae
		}
		p := new(big.Int).Exp(big.NewInt(10), big.NewInt(ae), nil)
		if exp >= 0 {
			r.Mul(r, new(big.Rat).SetInt(p))
		} else {
			r.Quo(r, new(big.Rat).SetInt(p))
		}
		f, _ = r.Float64()
	}
	if m[1] == "-" {
		f = -f
	}
	return f, true
}

// GenNumeral - a number literal in one of the documented spellings
func GenNumeral() *rapid.Generator[*Num] {
	return rapid.Custom(func(t *rapid.T) *Num {
		var b strings.Builder
		b.WriteString(rapid.SampledFrom([]string{"", "", "", "-", "+"}).Draw(t, "sign"))
		switch rapid.IntRange(0, 5).Draw(t, "shape") {
		case 0:
			b.WriteString(rapid.SampledFrom([]string{"0", "1", "2", "3", "7", "10", "12", "100", "255"}).Draw(t, "small"))
		case 1:
			b.WriteString(rapid.StringMatching(`[0-9]{1,6}`).Draw(t, "int"))
		case 2:
			b.WriteString(rapid.StringMatching(`[0-9]{1,4}\.[0-9]{1,4}`).Draw(t, "dec"))
		case 3:
			b.WriteString(rapid.StringMatching(`[0-9]{1,3}(\.[0-9]{1,3})?[eE][-+][0-9]{1,2}`).Draw(t, "sci"))
		case 4:
			b.WriteString(rapid.StringMatching(`[0-9]{1,3}(\.[0-9]{1,3})?\*(10)?\^[-+]?[0-9]{1,2}`).Draw(t, "star"))
		case 5:
			b.WriteString(rapid.SampledFrom([]string{"0129.80", "1.5E+3", "2e-3", "1.25*10^8", "125*^-2", "9007199254740993", "0.1", "0.30000000000000004", "1e+308", "5e-324", "179769313486231580000000000000000000000*10^270"}).Draw(t, "doc"))
		}
		lit := b.String()
		v, ok := NumeralValue(lit)
		if !ok {
			panic("generator produced an invalid numeral: " + lit)
		}
		return &Num{Lit: lit, Val: v}
	})
}

// GenDouble - boundary-biased doubles including non-finite values
func GenDouble() *rapid.Generator[float64] {
	special := []float64{0, math.Copysign(0, -1), 1, -1, 0.5, -0.5, 2, -2, 3, 7, -7, 10, 0.1, 1 << 53, 1<<53 + 2, -(1 << 53), 1e308, -1e308, 5e-324, -5e-324,
		2.2250738585072014e-308, math.MaxFloat64, math.Inf(1), math.Inf(-1), math.NaN(), 1e15, 1e16, 123456789.125, 2.5, -2.5, 1.5, -1.5, 1e-7}
	return rapid.OneOf(
		rapid.SampledFrom(special),
		rapid.SampledFrom(special),
		genDecimalBoundary(),
		rapid.Map(rapid.IntRange(-20, 20), func(i int) float64 { return float64(i) }),
		rapid.Map(rapid.IntRange(-2000, 2000), func(i int) float64 { return float64(i) / 8 }),
		rapid.Map(rapid.Uint64(), func(u uint64) float64 { return math.Float64frombits(u) }),
		rapid.Float64(),
	)
}

// genDecimalBoundary - values at and next to powers of ten and at the rounding boundaries of
// a fixed number of significant digits: where a rendering switches between plain and
// exponent notation, gains a digit, or rounds up into the next power
func genDecimalBoundary() *rapid.Generator[float64] {
	return rapid.Custom(func(t *rapid.T) float64 {
		k := rapid.IntRange(-9, 23).Draw(t, "pow")
		p := math.Pow(10, float64(k))
		var f float64
		switch rapid.IntRange(0, 9).Draw(t, "near") {
		case 0, 1:
			f = p
		case 2:
			f = p - 1
		case 3:
			f = p + 1
		case 4:
			f = math.Nextafter(p, 0)
		case 5:
			f = math.Nextafter(p, math.Inf(1))
		case 6:
			f = p * rapid.SampledFrom([]float64{0.9999995, 0.99999949, 0.999999, 0.9999999, 1.0000005, 1.000001, 0.5, 5, 0.15, 0.25, 0.35, 2.5, 1.5}).Draw(t, "mul")
		case 7:
			f = p + 0.5
		case 8:
			f = p * float64(rapid.IntRange(1, 9).Draw(t, "digit"))
		default:
			f = p / 100 // the value whose percentage is a power of ten
		}
		if rapid.IntRange(0, 3).Draw(t, "neg") == 0 {
			f = -f
		}
		return f
	})
}

// GenFiniteDouble - doubles that have a literal spelling
func GenFiniteDouble() *rapid.Generator[float64] {
	return rapid.Map(GenDouble(), func(f float64) float64 {
		if math.IsNaN(f) || math.IsInf(f, 0) {
			return 1
		}
		return f
	})
}

// SafeTexts - texts without quotes/back-ticks/line breaks (literal-safe in any layout)
var SafeTexts = []string{"", "a", "文本", "Zn", "hello world", "你好，世界", "𝒳😊", "1", "真", "0.5", "甲乙丙", "A B", "x=y", "é"}

// GenText - literal-safe text
func GenText() *rapid.Generator[string] {
	return rapid.OneOf(rapid.SampledFrom(SafeTexts), rapid.StringMatching(`[a-c甲乙丙 ]{0,6}`))
}

// VarNames - identifier pool without keyword glyphs
var VarNames = []string{"A", "B", "C", "D", "E", "F", "G", "H", "甲", "乙", "丙", "丁", "X1", "Y2", "Zs", "変数", "αβ", "값"}
