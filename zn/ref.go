package zn

import (
	"fmt"
	"math"
	"strings"
)

// ---------------------------------------------------------------------------------------
// values

type Value interface{}

type NullV struct{}

type ListV struct{ Items []Value }

type DictV struct {
	Keys []string
	M    map[string]Value
}

type ObjV struct {
	Class *ClassV
	Props map[string]Value
	ID    int
}

type FuncV struct {
	Name string
	Def  *FuncDef
	Mod  *modEnv
}

type ClassV struct {
	Name    string
	Def     *ClassDef
	Ctor    *CtorDef
	Mod     *modEnv
	Builtin bool // 异常
	// Defaults - the default property values, evaluated once when the type is declared;
	// every object starts from its own copy of them
	Defaults map[string]Value
}

// ExcV - built-in exception value (class 异常)
type ExcV struct {
	Msg       string
	Synthetic bool // stands for a runtime fault whose message text is not specified
}

func NewDict() *DictV { return &DictV{M: map[string]Value{}} }

func (d *DictV) Set(k string, v Value) {
	if _, ok := d.M[k]; !ok {
		d.Keys = append(d.Keys, k)
	}
	d.M[k] = v
}

func (d *DictV) Delete(k string) {
	if _, ok := d.M[k]; !ok {
		return
	}
	delete(d.M, k)
	for i, x := range d.Keys {
		if x == k {
			d.Keys = append(append([]string{}, d.Keys[:i]...), d.Keys[i+1:]...)
			break
		}
	}
}

// Copy - deep copy of lists / dictionaries; identity for everything else
func Copy(v Value) Value {
	switch x := v.(type) {
	case *ListV:
		n := &ListV{Items: make([]Value, len(x.Items))}
		for i, it := range x.Items {
			n.Items[i] = Copy(it)
		}
		return n
	case *DictV:
		n := NewDict()
		for _, k := range x.Keys {
			n.Set(k, Copy(x.M[k]))
		}
		return n
	}
	return v
}

// ShowNum - display form of a number (Go %v of the float64)
func ShowNum(f float64) string { return fmt.Sprintf("%v", f) }

// Show - display form of a value
func Show(v Value) string {
	switch x := v.(type) {
	case float64:
		return ShowNum(x)
	case bool:
		if x {
			return "真"
		}
		return "假"
	case string:
		return x
	case NullV:
		return "空"
	case *ListV:
		parts := make([]string, len(x.Items))
		for i, it := range x.Items {
			parts[i] = Show(it)
		}
		return "[" + strings.Join(parts, "，") + "]"
	case *DictV:
		parts := make([]string, len(x.Keys))
		for i, k := range x.Keys {
			parts[i] = k + "=" + Show(x.M[k])
		}
		return "[" + strings.Join(parts, "，") + "]"
	case *ObjV:
		return "‹对象·" + x.Class.Name + "›"
	case *ClassV:
		return "‹类型·" + x.Name + "›"
	case *FuncV:
		return "‹某方法›"
	case *ExcV:
		return "‹异常·" + x.Msg + "›"
	}
	return fmt.Sprintf("?%T", v)
}

// Equal - structural equality of plain values; second result false when the answer is not
// determined by the statement (NaN operands, non-plain values)
func Equal(a, b Value) (eq bool, specified bool) {
	switch x := a.(type) {
	case NullV:
		_, ok := b.(NullV)
		return ok, plain(b)
	case float64:
		y, ok := b.(float64)
		if !ok {
			return false, plain(b)
		}
		if math.IsNaN(x) || math.IsNaN(y) {
			return false, false
		}
		return x == y, true
	case string:
		y, ok := b.(string)
		return ok && x == y, plain(b)
	case bool:
		y, ok := b.(bool)
		return ok && x == y, plain(b)
	case *ListV:
		y, ok := b.(*ListV)
		if !ok {
			return false, plain(b)
		}
		if len(x.Items) != len(y.Items) {
			return false, true
		}
		spec := true
		for i := range x.Items {
			e, s := Equal(x.Items[i], y.Items[i])
			if !s {
				spec = false
			}
			if !e && s {
				return false, true
			}
		}
		return spec, spec
	case *DictV:
		y, ok := b.(*DictV)
		if !ok {
			return false, plain(b)
		}
		if len(x.M) != len(y.M) {
			return false, true
		}
		spec := true
		for k, xv := range x.M {
			yv, ok := y.M[k]
			if !ok {
				return false, true
			}
			e, s := Equal(xv, yv)
			if !s {
				spec = false
			}
			if !e && s {
				return false, true
			}
		}
		return spec, spec
	}
	return false, false
}

func plain(v Value) bool {
	switch v.(type) {
	case NullV, float64, string, bool, *ListV, *DictV:
		return true
	}
	return false
}

// ---------------------------------------------------------------------------------------
// control signals

type ctlKind int

const (
	ctlNone ctlKind = iota
	ctlBreak
	ctlContinue
	ctlReturn
	ctlRaise // exception (catchable)
)

// ZnError - an error outcome predicted by the reference. Class is coarse on purpose.
type ZnError struct {
	Depth     int    // number of user-level calls active when the error was raised
	InHandler bool   // raised while a handler was running
	Class     string // "runtime" | "exception"
	What      string // short tag: div-zero, type, index, key, name, const, redeclare, arity, member, ...
	Exc       Value  // raised value (*ExcV or *ObjV) for catchable errors
	stamped   bool
}

func (e *ZnError) Error() string { return e.Class + ":" + e.What }

type ctl struct {
	kind ctlKind
	val  Value
	err  *ZnError
}

// ---------------------------------------------------------------------------------------
// environments

type binding struct {
	v     Value
	konst bool
}

type scope struct {
	vars   map[string]*binding
	parent *scope
}

func (s *scope) lookup(n string) *binding {
	for c := s; c != nil; c = c.parent {
		if b, ok := c.vars[n]; ok {
			return b
		}
	}
	return nil
}

type modEnv struct {
	name    string
	top     *scope
	exports map[string]Value
	order   []string
}

// Interp - reference interpreter state for one program run
type Interp struct {
	Out          []string // display trace, one entry per 显示 call
	Steps        int64    // statements executed
	MaxSteps     int64
	Unspec       []string // reasons why (part of) the outcome is not determined by the statement
	Depth        int
	MaxDepth     int
	nextObj      int
	MainVars     map[string]Value // variables of the main program body when it ended
	handlerDepth int
	Modules      map[string]*Program // importable modules (source known to the generator)
	modCache     map[string]*modEnv
	modLoading   map[string]bool
	ModOrder     []string // order in which module bodies ran
	Inputs       map[string]Value
	// LoopVarAlias - when true the loop variable of 遍历 aliases the element (documented
	// behaviour is a copy; kept switchable for triage)
	ExcClass *ClassV
	// CatchRuntime: runtime faults are catchable as 异常 (the statement of C09 says so)
	CatchRuntime bool
}

func NewInterp() *Interp {
	return &Interp{MaxSteps: 200000, MaxDepth: 3000, Modules: map[string]*Program{}, modCache: map[string]*modEnv{},
		modLoading: map[string]bool{}, ExcClass: &ClassV{Name: "异常", Builtin: true}, CatchRuntime: true}
}

func (in *Interp) unspec(why string) { in.Unspec = append(in.Unspec, why) }

func rterr(what string) *ctl {
	return &ctl{kind: ctlRaise, err: &ZnError{Class: "runtime", What: what, Depth: -1}}
}

// Result - outcome of a reference run
type Result struct {
	Val       Value
	ValKnown  bool // false when the program value is not determined (ends on a non-expression statement)
	Err       *ZnError
	Out       []string
	Steps     int64
	Unspec    []string
	Exhausted bool // step/depth budget of the reference exceeded (generator bug)
}

var globalsConst = map[string]bool{"真": true, "假": true, "空": true, "异常": true, "显示": true, "取随机数": true, "数值": true}

// Run - execute a program
func (in *Interp) Run(p *Program) (res *Result) {
	res = &Result{}
	defer func() {
		if r := recover(); r != nil {
			if s, ok := r.(string); ok && s == "ref-budget" {
				res.Exhausted = true
				res.Out = in.Out
				return
			}
			panic(r)
		}
	}()
	m := &modEnv{name: "主模块", top: &scope{vars: map[string]*binding{}}, exports: map[string]Value{}}
	v, known, c := in.runProgram(p, m, true)
	res.Out = in.Out
	res.Steps = in.Steps
	res.Unspec = in.Unspec
	if c != nil {
		res.Err = c.err
		if res.Err == nil {
			res.Err = &ZnError{Class: "runtime", What: "stray-signal"}
		}
		return
	}
	res.Val, res.ValKnown = v, known
	return
}

func (in *Interp) runProgram(p *Program, m *modEnv, isMain bool) (Value, bool, *ctl) {
	for i := range p.Imports {
		if c := in.doImport(&p.Imports[i], m); c != nil {
			return nil, false, c
		}
	}
	sc := &scope{vars: map[string]*binding{}, parent: m.top}
	if len(p.Inputs) > 0 || isMain {
		for _, n := range p.Inputs {
			v, ok := in.Inputs[n]
			if !ok {
				return nil, false, rterr("input-missing")
			}
			// program inputs are constants (manual ch.4)
			if c := in.declare(sc, n, v, true); c != nil {
				return nil, false, c
			}
		}
	}
	return in.execBody(p.Body, p.Catches, sc, m, nil, true)
}

// execBody - body of a program or method: hoist definitions, run statements, apply handlers
func (in *Interp) execBody(body []Stmt, catches []Catch, sc *scope, m *modEnv, this Value, isProgram bool) (Value, bool, *ctl) {
	fr := &frame{mod: m, this: this}
	// definitions of a program body are module-level names (visible to every method of the
	// module); definitions inside a method body are local to it
	hoist := sc
	if isProgram {
		hoist = m.top
	}
	for _, s := range body {
		switch d := s.(type) {
		case *ClassDef:
			if c := in.defClass(d, hoist, m, fr); c != nil {
				return in.handle(c, catches, sc, m, this)
			}
		case *FuncDef:
			if c := in.defFunc(d, hoist, m); c != nil {
				return in.handle(c, catches, sc, m, this)
			}
		case *CtorDef:
			if c := in.defCtor(d, hoist, m); c != nil {
				return in.handle(c, catches, sc, m, this)
			}
		}
	}
	inner := &scope{vars: map[string]*binding{}, parent: sc}
	last, known, c := in.block(body, inner, fr, true)
	if isProgram && m.name == "主模块" {
		in.MainVars = map[string]Value{}
		for n, b := range inner.vars {
			in.MainVars[n] = b.v
		}
	}
	if c != nil {
		switch c.kind {
		case ctlReturn:
			return c.val, true, nil
		case ctlRaise:
			return in.handle(c, catches, sc, m, this)
		default:
			// break/continue outside a loop: not specified
			in.unspec("break/continue outside a loop")
			return nil, false, c
		}
	}
	return last, known, nil
}

func (in *Interp) excClassName(c *ctl) string {
	if c.err == nil {
		return ""
	}
	switch x := c.err.Exc.(type) {
	case *ExcV:
		return "异常"
	case *ObjV:
		return x.Class.Name
	}
	if c.err.Class == "runtime" && in.CatchRuntime {
		return "异常"
	}
	return ""
}

func (in *Interp) handle(c *ctl, catches []Catch, sc *scope, m *modEnv, this Value) (Value, bool, *ctl) {
	if c.kind != ctlRaise {
		return nil, false, c
	}
	cls := in.excClassName(c)
	for i := range catches {
		if cls != "" && catches[i].Class == cls {
			exc := c.err.Exc
			if exc == nil {
				exc = &ExcV{Msg: "<runtime fault: " + c.err.What + ">", Synthetic: true}
			}
			fr := &frame{mod: m, this: exc}
			hs := &scope{vars: map[string]*binding{}, parent: sc}
			in.handlerDepth++
			_, _, hc := in.block(catches[i].Body, hs, fr, false)
			in.handlerDepth--
			if hc != nil {
				if hc.kind == ctlReturn {
					return hc.val, true, nil
				}
				return nil, false, hc
			}
			return NullV{}, true, nil
		}
	}
	return nil, false, c
}

type frame struct {
	mod  *modEnv
	this Value
}

func (in *Interp) tick() {
	in.Steps++
	if in.Steps > in.MaxSteps {
		panic("ref-budget")
	}
}

func (in *Interp) declare(sc *scope, n string, v Value, konst bool) *ctl {
	if globalsConst[n] {
		return rterr("redeclare-predefined")
	}
	if _, ok := sc.vars[n]; ok {
		return rterr("redeclare")
	}
	sc.vars[n] = &binding{v: v, konst: konst}
	return nil
}

// block - run statements in the given scope. Returns the value of the last statement if
// it is an expression statement (known=true), per "a program without 输出 yields the value
// of its final expression statement".
func (in *Interp) block(body []Stmt, sc *scope, fr *frame, skipDefs bool) (Value, bool, *ctl) {
	var last Value = NullV{}
	known := false
	for _, s := range body {
		switch s.(type) {
		case *ClassDef, *FuncDef, *CtorDef:
			if skipDefs {
				continue
			}
		case *Comment:
			continue
		}
		in.tick()
		v, isExpr, c := in.stmt(s, sc, fr)
		if c != nil {
			if c.kind == ctlRaise && c.err != nil && !c.err.stamped {
				c.err.stamped = true
				c.err.Depth = in.Depth
				c.err.InHandler = in.handlerDepth > 0
			}
			return nil, false, c
		}
		last, known = v, isExpr
	}
	return last, known, nil
}

func (in *Interp) stmt(s Stmt, sc *scope, fr *frame) (Value, bool, *ctl) {
	switch v := s.(type) {
	case *Let:
		val, c := in.eval(v.E, sc, fr)
		if c != nil {
			return nil, false, c
		}
		for _, n := range v.Names {
			if c := in.declare(sc, n, Copy(val), v.Const); c != nil {
				return nil, false, c
			}
		}
		return nil, false, nil
	case *LetBlock:
		for _, pr := range v.Pairs {
			if _, _, c := in.stmt(pr, sc, fr); c != nil {
				return nil, false, c
			}
		}
		return nil, false, nil
	case *ExprStmt:
		val, c := in.eval(v.E, sc, fr)
		return val, true, c
	case *If:
		for i, cond := range v.Conds {
			cv, c := in.eval(cond, sc, fr)
			if c != nil {
				return nil, false, c
			}
			b, ok := cv.(bool)
			if !ok {
				return nil, false, rterr("cond-not-bool")
			}
			if b {
				_, _, c := in.block(v.Blocks[i], &scope{vars: map[string]*binding{}, parent: sc}, fr, false)
				return nil, false, c
			}
		}
		if v.Else != nil {
			_, _, c := in.block(v.Else, &scope{vars: map[string]*binding{}, parent: sc}, fr, false)
			return nil, false, c
		}
		return nil, false, nil
	case *While:
		for {
			in.tick()
			// every pass (test of the condition + body) has a scope of its own: a name the
			// condition binds with 得到 belongs to that pass
			psc := &scope{vars: map[string]*binding{}, parent: sc}
			cv, c := in.eval(v.Cond, psc, fr)
			if c != nil {
				return nil, false, c
			}
			b, ok := cv.(bool)
			if !ok {
				return nil, false, rterr("cond-not-bool")
			}
			if !b {
				return nil, false, nil
			}
			_, _, c = in.block(v.Body, &scope{vars: map[string]*binding{}, parent: psc}, fr, false)
			if c != nil {
				switch c.kind {
				case ctlBreak:
					return nil, false, nil
				case ctlContinue:
					continue
				default:
					return nil, false, c
				}
			}
		}
	case *ForEach:
		tv, c := in.eval(v.E, sc, fr)
		if c != nil {
			return nil, false, c
		}
		if len(v.Names) > 2 {
			return nil, false, rterr("too-many-loop-names")
		}
		isc := &scope{vars: map[string]*binding{}, parent: sc}
		for _, n := range v.Names {
			if c := in.declare(isc, n, NullV{}, false); c != nil {
				return nil, false, c
			}
		}
		run := func(k, val Value) (stop bool, c *ctl) {
			// loop variables hold their own copy of the element (C07: copies on every binding)
			switch len(v.Names) {
			case 1:
				isc.vars[v.Names[0]].v = Copy(val)
			case 2:
				isc.vars[v.Names[0]].v = k
				isc.vars[v.Names[1]].v = Copy(val)
			}
			_, _, c = in.block(v.Body, &scope{vars: map[string]*binding{}, parent: isc}, fr, false)
			if c != nil {
				switch c.kind {
				case ctlBreak:
					return true, nil
				case ctlContinue:
					return false, nil
				default:
					return true, c
				}
			}
			return false, nil
		}
		switch t := tv.(type) {
		case *ListV:
			items := append([]Value{}, t.Items...)
			for i, it := range items {
				stop, c := run(float64(i+1), it)
				if c != nil {
					return nil, false, c
				}
				if stop {
					break
				}
			}
		case *DictV:
			keys := append([]string{}, t.Keys...)
			for _, k := range keys {
				val, ok := t.M[k]
				if !ok {
					in.unspec("dictionary mutated while iterating")
					continue
				}
				stop, c := run(k, val)
				if c != nil {
					return nil, false, c
				}
				if stop {
					break
				}
			}
		default:
			return nil, false, rterr("iterate-non-collection")
		}
		return nil, false, nil
	case *Break:
		return nil, false, &ctl{kind: ctlBreak}
	case *Continue:
		return nil, false, &ctl{kind: ctlContinue}
	case *Return:
		val, c := in.eval(v.E, sc, fr)
		if c != nil {
			return nil, false, c
		}
		return nil, false, &ctl{kind: ctlReturn, val: val}
	case *Throw:
		b := sc.lookup(v.Class)
		var cls *ClassV
		if v.Class == "异常" {
			cls = in.ExcClass
		} else if b != nil {
			cls, _ = b.v.(*ClassV)
		}
		if cls == nil {
			if b == nil {
				return nil, false, rterr("name")
			}
			return nil, false, rterr("throw-non-class")
		}
		var args []Value
		for _, a := range v.Args {
			av, c := in.eval(a, sc, fr)
			if c != nil {
				return nil, false, c
			}
			args = append(args, av)
		}
		obj, c := in.construct(cls, args)
		if c != nil {
			return nil, false, c
		}
		return nil, false, &ctl{kind: ctlRaise, err: &ZnError{Class: "exception", What: "throw", Exc: obj}}
	case *FuncDef:
		return nil, false, in.defFunc(v, sc, fr.mod)
	case *ClassDef:
		return nil, false, in.defClass(v, sc, fr.mod, fr)
	case *CtorDef:
		return nil, false, in.defCtor(v, sc, fr.mod)
	case *Comment:
		return nil, false, nil
	}
	panic(fmt.Sprintf("ref: unknown statement %T", s))
}

func (in *Interp) defFunc(d *FuncDef, sc *scope, m *modEnv) *ctl {
	f := &FuncV{Name: d.Name, Def: d, Mod: m}
	if c := in.declare(sc, d.Name, f, true); c != nil {
		return c
	}
	if sc != m.top {
		return nil // declared inside a method body: local to that call, not an export
	}
	if _, dup := m.exports[d.Name]; dup {
		return rterr("redeclare")
	}
	m.exports[d.Name] = f
	m.order = append(m.order, d.Name)
	return nil
}

func (in *Interp) defClass(d *ClassDef, sc *scope, m *modEnv, fr *frame) *ctl {
	cv := &ClassV{Name: d.Name, Def: d, Mod: m, Defaults: map[string]Value{}}
	// default property values are evaluated at definition time
	for i := range d.Props {
		dv, c := in.eval(d.Props[i].Init, sc, fr)
		if c != nil {
			return c
		}
		cv.Defaults[d.Props[i].Name] = Copy(dv)
	}
	if c := in.declare(sc, d.Name, cv, true); c != nil {
		return c
	}
	if sc != m.top {
		return nil // declared inside a method body: local to that call, not an export
	}
	if _, dup := m.exports[d.Name]; dup {
		return rterr("redeclare")
	}
	m.exports[d.Name] = cv
	m.order = append(m.order, d.Name)
	return nil
}

func (in *Interp) defCtor(d *CtorDef, sc *scope, m *modEnv) *ctl {
	b := sc.lookup(d.Class)
	if b == nil {
		if d.Class == "异常" {
			in.unspec("constructor for a predefined type")
			return nil
		}
		return rterr("name")
	}
	cv, ok := b.v.(*ClassV)
	if !ok {
		return rterr("ctor-non-class")
	}
	cv.Ctor = d
	return nil
}

func (in *Interp) construct(cls *ClassV, args []Value) (Value, *ctl) {
	if cls.Builtin {
		if len(args) != 1 {
			return nil, rterr("arity")
		}
		s, ok := args[0].(string)
		if !ok {
			return nil, rterr("type")
		}
		return &ExcV{Msg: s}, nil
	}
	in.nextObj++
	obj := &ObjV{Class: cls, Props: map[string]Value{}, ID: in.nextObj}
	fr := &frame{mod: cls.Mod}
	_ = fr
	for i := range cls.Def.Props {
		obj.Props[cls.Def.Props[i].Name] = Copy(cls.Defaults[cls.Def.Props[i].Name])
	}
	if cls.Ctor != nil {
		_, c := in.callBody(cls.Ctor.Params, cls.Ctor.Body, cls.Ctor.Catches, args, cls.Mod, obj)
		if c != nil {
			return nil, c
		}
	} else if len(args) > 0 {
		in.unspec("arguments to a type without constructor")
	}
	return obj, nil
}

// callBody - bind parameters and run a method body
func (in *Interp) callBody(params []string, body []Stmt, catches []Catch, args []Value, m *modEnv, this Value) (Value, *ctl) {
	if len(args) != len(params) {
		return nil, rterr("arity")
	}
	in.Depth++
	if in.Depth > in.MaxDepth {
		panic("ref-budget")
	}
	defer func() { in.Depth-- }()
	sc := &scope{vars: map[string]*binding{}, parent: m.top}
	if this != nil {
		sc.vars["此"] = &binding{v: this, konst: true}
	}
	for i, p := range params {
		// names bound by 输入 are constants (manual ch.4)
		if c := in.declare(sc, p, args[i], true); c != nil {
			return nil, c
		}
	}
	v, known, c := in.execBody(body, catches, sc, m, this, false)
	if c != nil {
		return nil, c
	}
	if !known {
		in.unspec("value of a method body that ends without 输出 on a non-expression statement")
		return NullV{}, nil
	}
	return v, nil
}

// ---------------------------------------------------------------------------------------
// expressions

func num(v Value) (float64, bool) { f, ok := v.(float64); return f, ok }

func (in *Interp) eval(e Expr, sc *scope, fr *frame) (Value, *ctl) {
	switch v := e.(type) {
	case *Num:
		return v.Val, nil
	case *BoolLit:
		return v.V, nil
	case *NullLit:
		return NullV{}, nil
	case *Str:
		return v.V, nil
	case *RawStr:
		return v.Val, nil
	case *Grp:
		return in.eval(v.E, sc, fr)
	case *Var:
		switch v.Name {
		case "真":
			return true, nil
		case "假":
			return false, nil
		case "空":
			return NullV{}, nil
		case "异常":
			return in.ExcClass, nil
		}
		b := sc.lookup(v.Name)
		if b == nil {
			return nil, rterr("name")
		}
		return b.v, nil
	case *Bin:
		return in.evalBin(v, sc, fr)
	case *ListLit:
		l := &ListV{}
		for _, it := range v.Items {
			iv, c := in.eval(it, sc, fr)
			if c != nil {
				return nil, c
			}
			l.Items = append(l.Items, iv)
		}
		return l, nil
	case *DictLit:
		d := NewDict()
		for i, k := range v.Keys {
			iv, c := in.eval(v.Vals[i], sc, fr)
			if c != nil {
				return nil, c
			}
			d.Set(k, iv)
		}
		return d, nil
	case *Index:
		root, c := in.eval(v.Root, sc, fr)
		if c != nil {
			return nil, c
		}
		idx, c := in.eval(v.Idx, sc, fr)
		if c != nil {
			return nil, c
		}
		return in.indexGet(root, idx)
	case *Member:
		root, c := in.eval(v.Root, sc, fr)
		if c != nil {
			return nil, c
		}
		return in.getProp(root, v.Name)
	case *This:
		if fr.this == nil {
			return nil, rterr("no-this")
		}
		return in.getProp(fr.this, v.Name)
	case *Assign:
		val, c := in.eval(v.E, sc, fr)
		if c != nil {
			return nil, c
		}
		val = Copy(val)
		switch t := v.Target.(type) {
		case *Var:
			if globalsConst[t.Name] {
				return nil, rterr("assign-predefined")
			}
			b := sc.lookup(t.Name)
			if b == nil {
				return nil, rterr("name")
			}
			if b.konst {
				return nil, rterr("const")
			}
			b.v = val
			return val, nil
		case *Index:
			root, c := in.eval(t.Root, sc, fr)
			if c != nil {
				return nil, c
			}
			idx, c := in.eval(t.Idx, sc, fr)
			if c != nil {
				return nil, c
			}
			return val, in.indexSet(root, idx, val)
		case *Member:
			root, c := in.eval(t.Root, sc, fr)
			if c != nil {
				return nil, c
			}
			return val, in.setProp(root, t.Name, val)
		case *This:
			if fr.this == nil {
				return nil, rterr("no-this")
			}
			return val, in.setProp(fr.this, t.Name, val)
		}
		return nil, rterr("bad-assign-target")
	case *Call:
		args, c := in.evalArgs(v.Args, sc, fr)
		if c != nil {
			return nil, c
		}
		res, c := in.callNamed(v.Name, args, sc, fr)
		if c != nil {
			return nil, c
		}
		if v.Yield != "" {
			if c := in.declare(sc, v.Yield, Copy(res), true); c != nil {
				return nil, c
			}
		}
		return res, nil
	case *MCall:
		start := 0
		var cur Value
		var c *ctl
		if get, set, ok := in.inPlaceNumberTarget(v, sc, fr); ok {
			// 自增 / 自减: the number held by THIS property / variable changes in place (and
			// only this one)
			old := get()
			args, c := in.evalArgs(v.Chain[0].Args, sc, fr)
			if c != nil {
				return nil, c
			}
			x, isNum := old.(float64)
			if !isNum || len(args) != 1 {
				in.unspec("in-place number method on a non-number / wrong arguments")
				return NullV{}, nil
			}
			d, isNum := args[0].(float64)
			if !isNum {
				in.unspec("in-place number method with a non-number argument")
				return NullV{}, nil
			}
			if v.Chain[0].Name == "自减" {
				d = -d
			}
			set(x + d)
			cur, start = x+d, 1
		} else {
			cur, c = in.eval(v.Root, sc, fr)
			if c != nil {
				return nil, c
			}
		}
		for i := start; i < len(v.Chain); i++ {
			args, c := in.evalArgs(v.Chain[i].Args, sc, fr)
			if c != nil {
				return nil, c
			}
			cur, c = in.callMethod(cur, v.Chain[i].Name, args)
			if c != nil {
				return nil, c
			}
		}
		if v.Yield != "" {
			if c := in.declare(sc, v.Yield, Copy(cur), true); c != nil {
				return nil, c
			}
		}
		return cur, nil
	case *New:
		var cls *ClassV
		if v.Class == "异常" {
			cls = in.ExcClass
		} else {
			b := sc.lookup(v.Class)
			if b == nil {
				return nil, rterr("name")
			}
			var ok bool
			cls, ok = b.v.(*ClassV)
			if !ok {
				return nil, rterr("new-non-class")
			}
		}
		args, c := in.evalArgs(v.Args, sc, fr)
		if c != nil {
			return nil, c
		}
		return in.construct(cls, args)
	}
	panic(fmt.Sprintf("ref: unknown expression %T", e))
}

// inPlaceNumberTarget - 以其P（自增：d） / 以X之P（自增：d） with X a plain variable holding an
// object / 以V（自增：d） with V a plain variable: accessors of the place that holds the number.
// (A variable owns its number; a method input bound to a LITERAL or computed argument owns a
// fresh one. An input bound to a caller's variable shares that variable's number - programs
// that do so are not generated.)
func (in *Interp) inPlaceNumberTarget(v *MCall, sc *scope, fr *frame) (func() Value, func(Value), bool) {
	if len(v.Chain) == 0 || (v.Chain[0].Name != "自增" && v.Chain[0].Name != "自减") {
		return nil, nil, false
	}
	prop := func(o *ObjV, name string) (func() Value, func(Value), bool) {
		if _, has := o.Props[name]; !has {
			return nil, nil, false
		}
		return func() Value { return o.Props[name] }, func(x Value) { o.Props[name] = x }, true
	}
	switch r := v.Root.(type) {
	case *This:
		if o, ok := fr.this.(*ObjV); ok {
			return prop(o, r.Name)
		}
	case *Member:
		if rv, ok := r.Root.(*Var); ok {
			if b := sc.lookup(rv.Name); b != nil {
				if o, ok := b.v.(*ObjV); ok {
					return prop(o, r.Name)
				}
			}
		}
	case *Var:
		if b := sc.lookup(r.Name); b != nil {
			if _, isNum := b.v.(float64); isNum {
				return func() Value { return b.v }, func(x Value) { b.v = x }, true
			}
		}
	case *Index:
		// an item of a list / dictionary reached through a side-effect-free path
		if !purePath(r.Root) || !purePath(r.Idx) {
			return nil, nil, false
		}
		cv, c := in.eval(r.Root, sc, fr)
		if c != nil {
			return nil, nil, false
		}
		iv, c := in.eval(r.Idx, sc, fr)
		if c != nil {
			return nil, nil, false
		}
		switch coll := cv.(type) {
		case *ListV:
			i, ok := intIndex(iv)
			if !ok || i < 1 || i > len(coll.Items) {
				return nil, nil, false
			}
			if _, isNum := coll.Items[i-1].(float64); !isNum {
				return nil, nil, false
			}
			return func() Value { return coll.Items[i-1] }, func(x Value) { coll.Items[i-1] = x }, true
		case *DictV:
			k, ok := iv.(string)
			if !ok {
				return nil, nil, false
			}
			if _, isNum := coll.M[k].(float64); !isNum {
				return nil, nil, false
			}
			return func() Value { return coll.M[k] }, func(x Value) { coll.M[k] = x }, true
		}
	}
	return nil, nil, false
}

// formatFault - a template made of plain text, {} and {#...} placeholders only: do the number of
// placeholders and arguments differ, or does a numeric directive meet a non-number?
// (templates with stray braces are left to C14: not decided here)
func formatFault(tpl string, args []Value) bool {
	n := 0
	rs := []rune(tpl)
	for i := 0; i < len(rs); i++ {
		switch rs[i] {
		case '}':
			return false
		case '{':
			j := i + 1
			for j < len(rs) && rs[j] != '}' && rs[j] != '{' {
				j++
			}
			if j >= len(rs) || rs[j] != '}' {
				return false
			}
			body := string(rs[i+1 : j])
			if body != "" && body[0] != '#' {
				return false
			}
			if body != "" && n < len(args) {
				if _, isNum := args[n].(float64); !isNum {
					return true
				}
			}
			n++
			i = j
		}
	}
	return n != len(args)
}

// purePath - variables, literals and index / member chains over them (no calls)
func purePath(e Expr) bool {
	switch x := e.(type) {
	case *Var, *Num, *Str, *This:
		return true
	case *Grp:
		return purePath(x.E)
	case *Index:
		return purePath(x.Root) && purePath(x.Idx)
	case *Member:
		return purePath(x.Root)
	}
	return false
}

func (in *Interp) evalArgs(as []Expr, sc *scope, fr *frame) ([]Value, *ctl) {
	var out []Value
	for _, a := range as {
		v, c := in.eval(a, sc, fr)
		if c != nil {
			return nil, c
		}
		out = append(out, v)
	}
	return out, nil
}

func (in *Interp) callNamed(name string, args []Value, sc *scope, fr *frame) (Value, *ctl) {
	if name == "显示" {
		parts := make([]string, len(args))
		for i, a := range args {
			parts[i] = Show(a)
		}
		in.Out = append(in.Out, strings.Join(parts, " "))
		return NullV{}, nil
	}
	b := sc.lookup(name)
	if b == nil {
		return nil, rterr("name")
	}
	f, ok := b.v.(*FuncV)
	if !ok {
		return nil, rterr("call-non-function")
	}
	return in.callBody(f.Def.Params, f.Def.Body, f.Def.Catches, args, f.Mod, nil)
}

func (in *Interp) evalBin(b *Bin, sc *scope, fr *frame) (Value, *ctl) {
	switch b.Op {
	case "且", "或":
		l, c := in.eval(b.L, sc, fr)
		if c != nil {
			return nil, c
		}
		lb, ok := l.(bool)
		if !ok {
			return nil, rterr("logic-non-bool")
		}
		if b.Op == "且" && !lb {
			return false, nil
		}
		if b.Op == "或" && lb {
			return true, nil
		}
		r, c := in.eval(b.R, sc, fr)
		if c != nil {
			return nil, c
		}
		rb, ok := r.(bool)
		if !ok {
			return nil, rterr("logic-non-bool")
		}
		return rb, nil
	}
	l, c := in.eval(b.L, sc, fr)
	if c != nil {
		return nil, c
	}
	r, c := in.eval(b.R, sc, fr)
	if c != nil {
		return nil, c
	}
	switch b.Op {
	case "为", "==", "不为", "/=":
		eq, spec := Equal(l, r)
		if !spec {
			in.unspec("equality on NaN or non-plain values")
		}
		if b.Op == "不为" || b.Op == "/=" {
			return !eq, nil
		}
		return eq, nil
	case ">", "<", ">=", "<=":
		x, ok1 := num(l)
		y, ok2 := num(r)
		if !ok1 || !ok2 {
			return nil, rterr("order-non-number")
		}
		switch b.Op {
		case ">":
			return x > y, nil
		case "<":
			return x < y, nil
		case ">=":
			return x >= y, nil
		default:
			return x <= y, nil
		}
	case "+", "-", "*", "/", "|", "%":
		x, ok1 := num(l)
		y, ok2 := num(r)
		if !ok1 || !ok2 {
			if b.Op == "%" {
				if _, isStr := l.(string); isStr {
					if lst, isList := r.(*ListV); isList {
						// the faults the manual documents for formatting are ordinary exceptions
						// (the rendered text itself is the subject of C14, not modelled here)
						if formatFault(l.(string), lst.Items) {
							return nil, rterr("format")
						}
						in.unspec("text % list formatting (C14)")
						return "", nil
					}
				}
			}
			return nil, rterr("arith-non-number")
		}
		switch b.Op {
		case "+":
			return float64(x + y), nil
		case "-":
			return float64(x - y), nil
		case "*":
			return float64(x * y), nil
		case "/":
			if y == 0 {
				return nil, rterr("div-zero")
			}
			return float64(x / y), nil
		case "|":
			if y == 0 {
				return nil, rterr("div-zero")
			}
			return math.Floor(float64(x / y)), nil
		default:
			if y == 0 {
				return nil, rterr("div-zero")
			}
			q := math.Floor(float64(x / y))
			p := float64(q * y)
			return float64(x - p), nil
		}
	}
	panic("ref: unknown operator " + b.Op)
}

// ---------------------------------------------------------------------------------------
// collections

func intIndex(idx Value) (int, bool) {
	f, ok := idx.(float64)
	if !ok || f != math.Trunc(f) || math.IsInf(f, 0) || math.IsNaN(f) || math.Abs(f) > 1e9 {
		return 0, false
	}
	return int(f), true
}

func (in *Interp) indexGet(root, idx Value) (Value, *ctl) {
	switch r := root.(type) {
	case *ListV:
		if _, isNum := idx.(float64); !isNum {
			return nil, rterr("index-type")
		}
		i, ok := intIndex(idx)
		if !ok {
			in.unspec("fractional or huge list index")
			return NullV{}, nil
		}
		if i < 1 || i > len(r.Items) {
			return nil, rterr("index-range")
		}
		return r.Items[i-1], nil
	case *DictV:
		k, ok := dictKey(idx)
		if !ok {
			return nil, rterr("index-type")
		}
		v, ok := r.M[k]
		if !ok {
			return nil, rterr("key-missing")
		}
		return v, nil
	}
	return nil, rterr("index-non-collection")
}

func dictKey(idx Value) (string, bool) {
	switch k := idx.(type) {
	case string:
		return k, true
	case float64:
		return ShowNum(k), true
	}
	return "", false
}

func (in *Interp) indexSet(root, idx, val Value) *ctl {
	switch r := root.(type) {
	case *ListV:
		if _, isNum := idx.(float64); !isNum {
			return rterr("index-type")
		}
		i, ok := intIndex(idx)
		if !ok {
			in.unspec("fractional or huge list index")
			return nil
		}
		if i < 1 || i > len(r.Items) {
			return rterr("index-range")
		}
		r.Items[i-1] = val
		return nil
	case *DictV:
		k, ok := dictKey(idx)
		if !ok {
			return rterr("index-type")
		}
		r.Set(k, val)
		return nil
	}
	return rterr("index-non-collection")
}

func (in *Interp) getProp(root Value, name string) (Value, *ctl) {
	switch r := root.(type) {
	case *ObjV:
		if name == "自身" {
			return r, nil
		}
		v, ok := r.Props[name]
		if !ok {
			return nil, rterr("member")
		}
		return v, nil
	case *ExcV:
		if name == "内容" {
			if r.Synthetic {
				in.unspec("message text of a runtime fault")
			}
			return r.Msg, nil
		}
		return nil, rterr("member")
	case *ListV:
		switch name {
		case "长度", "数目":
			return float64(len(r.Items)), nil
		case "首项":
			if len(r.Items) == 0 {
				return NullV{}, nil
			}
			return r.Items[0], nil
		case "末项":
			if len(r.Items) == 0 {
				return NullV{}, nil
			}
			return r.Items[len(r.Items)-1], nil
		case "逆序":
			n := &ListV{}
			for i := len(r.Items) - 1; i >= 0; i-- {
				n.Items = append(n.Items, r.Items[i])
			}
			return n, nil
		case "文本":
			return Show(r), nil
		}
		return nil, rterr("member")
	case *DictV:
		switch name {
		case "长度", "数目":
			return float64(len(r.M)), nil
		case "所有索引":
			n := &ListV{}
			for _, k := range r.Keys {
				n.Items = append(n.Items, k)
			}
			return n, nil
		case "所有值":
			n := &ListV{}
			for _, k := range r.Keys {
				n.Items = append(n.Items, r.M[k])
			}
			return n, nil
		}
		return nil, rterr("member")
	case string:
		switch name {
		case "长度", "字数":
			return float64(len([]rune(r))), nil
		case "文本":
			return r, nil
		case "字符组":
			n := &ListV{}
			for _, c := range r {
				n.Items = append(n.Items, string(c))
			}
			return n, nil
		}
		return nil, rterr("member")
	case float64:
		switch name {
		case "文本":
			return ShowNum(r), nil
		case "平方":
			return float64(r * r), nil
		}
		in.unspec("number property " + name)
		return NullV{}, nil
	case bool:
		if name == "文本" {
			return Show(r), nil
		}
		return nil, rterr("member")
	}
	return nil, rterr("member")
}

func (in *Interp) setProp(root Value, name string, val Value) *ctl {
	switch r := root.(type) {
	case *ObjV:
		if _, ok := r.Props[name]; !ok {
			return rterr("member")
		}
		r.Props[name] = val
		return nil
	case *ListV:
		switch name {
		case "首项":
			if len(r.Items) == 0 {
				in.unspec("首项/末项 assignment on an empty list")
				r.Items = []Value{val}
				return nil
			}
			r.Items[0] = val
			return nil
		case "末项":
			if len(r.Items) == 0 {
				in.unspec("首项/末项 assignment on an empty list")
				r.Items = []Value{val}
				return nil
			}
			r.Items[len(r.Items)-1] = val
			return nil
		}
	}
	return rterr("member")
}

func (in *Interp) callMethod(root Value, name string, args []Value) (Value, *ctl) {
	switch r := root.(type) {
	case *ObjV:
		for i := range r.Class.Def.Methods {
			m := &r.Class.Def.Methods[i]
			if m.Name == name {
				return in.callBody(m.Params, m.Body, m.Catches, args, r.Class.Mod, r)
			}
		}
		return nil, rterr("method")
	case *ListV:
		return in.listMethod(r, name, args)
	case *DictV:
		return in.dictMethod(r, name, args)
	}
	if _, ok := root.(string); ok {
		in.unspec("text method " + name)
		return NullV{}, nil
	}
	if _, ok := root.(float64); ok {
		in.unspec("number method " + name)
		return NullV{}, nil
	}
	return nil, rterr("method")
}

func (in *Interp) listMethod(l *ListV, name string, args []Value) (Value, *ctl) {
	need := func(n int) *ctl {
		if len(args) != n {
			return rterr("arity")
		}
		return nil
	}
	switch name {
	case "后增":
		if c := need(1); c != nil {
			return nil, c
		}
		l.Items = append(l.Items, args[0])
		return l, nil
	case "前增":
		if c := need(1); c != nil {
			return nil, c
		}
		l.Items = append([]Value{args[0]}, l.Items...)
		return l, nil
	case "左移":
		if len(l.Items) == 0 {
			return NullV{}, nil
		}
		v := l.Items[0]
		l.Items = append([]Value{}, l.Items[1:]...)
		return v, nil
	case "右移":
		if len(l.Items) == 0 {
			return NullV{}, nil
		}
		v := l.Items[len(l.Items)-1]
		l.Items = append([]Value{}, l.Items[:len(l.Items)-1]...)
		return v, nil
	case "交换":
		if c := need(2); c != nil {
			return nil, c
		}
		if _, ok := args[0].(float64); !ok {
			return nil, rterr("type")
		}
		if _, ok := args[1].(float64); !ok {
			return nil, rterr("type")
		}
		i, ok1 := intIndex(args[0])
		j, ok2 := intIndex(args[1])
		if !ok1 || !ok2 {
			in.unspec("fractional swap index")
			return l, nil
		}
		if i < 1 || i > len(l.Items) || j < 1 || j > len(l.Items) {
			return nil, rterr("index-range")
		}
		l.Items[i-1], l.Items[j-1] = l.Items[j-1], l.Items[i-1]
		return l, nil
	case "合并":
		out := &ListV{Items: append([]Value{}, l.Items...)}
		for _, a := range args {
			al, ok := a.(*ListV)
			if !ok {
				return nil, rterr("type")
			}
			out.Items = append(out.Items, al.Items...)
		}
		in.unspec("receiver state after 合并")
		return out, nil
	case "包含":
		if c := need(1); c != nil {
			return nil, c
		}
		for _, it := range l.Items {
			eq, spec := Equal(it, args[0])
			if !spec {
				in.unspec("包含 on NaN / non-plain values")
			}
			if eq {
				return true, nil
			}
		}
		return false, nil
	case "寻找":
		if c := need(1); c != nil {
			return nil, c
		}
		for i, it := range l.Items {
			eq, spec := Equal(it, args[0])
			if !spec {
				in.unspec("寻找 on NaN / non-plain values")
			}
			if eq {
				return float64(i + 1), nil
			}
		}
		in.unspec("寻找 result for an absent element")
		return float64(-1), nil
	}
	in.unspec("list method " + name)
	return NullV{}, nil
}

func (in *Interp) dictMethod(d *DictV, name string, args []Value) (Value, *ctl) {
	switch name {
	case "写入":
		if len(args) != 2 {
			return nil, rterr("arity")
		}
		k, ok := args[0].(string)
		if !ok {
			return nil, rterr("type")
		}
		d.Set(k, args[1])
		return args[1], nil
	case "读取":
		if len(args) < 1 {
			return nil, rterr("arity")
		}
		var cur Value = d
		for _, a := range args {
			k, ok := a.(string)
			if !ok {
				return nil, rterr("type")
			}
			cd, ok := cur.(*DictV)
			if !ok {
				return NullV{}, nil
			}
			v, ok := cd.M[k]
			if !ok {
				return NullV{}, nil
			}
			cur = v
		}
		return cur, nil
	case "移除":
		if len(args) != 1 {
			return nil, rterr("arity")
		}
		k, ok := args[0].(string)
		if !ok {
			return nil, rterr("type")
		}
		v, ok := d.M[k]
		if !ok {
			return NullV{}, nil
		}
		d.Delete(k)
		return v, nil
	}
	in.unspec("dictionary method " + name)
	return NullV{}, nil
}

// ---------------------------------------------------------------------------------------
// modules

func (in *Interp) doImport(im *Import, m *modEnv) *ctl {
	if im.Lib {
		in.unspec("library import")
		return nil
	}
	target, ok := in.modCache[im.Name]
	if !ok {
		if in.modLoading[im.Name] {
			return &ctl{kind: ctlRaise, err: &ZnError{Class: "runtime", What: "import-cycle"}}
		}
		prog, exists := in.Modules[im.Name]
		if !exists {
			return rterr("module-missing")
		}
		in.modLoading[im.Name] = true
		target = &modEnv{name: im.Name, top: &scope{vars: map[string]*binding{}}, exports: map[string]Value{}}
		_, _, c := in.runProgram(prog, target, false)
		delete(in.modLoading, im.Name)
		if c != nil {
			return c
		}
		in.ModOrder = append(in.ModOrder, im.Name)
		in.modCache[im.Name] = target
	}
	names := im.Items
	if len(names) == 0 {
		names = target.order
	}
	for _, n := range names {
		v, ok := target.exports[n]
		if !ok {
			in.unspec("selective import of a name that is not exported")
			continue
		}
		if c := in.declare(m.top, n, v, true); c != nil {
			return c
		}
	}
	return nil
}
