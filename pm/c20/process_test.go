package c20

// Part B: the real master and real worker processes (this test binary re-executed), driven
// by rapid-drawn fault scripts on a loopback port. Wall-clock based, therefore only SAFETY
// observations can produce a violation; a recovery that is not observed within its bounded
// wait is counted as "not observed", never reported.

import (
	"encoding/json"
	"fmt"
	"io"
	"net"
	"net/http"
	"os"
	"os/exec"
	"path/filepath"
	"sort"
	"strconv"
	"strings"
	"sync"
	"syscall"
	"testing"
	"time"

	"github.com/DemoHn/Zn/pkg/server"
	"pgregory.net/rapid"

	h "verif/harness"
)

// ---------------------------------------------------------------------------------------
// role of a re-executed process: master or worker of the prefork server

type tokenHandler struct{ logPath string }

func (th tokenHandler) ServeHTTP(w http.ResponseWriter, r *http.Request) {
	tok := r.URL.Query().Get("t")
	pid := os.Getpid()
	logLine(th.logPath, fmt.Sprintf("enter %d %s %d\n", pid, tok, time.Now().UnixNano()))
	switch {
	case strings.HasPrefix(tok, "slow"):
		time.Sleep(250 * time.Millisecond)
	case strings.HasPrefix(tok, "hang"):
		time.Sleep(time.Hour)
	case strings.HasPrefix(tok, "stall"):
		io.ReadAll(r.Body) // the client never sends all of the announced body
	default:
		time.Sleep(15 * time.Millisecond)
	}
	logLine(th.logPath, fmt.Sprintf("leave %d %s %d\n", pid, tok, time.Now().UnixNano()))
	w.Header().Add("Content-Type", "text/plain")
	w.WriteHeader(200)
	io.WriteString(w, fmt.Sprintf("pid=%d token=%s", pid, tok))
}

func logLine(path, s string) {
	f, err := os.OpenFile(path, os.O_APPEND|os.O_WRONLY|os.O_CREATE, 0o644)
	if err != nil {
		return
	}
	f.WriteString(s)
	f.Close()
}

// runRole - called from TestMain before flag parsing when VERIF_PM_ROLE is set
func runRole() {
	initN, _ := strconv.Atoi(os.Getenv("VERIF_PM_INIT"))
	maxN, _ := strconv.Atoi(os.Getenv("VERIF_PM_MAX"))
	zns := server.NewZnPMServer(server.ZnPMServerConfig{InitProcs: initN, MaxProcs: maxN, Timeout: 1})
	zns.SetHandler(tokenHandler{logPath: os.Getenv("VERIF_PM_LOG")})
	err := zns.Start("tcp://127.0.0.1:" + os.Getenv("VERIF_PM_PORT"))
	if err != nil {
		fmt.Fprintln(os.Stderr, "role exits:", err)
		os.Exit(3)
	}
	os.Exit(0)
}

// ---------------------------------------------------------------------------------------

type step struct {
	Kind   string   `json:"kind"` // requests | kill | wait
	Tokens []string `json:"tokens,omitempty"`
	Ms     int      `json:"ms,omitempty"`
}

type procCase struct {
	Init  int    `json:"init"`
	Max   int    `json:"max"`
	Steps []step `json:"steps"`
}

func replayProcess(raw json.RawMessage) ([]h.Failure, error) {
	var c procCase
	if err := json.Unmarshal(raw, &c); err != nil {
		return nil, err
	}
	f, _ := runProcessScript(c)
	return f, nil
}

func freePort() int {
	l, err := net.Listen("tcp", "127.0.0.1:0")
	if err != nil {
		panic(err)
	}
	defer l.Close()
	return l.Addr().(*net.TCPAddr).Port
}

// childrenOf - live (non-zombie) child processes of pid, from /proc
func childrenOf(pid int) []int {
	var out []int
	ents, _ := os.ReadDir("/proc")
	for _, e := range ents {
		n, err := strconv.Atoi(e.Name())
		if err != nil {
			continue
		}
		b, err := os.ReadFile(filepath.Join("/proc", e.Name(), "stat"))
		if err != nil {
			continue
		}
		s := string(b)
		i := strings.LastIndex(s, ")")
		if i < 0 {
			continue
		}
		f := strings.Fields(s[i+1:])
		if len(f) < 2 {
			continue
		}
		ppid, _ := strconv.Atoi(f[1])
		if ppid == pid && f[0] != "Z" {
			out = append(out, n)
		}
	}
	sort.Ints(out)
	return out
}

type observations struct {
	notObserved map[string]int
	faults      int
}

func runProcessScript(c procCase) (fails []h.Failure, obs observations) {
	obs.notObserved = map[string]int{}
	dir, _ := os.MkdirTemp("", "verif-c20-*")
	defer os.RemoveAll(dir)
	logPath := filepath.Join(dir, "handler.log")
	port := freePort()
	ownPipes := map[string]bool{} // the named pipe(s) THIS master opened (other scripts run at the same time in other shards)
	master := exec.Command(os.Args[0])
	master.Env = append(os.Environ(), "VERIF_PM_ROLE=1", fmt.Sprintf("VERIF_PM_INIT=%d", c.Init), fmt.Sprintf("VERIF_PM_MAX=%d", c.Max),
		fmt.Sprintf("VERIF_PM_PORT=%d", port), "VERIF_PM_LOG="+logPath,
		// DemoHn/Zn's go.mod says go 1.18: its own binaries run with the runtime settings of
		// that language version (timer channels are buffered and keep a stale tick across
		// Reset). This harness is a module of a newer version, so the server processes get the
		// same settings explicitly
		"GODEBUG=asynctimerchan=1")
	errFile, _ := os.Create(filepath.Join(dir, "master.err"))
	master.Stdout, master.Stderr = errFile, errFile
	master.SysProcAttr = &syscall.SysProcAttr{Setpgid: true}
	if err := master.Start(); err != nil {
		return []h.Failure{{Sig: "process/harness", Msg: err.Error()}}, obs
	}
	masterDone := make(chan struct{})
	go func() { master.Wait(); close(masterDone) }()
	var notePipes func()
	defer func() {
		notePipes()
		syscall.Kill(-master.Process.Pid, syscall.SIGKILL)
		<-masterDone
		for p := range ownPipes {
			os.Remove(p)
		}
	}()
	notePipes = func() {
		fds, _ := filepath.Glob(fmt.Sprintf("/proc/%d/fd/*", master.Process.Pid))
		for _, fd := range fds {
			if target, err := os.Readlink(fd); err == nil && strings.HasPrefix(target, "/tmp/zinc-server-pipe-") {
				ownPipes[target] = true
			}
		}
	}
	fail := func(sig, msg string) {
		b, _ := os.ReadFile(filepath.Join(dir, "master.err"))
		cj, _ := json.Marshal(c)
		fails = append(fails, h.Failure{Sig: "process/" + sig, Msg: fmt.Sprintf("script %s\n%s\nmaster output (tail): %s", cj, msg, tailOf(string(b), 600))})
	}
	// monitor: number of live children of the master, sampled continuously
	stop := make(chan struct{})
	var monMu sync.Mutex
	maxSeen := 0
	var monWG sync.WaitGroup
	monWG.Add(1)
	go func() {
		defer monWG.Done()
		for {
			select {
			case <-stop:
				return
			case <-masterDone:
				return
			default:
			}
			n := len(childrenOf(master.Process.Pid))
			monMu.Lock()
			if n > maxSeen {
				maxSeen = n
			}
			monMu.Unlock()
			time.Sleep(10 * time.Millisecond)
		}
	}()
	waitChildren := func(atLeast int, limit time.Duration) bool {
		deadline := time.Now().Add(limit)
		for time.Now().Before(deadline) {
			if len(childrenOf(master.Process.Pid)) >= atLeast {
				return true
			}
			select {
			case <-masterDone:
				return false
			default:
			}
			time.Sleep(20 * time.Millisecond)
		}
		return false
	}
	if !waitChildren(c.Init, 8*time.Second) {
		select {
		case <-masterDone:
			fail("master-died-at-start", "the master exited before its initial workers were up")
		default:
			obs.notObserved["initial workers up within 8 s"]++
		}
		close(stop)
		monWG.Wait()
		return
	}
	time.Sleep(150 * time.Millisecond)
	notePipes()
	client := &http.Client{Timeout: 6 * time.Second, Transport: &http.Transport{DisableKeepAlives: true}}
	var stalledConns []net.Conn
	stalled := false
	defer func() {
		for _, cn := range stalledConns {
			cn.Close()
		}
	}()
	type answer struct{ tok, body string; err error }
	var allAnswers []answer
	var ansMu sync.Mutex
	var reqWG sync.WaitGroup
	for _, st := range c.Steps {
		switch st.Kind {
		case "requests":
			for _, tok := range st.Tokens {
				reqWG.Add(1)
				go func(tok string) {
					defer reqWG.Done()
					resp, err := client.Get(fmt.Sprintf("http://127.0.0.1:%d/x?t=%s", port, tok))
					a := answer{tok: tok, err: err}
					if err == nil {
						b, _ := io.ReadAll(resp.Body)
						resp.Body.Close()
						a.body = string(b)
					}
					ansMu.Lock()
					allAnswers = append(allAnswers, a)
					ansMu.Unlock()
				}(tok)
			}
		case "stall":
			// uploads whose head arrives completely but whose body never does: the connection
			// stays open (until the script is over) with 10 of the 100 announced bytes sent
			for _, tok := range st.Tokens {
				conn, err := net.DialTimeout("tcp", fmt.Sprintf("127.0.0.1:%d", port), 3*time.Second)
				if err != nil {
					obs.notObserved["stalled upload connected"]++
					continue
				}
				switch {
				case strings.HasPrefix(tok, "stallsilent"):
					// connects and never sends anything
				case strings.HasPrefix(tok, "stallhead"):
					fmt.Fprintf(conn, "POST /x?t=%s HTTP/1.1\r\nHost: zn.test\r\n", tok) // the head never ends
				default:
					fmt.Fprintf(conn, "POST /x?t=%s HTTP/1.1\r\nHost: zn.test\r\nContent-Type: text/plain\r\nContent-Length: 100\r\n\r\n0123456789", tok)
				}
				stalledConns = append(stalledConns, conn)
				stalled = true
			}
		case "abort":
			// clients that connect and go away at once, or after a piece of a request head /
			// bytes that are no request at all
			for _, tok := range st.Tokens {
				conn, err := net.DialTimeout("tcp", fmt.Sprintf("127.0.0.1:%d", port), 3*time.Second)
				if err != nil {
					obs.notObserved["aborting client connected"]++
					continue
				}
				switch {
				case strings.HasPrefix(tok, "aborthalf"):
					fmt.Fprintf(conn, "GET /x?t=%s HTT", tok)
				case strings.HasPrefix(tok, "abortjunk"):
					conn.Write([]byte("\x16\x03\x01\x02\x00\x01\x00\x01\xfc\x03\x03 not http at all\r\n\r\n"))
				}
				conn.Close()
			}
			obs.faults++ // (a worker that gives up on such a connection may end: requests queued behind it are not claimed to be answered)
		case "kill":
			obs.faults++
			kids := childrenOf(master.Process.Pid)
			if len(kids) > 0 {
				syscall.Kill(kids[st.Ms%len(kids)], syscall.SIGKILL)
			}
		case "wait":
			time.Sleep(time.Duration(st.Ms) * time.Millisecond)
		}
	}
	// let the non-hanging requests finish (bounded), then the timeout of hanging ones pass
	done := make(chan struct{})
	go func() { reqWG.Wait(); close(done) }()
	select {
	case <-done:
	case <-time.After(9 * time.Second):
		obs.notObserved["all requests answered within 9 s"]++
	}
	// quiet: the pool returns to at least init
	select {
	case <-masterDone:
		fail("master-died", "the master process exited while serving the script (its workers are gone with it: the pool cannot return to --init-procs)")
	default:
		if !waitChildren(c.Init, 6*time.Second) {
			select {
			case <-masterDone:
				fail("master-died", "the master process exited while serving the script")
			default:
				obs.notObserved[fmt.Sprintf("pool back to init=%d within 6 s of quiet", c.Init)]++
			}
		}
	}
	close(stop)
	monWG.Wait()
	monMu.Lock()
	seen := maxSeen
	monMu.Unlock()
	if seen > c.Max {
		fail("more-than-max-procs", fmt.Sprintf("%d worker processes were alive at the same time, --max-procs is %d", seen, c.Max))
	}
	// answers: each answered request carries its own token, from exactly one worker
	ansMu.Lock()
	for _, a := range allAnswers {
		if a.err != nil {
			if stalled && strings.HasPrefix(a.tok, "after") {
				// sent several seconds (many times --timeout) after uploads stalled on every
				// worker: by then each of those workers must have been terminated and replaced
				fail("stalled-workers-not-replaced", fmt.Sprintf("request %q, sent long after --timeout had passed for the stalled uploads, was not answered (%v): the workers holding the stalled uploads were not terminated and replaced", a.tok, a.err))
				continue
			}
			if strings.HasPrefix(a.tok, "hang") || obs.faults > 0 {
				continue // cut by the timeout / a killed worker: allowed
			}
			obs.notObserved["request answered: "+strings.SplitN(a.err.Error(), ":", 2)[0]]++
			continue
		}
		if !strings.HasSuffix(a.body, "token="+a.tok) {
			fail("wrong-answer", fmt.Sprintf("request with token %q was answered %q", a.tok, a.body))
		}
	}
	ansMu.Unlock()
	// handler log: one request at a time per worker, each token handled at most once
	lb, _ := os.ReadFile(logPath)
	logReadAt := time.Now().UnixNano()
	type iv struct {
		tok        string
		start, end int64
	}
	per := map[string][]*iv{}
	handled := map[string]int{}
	for _, ln := range strings.Split(string(lb), "\n") {
		f := strings.Fields(ln)
		if len(f) != 4 {
			continue
		}
		ts, _ := strconv.ParseInt(f[3], 10, 64)
		if f[0] == "enter" {
			per[f[1]] = append(per[f[1]], &iv{tok: f[2], start: ts, end: 1 << 62})
			handled[f[2]]++
		} else {
			for _, x := range per[f[1]] {
				if x.tok == f[2] && x.end == 1<<62 {
					x.end = ts
					break
				}
			}
		}
	}
	// without an injected fault, a request the handler started and that stays far below
	// --timeout (1 s; the handler needs <= 250 ms) is handled to the end: only a worker whose
	// request outlives the timeout may be terminated
	if obs.faults == 0 {
		for pid, ivs := range per {
			for _, x := range ivs {
				// (a request entered less than 2 s before the log was read may simply still be
				// running: a connection that waited in the accept queue - behind workers held
				// by hanging requests - is taken up late, possibly while the script is over)
				if !strings.HasPrefix(x.tok, "hang") && !strings.HasPrefix(x.tok, "stall") && x.end == 1<<62 && logReadAt-x.start > int64(2*time.Second) {
					fail("request-cut-short", fmt.Sprintf("worker %s started request %q and never completed it although no fault was injected and the request needs far less than --timeout", pid, x.tok))
				}
			}
		}
	}
	for tok, n := range handled {
		if n > 1 {
			fail("request-handled-twice", fmt.Sprintf("token %q was handled %d times", tok, n))
		}
	}
	for pid, ivs := range per {
		for i := 0; i < len(ivs); i++ {
			for j := i + 1; j < len(ivs); j++ {
				a, b := ivs[i], ivs[j]
				if a.start < b.end && b.start < a.end && a.end != 1<<62 && b.end != 1<<62 {
					fail("worker-serves-two-requests", fmt.Sprintf("worker %s served %q and %q at the same time", pid, a.tok, b.tok))
				}
			}
		}
	}
	// a hung worker is terminated: its pid must be gone some time after the timeout
	for pid, ivs := range per {
		for _, x := range ivs {
			if strings.HasPrefix(x.tok, "hang") || strings.HasPrefix(x.tok, "stall") {
				p, _ := strconv.Atoi(pid)
				gone := false
				for i := 0; i < 150; i++ {
					if syscall.Kill(p, 0) != nil {
						gone = true
						break
					}
					time.Sleep(20 * time.Millisecond)
				}
				if !gone {
					obs.notObserved["hung worker terminated within 3 s after the script"]++
				}
			}
		}
	}
	return
}

func tailOf(s string, n int) string {
	if len(s) > n {
		return s[len(s)-n:]
	}
	return s
}

// TestProcessIdleBeyondTimeout - workers that idle longer than --timeout before (and between)
// their requests: the timeout concerns a request being handled, not the time a worker waits
func TestProcessIdleBeyondTimeout(t *testing.T) {
	for i, c := range []procCase{
		{Init: 1, Max: 1, Steps: []step{{Kind: "wait", Ms: 1300}, {Kind: "requests", Tokens: []string{"slow1"}}, {Kind: "wait", Ms: 1400}, {Kind: "requests", Tokens: []string{"slow2"}}, {Kind: "wait", Ms: 400}, {Kind: "requests", Tokens: []string{"fast3"}}}},
		{Init: 2, Max: 3, Steps: []step{{Kind: "wait", Ms: 1250}, {Kind: "requests", Tokens: []string{"slow1", "slow2"}}, {Kind: "wait", Ms: 500}, {Kind: "requests", Tokens: []string{"fast3"}}}},
	} {
		fails, obs := runProcessScript(c)
		for k, v := range obs.notObserved {
			h.R.Count("not-observed: "+k, int64(v))
		}
		key, _ := json.Marshal(c)
		h.R.Case(t, "process", string(key), c, []string{"idle-beyond-timeout", fmt.Sprint("scenario-", i)}, true, fails)
	}
}

// TestProcessStalledUploads - every worker receives an upload whose body stalls (a request that
// outlives --timeout = 1 s); five seconds later fresh requests must be answered: the stalled
// workers have been terminated and replaced
func TestProcessStalledUploads(t *testing.T) {
	for i, c := range []procCase{
		{Init: 1, Max: 1, Steps: []step{{Kind: "stall", Tokens: []string{"stall1"}}, {Kind: "wait", Ms: 5000}, {Kind: "requests", Tokens: []string{"after2"}}}},
		{Init: 2, Max: 2, Steps: []step{{Kind: "requests", Tokens: []string{"fast1"}}, {Kind: "wait", Ms: 300}, {Kind: "stall", Tokens: []string{"stall2", "stall3"}}, {Kind: "wait", Ms: 5000}, {Kind: "requests", Tokens: []string{"after4", "after5"}}}},
		// the same with requests whose HEAD never arrives completely / at all
		{Init: 1, Max: 1, Steps: []step{{Kind: "stall", Tokens: []string{"stallhead1"}}, {Kind: "wait", Ms: 5000}, {Kind: "requests", Tokens: []string{"after2"}}}},
		{Init: 2, Max: 2, Steps: []step{{Kind: "stall", Tokens: []string{"stallsilent1", "stallhead2"}}, {Kind: "wait", Ms: 5000}, {Kind: "requests", Tokens: []string{"after3", "after4"}}}},
	} {
		fails, obs := runProcessScript(c)
		for k, v := range obs.notObserved {
			h.R.Count("not-observed: "+k, int64(v))
		}
		key, _ := json.Marshal(c)
		h.R.Case(t, "process", string(key), c, []string{"stalled-uploads", fmt.Sprint("scenario-", i)}, true, fails)
	}
}

// TestProcessQueuedBehindHang - requests that arrive while EVERY worker is held by a request
// that will outlive --timeout wait in the accept queue; when the hung workers are terminated
// the waiting requests are served by their replacements, each by exactly one worker and to
// the end (a worker on its way out takes no further request)
func TestProcessQueuedBehindHang(t *testing.T) {
	for i, c := range []procCase{
		{Init: 1, Max: 1, Steps: []step{{Kind: "requests", Tokens: []string{"hang1"}}, {Kind: "wait", Ms: 500}, {Kind: "requests", Tokens: []string{"slow2", "slow3", "slow4"}}, {Kind: "wait", Ms: 4500}}},
		{Init: 2, Max: 2, Steps: []step{{Kind: "requests", Tokens: []string{"hang1", "hang2"}}, {Kind: "wait", Ms: 600}, {Kind: "requests", Tokens: []string{"slow3", "slow4", "slow5", "slow6"}}, {Kind: "wait", Ms: 4500}}},
		{Init: 1, Max: 2, Steps: []step{{Kind: "requests", Tokens: []string{"hang1", "hang2"}}, {Kind: "wait", Ms: 300}, {Kind: "requests", Tokens: []string{"slow3", "slow4"}}, {Kind: "wait", Ms: 900}, {Kind: "requests", Tokens: []string{"slow5", "fast6"}}, {Kind: "wait", Ms: 4000}}},
	} {
		fails, obs := runProcessScript(c)
		for k, v := range obs.notObserved {
			h.R.Count("not-observed: "+k, int64(v))
		}
		key, _ := json.Marshal(c)
		h.R.Case(t, "process", string(key), c, []string{"queued-behind-hung-workers", fmt.Sprint("scenario-", i)}, true, fails)
	}
}

// TestProcessAbortedConnections - clients that connect and leave without a request (at once,
// in the middle of the head, after bytes that are no HTTP): whatever the workers do about
// them, the pool stays within its bounds, the master lives, and requests made afterwards are
// answered by one worker each
func TestProcessAbortedConnections(t *testing.T) {
	for i, c := range []procCase{
		{Init: 1, Max: 1, Steps: []step{{Kind: "abort", Tokens: []string{"abort1", "aborthalf2", "abortjunk3"}}, {Kind: "wait", Ms: 1500}, {Kind: "requests", Tokens: []string{"fast4", "slow5"}}, {Kind: "wait", Ms: 1000}}},
		{Init: 2, Max: 3, Steps: []step{{Kind: "requests", Tokens: []string{"slow1"}}, {Kind: "abort", Tokens: []string{"abort2", "abort3", "aborthalf4", "abortjunk5", "abort6", "abortjunk7"}}, {Kind: "wait", Ms: 1500}, {Kind: "requests", Tokens: []string{"fast8", "fast9", "slow10"}}, {Kind: "wait", Ms: 1000}}},
	} {
		fails, obs := runProcessScript(c)
		for k, v := range obs.notObserved {
			h.R.Count("not-observed: "+k, int64(v))
		}
		key, _ := json.Marshal(c)
		h.R.Case(t, "process", string(key), c, []string{"aborted-connections", fmt.Sprint("scenario-", i)}, true, fails)
	}
}

func TestProcessScripts(t *testing.T) {
	rapid.Check(t, func(rt *rapid.T) {
		max := rapid.IntRange(1, 4).Draw(rt, "max")
		c := procCase{Init: rapid.IntRange(1, max).Draw(rt, "init"), Max: max}
		n := rapid.IntRange(1, 5).Draw(rt, "nsteps")
		tokN := 0
		faults := 0
		for i := 0; i < n; i++ {
			switch rapid.IntRange(0, 6).Draw(rt, "kind") {
			case 6:
				tokN++
				c.Steps = append(c.Steps, step{Kind: "abort", Tokens: []string{fmt.Sprintf("%s%d", rapid.SampledFrom([]string{"abort", "aborthalf", "abortjunk"}).Draw(rt, "abortkind"), tokN)}})
				faults++
			case 0, 1, 2:
				st := step{Kind: "requests"}
				for j, k := 0, rapid.IntRange(1, 6).Draw(rt, "nreq"); j < k; j++ {
					tokN++
					kind := rapid.SampledFrom([]string{"fast", "fast", "slow", "slow", "hang"}).Draw(rt, "tok")
					if kind == "hang" {
						faults++
					}
					st.Tokens = append(st.Tokens, fmt.Sprintf("%s%d", kind, tokN))
				}
				c.Steps = append(c.Steps, st)
			case 3:
				c.Steps = append(c.Steps, step{Kind: "kill", Ms: rapid.IntRange(0, 7).Draw(rt, "which")})
				faults++
			default:
				ms := rapid.IntRange(10, 400).Draw(rt, "ms")
				if rapid.IntRange(0, 3).Draw(rt, "longwait") == 0 {
					ms = rapid.IntRange(1100, 1500).Draw(rt, "longms") // idle beyond --timeout
				}
				c.Steps = append(c.Steps, step{Kind: "wait", Ms: ms})
			}
		}
		fails, obs := runProcessScript(c)
		for k, v := range obs.notObserved {
			h.R.Count("not-observed: "+k, int64(v))
		}
		key, _ := json.Marshal(c)
		labels := []string{fmt.Sprintf("init-%d-max-%d", c.Init, c.Max)}
		if faults > 0 {
			labels = append(labels, "with-fault")
		}
		h.R.Case(rt, "process", string(key), c, labels, faults > 0, fails)
	})
}
