module verifpm

go 1.26.8

require (
	github.com/DemoHn/Zn v0.0.0
	pgregory.net/rapid v1.3.0
	verif v0.0.0
)

replace github.com/DemoHn/Zn => /repo

replace verif => ../
