#!/bin/bash
cd /verif 2>/dev/null || cd "$(dirname "$0")"
for p in C01 C02 C03 C04 C05 C06 C07 C08 C09 C10 C11 C12 C13 C14 C15 C16 C17 C18 C19 C20; do
  echo "=== $p $(date +%T)"
  ./check $p --tier thorough 2>&1 | tail -12
  echo "rc=${PIPESTATUS[0]}"
done
