// C20 - the prefork master keeps the worker pool within its bounds (part A: schedule
// exploration of the real bookkeeping loop inside a testing/synctest bubble)
package c20

import (
	"encoding/json"
	"fmt"
	"os"
	"sort"
	"strings"
	"sync"
	"testing"
	"testing/synctest"
	"time"

	"github.com/DemoHn/Zn/pkg/server"
	"pgregory.net/rapid"

	h "verif/harness"
)

func TestMain(m *testing.M) {
	// part B re-executes this binary as the prefork master and its workers
	if os.Getenv("VERIF_PM_ROLE") != "" {
		runRole()
		return
	}
	h.Main(m, "C20", replay)
}

type schedCase struct {
	Init    int   `json:"init"`
	Max     int   `json:"max"`
	Choices []int `json:"choices"` // index into the list of enabled actions at each step
}

func replay(sub string, raw json.RawMessage) ([]h.Failure, error) {
	switch sub {
	case "schedule", "dfs":
		var c schedCase
		if err := json.Unmarshal(raw, &c); err != nil {
			return nil, err
		}
		r := runSchedule(replayT, c)
		return r.fails, nil
	case "process":
		return replayProcess(raw)
	}
	return nil, fmt.Errorf("unknown sub-check %q", sub)
}

// replayT - synctest.Test needs a *testing.T; replay mode runs outside any test function
var replayT *testing.T

// ---------------------------------------------------------------------------------------
// the world around the master: fake worker processes

const (
	stIdle    = server.WORKER_STATE_IDLE
	stBusy    = server.WORKER_STATE_BUSY
	stStopped = server.WORKER_STATE_STOPPED
)

type world struct {
	mu         sync.Mutex
	nextPid    int
	started    []int               // every pid ever started, in order
	pending    map[int]chan struct{} // started, registration not yet released
	registered map[int]bool
	exited     map[int]bool
	reported   map[int]uint8 // last state reported by the worker
}

func (w *world) spawn(z *server.ZnPMServer) error {
	w.mu.Lock()
	w.nextPid++
	pid := 1000 + w.nextPid
	ch := make(chan struct{})
	w.started = append(w.started, pid)
	w.pending[pid] = ch
	w.mu.Unlock()
	<-ch // the harness decides when the master learns about this process
	z.VerifRegister(pid)
	w.mu.Lock()
	w.registered[pid] = true
	w.reported[pid] = stIdle
	w.mu.Unlock()
	return nil
}

func (w *world) live() int {
	w.mu.Lock()
	defer w.mu.Unlock()
	return len(w.started) - len(w.exited)
}

type action struct {
	kind  string // release | report | exit | tick
	pid   int
	state uint8
}

func (a action) String() string {
	switch a.kind {
	case "release":
		return fmt.Sprintf("register(%d)", a.pid)
	case "report":
		return fmt.Sprintf("%s(%d)", map[uint8]string{stIdle: "IDLE", stBusy: "BUSY", stStopped: "STOPPED"}[a.state], a.pid)
	case "exit":
		return fmt.Sprintf("exit(%d)", a.pid)
	}
	return "time+150ms"
}

func (w *world) enabled() []action {
	w.mu.Lock()
	defer w.mu.Unlock()
	var acts []action
	var pend, regs []int
	for pid := range w.pending {
		pend = append(pend, pid)
	}
	for pid := range w.registered {
		if !w.exited[pid] {
			regs = append(regs, pid)
		}
	}
	sort.Ints(pend)
	sort.Ints(regs)
	for _, pid := range pend {
		acts = append(acts, action{kind: "release", pid: pid})
	}
	for _, pid := range regs {
		for _, st := range []uint8{stBusy, stIdle, stStopped} {
			acts = append(acts, action{kind: "report", pid: pid, state: st})
		}
		acts = append(acts, action{kind: "exit", pid: pid})
	}
	acts = append(acts, action{kind: "tick"})
	return acts
}

type runResult struct {
	fails      []h.Failure
	history    []string
	branching  []int // number of enabled actions at each executed step
	reportWhilePending bool
	hadExit    bool
	maxLive    int
}

// runSchedule - one deterministic schedule in its own bubble
func runSchedule(t *testing.T, c schedCase) (res runResult) {
	defer func() {
		if r := recover(); r != nil {
			// the master loop never returns: leaving the bubble with it blocked is expected
			if !strings.Contains(fmt.Sprint(r), "deadlock") {
				panic(r)
			}
		}
	}()
	synctest.Test(t, func(st *testing.T) {
		cfg := server.ZnPMServerConfig{InitProcs: c.Init, MaxProcs: c.Max, Timeout: 1}
		zns := server.NewZnPMServer(cfg)
		w := &world{pending: map[int]chan struct{}{}, registered: map[int]bool{}, exited: map[int]bool{}, reported: map[int]uint8{}}
		server.VerifSetSpawn(w.spawn)
		defer server.VerifSetSpawn(nil)
		go zns.VerifMaintain(cfg)
		go zns.VerifSpawnInitial(cfg)
		synctest.Wait()

		fail := func(sig, why string) {
			res.fails = append(res.fails, h.Failure{Sig: "schedule/" + sig, Msg: fmt.Sprintf("--init-procs=%d --max-procs=%d, schedule: %s\n%s", c.Init, c.Max, strings.Join(res.history, ", "), why)})
		}
		check := func() bool {
			if l := w.live(); l > res.maxLive {
				res.maxLive = l
			}
			if w.live() > c.Max {
				fail("more-than-max-procs", fmt.Sprintf("%d worker processes are alive (started %d, exited %d), --max-procs is %d", w.live(), len(w.started), len(w.exited), c.Max))
				return false
			}
			return true
		}
		do := func(a action) {
			res.history = append(res.history, a.String())
			switch a.kind {
			case "release":
				w.mu.Lock()
				ch := w.pending[a.pid]
				delete(w.pending, a.pid)
				w.mu.Unlock()
				close(ch)
			case "report":
				w.mu.Lock()
				if len(w.pending) > 0 {
					res.reportWhilePending = true
				}
				w.reported[a.pid] = a.state
				w.mu.Unlock()
				zns.VerifReport(a.pid, a.state)
			case "exit":
				res.hadExit = true
				_, before := zns.VerifSnapshot()
				w.mu.Lock()
				w.exited[a.pid] = true
				w.mu.Unlock()
				zns.VerifExit(a.pid)
				synctest.Wait()
				_, after := zns.VerifSnapshot()
				for pid, stb := range before {
					if pid == a.pid {
						continue
					}
					if sta, ok := after[pid]; !ok || sta != stb {
						fail("exit-disturbs-other-child", fmt.Sprintf("after exit(%d) the master's state for child %d changed from %d to %d (present=%v)", a.pid, pid, stb, sta, ok))
					}
				}
				if _, still := after[a.pid]; still {
					fail("exited-child-still-tracked", fmt.Sprintf("child %d exited but the master still tracks it", a.pid))
				}
			case "tick":
				time.Sleep(150 * time.Millisecond)
			}
			synctest.Wait()
		}
		if !check() {
			return
		}
		for _, ch := range c.Choices {
			acts := w.enabled()
			res.branching = append(res.branching, len(acts))
			do(acts[ch%len(acts)])
			if !check() || len(res.fails) > 0 {
				return
			}
		}
		// quiescence: release every registration and let (virtual) time pass until nothing moves
		res.history = append(res.history, "| quiesce")
		stable := 0
		for i := 0; i < 200 && stable < 3; i++ {
			before := len(w.started)
			for _, a := range w.enabled() {
				if a.kind == "release" {
					do(a)
					if !check() {
						return
					}
				}
			}
			do(action{kind: "tick"})
			if !check() {
				return
			}
			w.mu.Lock()
			np := len(w.pending)
			w.mu.Unlock()
			if len(w.started) == before && np == 0 {
				stable++
			} else {
				stable = 0
			}
		}
		if stable < 3 {
			fail("never-quiet", "the pool keeps changing after 200 rounds of releasing registrations and advancing time")
			return
		}
		if w.live() < c.Init {
			fail("fewer-than-init-procs-when-quiet", fmt.Sprintf("the system is quiet with %d live worker processes, --init-procs is %d", w.live(), c.Init))
			return
		}
		// the master tracks exactly the live registered children
		_, states := zns.VerifSnapshot()
		w.mu.Lock()
		for pid := range w.registered {
			if _, ok := states[pid]; ok == w.exited[pid] {
				w.mu.Unlock()
				fail("tracking-mismatch", fmt.Sprintf("child %d: exited=%v tracked=%v", pid, w.exited[pid], ok))
				return
			}
		}
		w.mu.Unlock()
	})
	return
}

// ---------------------------------------------------------------------------------------

func TestSchedules(t *testing.T) {
	replayT = t
	maxCfg := h.Scale(4, 6)
	rapid.Check(t, func(rt *rapid.T) {
		max := rapid.IntRange(1, maxCfg).Draw(rt, "max")
		init := rapid.IntRange(1, max).Draw(rt, "init")
		n := rapid.IntRange(0, 40).Draw(rt, "len")
		c := schedCase{Init: init, Max: max}
		for i := 0; i < n; i++ {
			c.Choices = append(c.Choices, rapid.IntRange(0, 23).Draw(rt, "choice"))
		}
		res := runSchedule(t, c)
		var labels []string
		if res.reportWhilePending {
			labels = append(labels, "report-before-registration")
		}
		if res.hadExit {
			labels = append(labels, "exit")
		}
		labels = append(labels, fmt.Sprintf("max-live-%d-of-%d", res.maxLive, max))
		key, _ := json.Marshal(c)
		h.R.Case(rt, "schedule", string(key), map[string]any{"init": c.Init, "max": c.Max, "choices": c.Choices, "events": res.history}, labels, res.reportWhilePending || res.hadExit, res.fails)
	})
}

// bounded-exhaustive DFS over all schedules up to a depth for the smallest configurations
func TestScheduleDFS(t *testing.T) {
	replayT = t
	depth := h.Scale(6, 8)
	shard, nsh := h.Shard(), h.NShards()
	var n, nt int64
	idx := 0
	for _, cfg := range [][2]int{{1, 1}, {1, 2}, {2, 2}} {
		var rec func(prefix []int)
		rec = func(prefix []int) {
			idx++
			mine := len(prefix) < 2 || (prefix[0]*31+prefix[1])%nsh == shard
			if !mine {
				return
			}
			c := schedCase{Init: cfg[0], Max: cfg[1], Choices: append([]int{}, prefix...)}
			res := runSchedule(t, c)
			n++
			nontrivial := res.reportWhilePending || res.hadExit
			if nontrivial {
				nt++
			}
			if len(res.fails) > 0 || n%997 == 0 {
				h.R.Case(t, "dfs", fmt.Sprint(cfg, prefix), map[string]any{"init": c.Init, "max": c.Max, "choices": c.Choices, "events": res.history}, []string{"dfs-sampled"}, nontrivial, res.fails)
			}
			if len(res.fails) > 0 || len(prefix) >= depth {
				return
			}
			// number of actions enabled after this prefix
			probe := runSchedule(t, schedCase{Init: cfg[0], Max: cfg[1], Choices: append(append([]int{}, prefix...), 0)})
			k := 1
			if len(probe.branching) > len(prefix) {
				k = probe.branching[len(prefix)]
			}
			for ch := 0; ch < k; ch++ {
				rec(append(append([]int{}, prefix...), ch))
			}
		}
		rec(nil)
	}
	h.R.AddEvals(n)
	h.R.AddDistinct(nt)
	h.R.Exhaustive("dfs", fmt.Sprintf("all schedules up to %d events for (init,max) in {(1,1),(1,2),(2,2)} (shard %d/%d)", depth, shard, nsh))
}

func TestCorpus(t *testing.T) {
	replayT = t
	h.RunCorpus(t, "c20", replay)
}
