// znrun - debug helper: run a Zn source file (or stdin) through the harness and print the outcome
package main

import (
	"fmt"
	"io"
	"os"

	h "verif/harness"
)

func main() {
	var b []byte
	if len(os.Args) > 1 {
		b, _ = os.ReadFile(os.Args[1])
	} else {
		b, _ = io.ReadAll(os.Stdin)
	}
	o := h.Run(string(b), h.Opts{})
	fmt.Println("OUTCOME:", o.Short())
	for _, l := range o.Trace {
		fmt.Println("  |", l)
	}
	if o.Display != "" {
		fmt.Println(o.Display)
	}
}
