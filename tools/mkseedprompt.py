#!/usr/bin/env python3
"""Write the prompt given to an independent sub-agent that is asked for a property-breaking
change:  tools/mkseedprompt.py CNN <worktree> [<idea to avoid> ...]  > prompt.txt
The prompt holds the property's text only (nothing about the checks in /verif)."""
import json, sys
prop, wt = sys.argv[1], sys.argv[2]
avoid = sys.argv[3:]
p = None
for l in open("/verif/properties.jsonl"):
    d = json.loads(l)
    if d["id"] == prop:
        p = d
T = """You are working in a scratch git worktree of the Go repository DemoHn/Zn ("zinc": a tree-walking interpreter for a Chinese-keyword scripting language, with a hand-written lexer, recursive-descent parser, evaluator, value types, module system and a prefork HTTP server) at WT. Work ONLY inside WT. Never read, write or run anything in /repo or /verif (do not even list them).

Environment: there is no network. In every shell call first run: export GOFLAGS=-mod=mod GOPROXY=off GOSUMDB=off GOTOOLCHAIN=local
The existing test suite is: cd WT && go test -vet=off -count=1 ./pkg/...   (the package pkg/server only builds with the build tag `verif` on Linux: `go test -tags verif ...`; without the tag its build failure is expected and must be ignored; all other packages must pass. With the tag, pkg/server's own test TestHTTPRequest_GetQueryParams_Array already fails before any change: ignore it.) The root package, cmd/* and stdlib/http do not build on Linux - ignore them.
Documentation of the language is in WT/doc/zh-cn/manual (Chinese) and the parser examples in WT/pkg/syntax/zh/ast_ok_test.go.

How to run a Zn program from Go test code (package of your choice, e.g. a new file WT/pkg/exec/seeded_demo_test.go in package exec_test or exec):
    import ( "github.com/DemoHn/Zn/pkg/exec"; r "github.com/DemoHn/Zn/pkg/runtime"; libJson "github.com/DemoHn/Zn/stdlib/json"; libFile "github.com/DemoHn/Zn/stdlib/file" )
    val, err := exec.NewInterpreter("x").SetExternalLibs([]*r.Library{libJson.Export(), libFile.Export()}).LoadScript([]rune(src)).Execute(map[string]r.Element{})
`（显示：a、b）` prints to os.Stdout; `输出 e` returns the program's value; values bound by `输入A` come from the map passed to Execute. Syntax samples: `令A = 1`, `如果A > 0：` + 4-space indented block, `每当…：`, `以K、V遍历L：`, `如何F？` + block starting with `输入P`, `（F：1、2）` calls, `以X（方法：参数）` method calls, `定义C：` + `其P = 0` + methods, `（新建C：1）`, `抛出异常：“m”！`, `拦截异常：` handler blocks at the end of a body, `导入“模块”`, lists `【1，2】`, dictionaries `【“k” = 1】`, `X#1`, `X之长度`, grouping with `{ }`.

Here is a semantic property of Zn that is supposed to hold:

PROPERTY @@ID@@ - @@TITLE@@
@@STATEMENT@@
It is quantified over: @@QUANT@@

YOUR TASK: produce ONE change to the non-test source code under WT that makes this property FALSE while
 (a) everything still compiles (incl. `go build -tags verif ./pkg/...`),
 (b) the existing test suite (command above) still passes, and
 (c) the breakage needs something SPECIFIC to manifest - a particular interleaving, a crash or fault at a particular point, a multi-step sequence of operations, an unusual input, a particular size / depth / boundary value, or two cooperating sites that each look fine alone. It must NOT be something that ordinary use (any simple program touching the feature) would expose at once.
Make it look like a plausible refactoring, optimisation or oversight a developer could really commit (no obviously malicious special-casing of magic strings; a boundary slip, a dropped copy, a cache, a reordered step, an early return, a narrowed condition, a missed case are all fine). Keep it small (a few lines to a few dozen).
@@AVOID@@
Also write a DEMONSTRATION: a Go test in a NEW file (name it *_seeded_demo_test.go, in the package directory where it fits) that FAILS with your change and PASSES without it. Verify both directions yourself WITHOUT git stash (the stash is shared with sibling worktrees used by other people): `git diff -- <changed source files> > /tmp/my-change-@@ID@@-@@TAG@@.patch; git apply -R /tmp/my-change-@@ID@@-@@TAG@@.patch; <run the demo: must pass>; git apply /tmp/my-change-@@ID@@-@@TAG@@.patch; <run the demo: must fail>`.

When you are done, leave the source change applied (uncommitted) in the worktree together with the demo test file, do not commit anything, and reply with:
 1. the list of changed source files and the demo file path,
 2. the exact command that runs the demo,
 3. what specific condition is needed for the breakage to manifest (inputs / sequence / boundary), and why ordinary use does not hit it,
 4. confirmation that the existing suite passes with the change, that the demo fails with it and passes without it,
 5. (optional, valuable) anything you noticed while working where the UNCHANGED code already behaves contrary to the property text - give the minimal program / input and what happens. Do not go hunting for long; just report what you came across.
"""
av = ""
if avoid:
    av = "Other people have already tried the following ideas for this property; pick a DIFFERENT part of the property and a different mechanism:\n" + "".join(" - %s\n" % a for a in avoid)
tag = wt.rstrip("/").split("-")[-1]
print(T.replace("WT", wt).replace("@@ID@@", p["id"]).replace("@@TAG@@", tag).replace("@@TITLE@@", p["title"]).replace("@@STATEMENT@@", p["statement"]).replace("@@QUANT@@", p["quantifier"]["text"]).replace("@@AVOID@@\n", av))
