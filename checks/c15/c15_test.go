// C15 - modules load once, export read-only names, and cycles are reported
package c15

import (
	"encoding/json"
	"fmt"
	"os"
	"path/filepath"
	"sort"
	"strings"
	"testing"

	"github.com/DemoHn/Zn/pkg/exec"
	r "github.com/DemoHn/Zn/pkg/runtime"
	"pgregory.net/rapid"

	h "verif/harness"
)

var tmpRoot string

func TestMain(m *testing.M) {
	d, err := os.MkdirTemp("", "verif-c15-*")
	if err != nil {
		panic(err)
	}
	tmpRoot = d
	h.AtExit(func() { os.RemoveAll(d) })
	h.Main(m, "C15", replay)
}

// graphCase - modules named by Names[i]; Edges[i] = ordered list of modules imported by i
// (index 0 is the main program). Probe = what main does after its imports.
type graphCase struct {
	Names  []string   `json:"names"`
	Edges  [][]int    `json:"edges"`
	Select [][]string `json:"select,omitempty"` // Select[i][k]: "" = whole module, else "、"-joined item list for edge k of module i
	Probe  string     `json:"probe,omitempty"`  // extra statements appended to main
	Files  bool       `json:"files,omitempty"`  // real directory tree + LoadFile instead of the in-memory finder
	Expect string     `json:"expect,omitempty"` // for probes: "ok:<trace suffix>" | "error"
	Bare   []int      `json:"bare,omitempty"`   // modules (0 = main) whose file holds 导入 lines only
	Extra  string     `json:"extra,omitempty"`  // one more import line of main (after the others)
	Libs   []string   `json:"libs,omitempty"`   // Libs[i]: library import line of file i ("" = none), written before its module imports
}

func (c *graphCase) lib(i int) string {
	if i < len(c.Libs) {
		return c.Libs[i]
	}
	return ""
}

func (c *graphCase) bare(i int) bool {
	for _, b := range c.Bare {
		if b == i {
			return true
		}
	}
	return false
}

func replay(sub string, raw json.RawMessage) ([]h.Failure, error) {
	if sub == "lone" {
		var c loneCase
		if err := json.Unmarshal(raw, &c); err != nil {
			return nil, err
		}
		return checkLone(c), nil
	}
	if sub == "conflict" {
		var c conflictCase
		if err := json.Unmarshal(raw, &c); err != nil {
			return nil, err
		}
		return checkConflict(c), nil
	}
	if sub == "owndef" {
		var c ownDefCase
		if err := json.Unmarshal(raw, &c); err != nil {
			return nil, err
		}
		return checkOwnDef(c), nil
	}
	var c graphCase
	if err := json.Unmarshal(raw, &c); err != nil {
		return nil, err
	}
	return checkGraph(&c), nil
}

func fnName(mod string, k int) string {
	return fmt.Sprintf("%s法%d", strings.ReplaceAll(mod, "-", ""), k)
}
func clsName(mod string) string { return strings.ReplaceAll(mod, "-", "") + "型" }

// moduleSource - body of module i
func moduleSource(c *graphCase, i int) string {
	var b strings.Builder
	if l := c.lib(i); l != "" {
		// a registered library may be imported by any number of files of one program
		b.WriteString(l + "\n")
	}
	for k, j := range c.Edges[i] {
		b.WriteString("导入“" + c.Names[j] + "”")
		if len(c.Select) > i && len(c.Select[i]) > k && c.Select[i][k] != "" {
			b.WriteString("之" + c.Select[i][k])
		}
		b.WriteString("\n")
	}
	if i == 0 && c.Extra != "" {
		b.WriteString(c.Extra + "\n")
	}
	if c.bare(i) {
		// nothing but imports (a comment and a blank line are no statements)
		b.WriteString("注：本文件只有导入\n\n")
		return b.String()
	}
	if c.lib(i) != "" {
		// ... and every importer can use it
		b.WriteString(fmt.Sprintf("令库果%d = （生成JSON：【“a” = %d】）\n", i, i))
	}
	if i == 0 {
		b.WriteString("（显示：“run-main”）\n")
		// call the second method (which uses its sibling and its module's type) of every
		// module imported as a whole
		for k, j := range c.Edges[0] {
			if len(c.Select) > 0 && len(c.Select[0]) > k && c.Select[0][k] != "" {
				continue
			}
			if c.bare(j) {
				continue
			}
			b.WriteString("（显示：“call”、（" + fnName(c.Names[j], 2) + "））\n")
		}
		b.WriteString(c.Probe)
		b.WriteString("输出“done”\n")
		return b.String()
	}
	n := c.Names[i]
	b.WriteString("（显示：“run-" + n + "”）\n")
	b.WriteString("如何" + fnName(n, 1) + "？\n    输出“" + n + "-1”\n")
	b.WriteString("如何" + fnName(n, 2) + "？\n    令物 = （新建" + clsName(n) + "）\n    输出【（" + fnName(n, 1) + "），物之名】\n")
	b.WriteString("如何" + fnName(n, 3) + "？\n    输出（新建" + clsName(n) + "）\n")
	b.WriteString("如何" + fnName(n, 4) + "？\n    " + fnName(n, 1) + " = 5\n    输出“改了”\n")
	b.WriteString("如何" + fnName(n, 5) + "？\n    " + clsName(n) + " = 5\n    输出“改了”\n")
	b.WriteString("定义" + clsName(n) + "：\n    其名 = “" + n + "-obj”\n    如何报？\n        输出其名\n")
	b.WriteString("令局部" + fmt.Sprint(i) + " = 1\n")
	return b.String()
}

var sharedInterp = exec.NewInterpreter("verif").SetExternalLibs(h.Libs())

func reach(c *graphCase) (reachable []bool, cyclic bool) {
	n := len(c.Names)
	reachable = make([]bool, n)
	color := make([]int, n)
	var dfs func(u int)
	dfs = func(u int) {
		reachable[u] = true
		color[u] = 1
		for _, v := range c.Edges[u] {
			if color[v] == 1 {
				cyclic = true
			} else if color[v] == 0 {
				dfs(v)
			}
		}
		color[u] = 2
	}
	dfs(0)
	return
}

func run(c *graphCase) *h.Outcome {
	mainSrc := moduleSource(c, 0)
	mods := map[string]string{}
	for i := 1; i < len(c.Names); i++ {
		mods[c.Names[i]] = moduleSource(c, i)
	}
	if !c.Files {
		return h.Run(mainSrc, h.Opts{Modules: mods, EvalTicks: 200000})
	}
	// real directory tree: name "a-b-c" -> a/b/c.zn under the main file's directory
	dir, _ := os.MkdirTemp(tmpRoot, "tree-*")
	defer os.RemoveAll(dir)
	os.WriteFile(filepath.Join(dir, "main.zn"), []byte(mainSrc), 0o644)
	for n, s := range mods {
		parts := strings.Split(n, "-")
		p := filepath.Join(append([]string{dir}, parts...)...) + ".zn"
		os.MkdirAll(filepath.Dir(p), 0o755)
		os.WriteFile(p, []byte(s), 0o644)
	}
	// an earlier run of the same interpreter object, from ANOTHER directory that holds modules
	// of the same names with other contents (every case carries its own history this way)
	decoy, _ := os.MkdirTemp(tmpRoot, "decoy-*")
	defer os.RemoveAll(decoy)
	var dmain strings.Builder
	for n := range mods {
		parts := strings.Split(n, "-")
		p := filepath.Join(append([]string{decoy}, parts...)...) + ".zn"
		os.MkdirAll(filepath.Dir(p), 0o755)
		os.WriteFile(p, []byte("如何诱饵？\n    输出0\n"), 0o644)
		dmain.WriteString("导入“" + n + "”之诱饵\n")
	}
	os.WriteFile(filepath.Join(decoy, "main.zn"), []byte(dmain.String()+"输出1\n"), 0o644)
	exec.VerifTicks, exec.VerifTickBudget, exec.VerifMaxDepth, exec.VerifDepth = 0, 200000, 2000, 0
	h.Capture(func() {
		h.Guard(func() { sharedInterp.LoadFile(filepath.Join(decoy, "main.zn")).Execute(r.ElementMap{}) })
	})
	o := &h.Outcome{}
	var val r.Element
	var err error
	var kind, msg, site string
	exec.VerifTicks, exec.VerifTickBudget, exec.VerifMaxDepth, exec.VerifDepth = 0, 200000, 2000, 0
	out := h.Capture(func() {
		kind, msg, site = h.Guard(func() {
			// ONE interpreter object runs all file-mode programs of this process, each from its
			// own directory (the same module names with other contents): a run resolves its
			// modules below ITS main file, as the files are at that time
			val, err = sharedInterp.LoadFile(filepath.Join(dir, "main.zn")).Execute(r.ElementMap{})
		})
	})
	exec.VerifTickBudget, exec.VerifMaxDepth = 0, 0
	if out != "" {
		o.Trace = strings.Split(strings.TrimSuffix(out, "\n"), "\n")
	}
	switch {
	case kind != "":
		o.Kind, o.PanicMsg, o.PanicSite = kind, msg, site
	case err != nil:
		h.ClassifyErr(o, err)
		o.Display = exec.DisplayError(err)
	default:
		h.FillValue(o, val)
	}
	return o
}

func describe(c *graphCase) string {
	var b strings.Builder
	for i := range c.Names {
		name := "main"
		if i > 0 {
			name = c.Names[i]
		}
		var ts []string
		for k, j := range c.Edges[i] {
			t := c.Names[j]
			if len(c.Select) > i && len(c.Select[i]) > k && c.Select[i][k] != "" {
				t += "{" + c.Select[i][k] + "}"
			}
			ts = append(ts, t)
		}
		fmt.Fprintf(&b, "%s -> [%s]; ", name, strings.Join(ts, " "))
	}
	if c.Files {
		b.WriteString("(real files) ")
	}
	return b.String() + "\nmain program:\n" + moduleSource(c, 0)
}

func isCycleError(o *h.Outcome) bool {
	return o.Kind == h.KError && (o.ErrCode == 63 || strings.Contains(o.Display, "[63]"))
}

func checkGraph(c *graphCase) []h.Failure {
	o := run(c)
	desc := "import graph " + describe(c)
	switch o.Kind {
	case h.KPanic:
		return []h.Failure{{Sig: "modules/go-panic@" + o.PanicSite, Msg: desc + "\nGo panic: " + o.PanicMsg}}
	case h.KBudget:
		return []h.Failure{{Sig: "modules/does-not-terminate", Msg: desc + "\n" + o.PanicMsg}}
	case h.KNil:
		return []h.Failure{{Sig: "modules/nil-result", Msg: desc}}
	}
	reachable, cyclic := reach(c)
	count := map[string]int{}
	pos := map[string]int{}
	for i, ln := range o.Trace {
		if strings.HasPrefix(ln, "run-") {
			count[ln[4:]]++
			if _, ok := pos[ln[4:]]; !ok {
				pos[ln[4:]] = i
			}
		}
	}
	for name, n := range count {
		if n > 1 {
			return []h.Failure{{Sig: "modules/body-ran-twice", Msg: fmt.Sprintf("%s\nthe body of %s ran %d times\ntrace: %v\noutcome: %s", desc, name, n, o.Trace, o.Short())}}
		}
	}
	if cyclic {
		if !isCycleError(o) {
			return []h.Failure{{Sig: "modules/cycle-not-reported", Msg: fmt.Sprintf("%s\na cycle is reachable from main; expected the circular-dependency error (63), got %s\ntrace: %v", desc, o.Short(), o.Trace)}}
		}
		return nil
	}
	if isCycleError(o) {
		return []h.Failure{{Sig: "modules/false-cycle", Msg: fmt.Sprintf("%s\nno cycle is reachable but a circular dependency is reported:\n%s", desc, o.Display)}}
	}
	if strings.HasPrefix(c.Expect, "ok-or-import-error:") {
		// listing a name the module does not export: whether that is an error is not stated;
		// if the import is accepted, every exported name of the list must be bound
		ranMain := false
		for _, ln := range o.Trace {
			if ln == "run-main" {
				ranMain = true
			}
		}
		if o.Kind == h.KError && !ranMain {
			return nil
		}
		c2 := *c
		c2.Expect = "ok:" + strings.TrimPrefix(c.Expect, "ok-or-import-error:")
		c = &c2
	}
	if strings.HasPrefix(c.Expect, "error-or-ok:") {
		if o.Kind == h.KError {
			return nil
		}
		c2 := *c
		c2.Expect = "ok:" + strings.TrimPrefix(c.Expect, "error-or-ok:")
		c = &c2
	}
	if c.Expect == "import-error" {
		// the program must be rejected while its imports are loaded (no body ran twice: above)
		if o.Kind != h.KError {
			return []h.Failure{{Sig: "modules/import-accepted", Msg: fmt.Sprintf("%s\nthe import %s must be rejected; got %s\ntrace: %v", desc, c.Extra, o.Short(), o.Trace)}}
		}
		return nil
	}
	if c.Expect == "error" {
		if o.Kind != h.KError {
			return []h.Failure{{Sig: "modules/probe-error-expected", Msg: fmt.Sprintf("%s\nthe probe must fail; got %s\ntrace: %v", desc, o.Short(), o.Trace)}}
		}
	} else if c.bare(0) && o.Kind == h.KValue && o.ValType != "null" {
		return []h.Failure{{Sig: "modules/import-only-main-value", Msg: fmt.Sprintf("%s\na main file of imports only yields 空; got %s", desc, o.Short())}}
	} else if o.Kind != h.KValue {
		return []h.Failure{{Sig: "modules/unexpected-error", Msg: fmt.Sprintf("%s\nacyclic graph: expected a normal run, got %s\n%s\ntrace: %v", desc, o.Short(), o.Display, o.Trace)}}
	}
	// (1) each reachable module body exactly once, unreachable never
	for i := 1; i < len(c.Names); i++ {
		n := count[c.Names[i]]
		if c.bare(i) {
			continue // displays nothing
		}
		if reachable[i] && n != 1 {
			return []h.Failure{{Sig: "modules/reachable-body-not-run", Msg: fmt.Sprintf("%s\nmodule %s is imported (transitively) but its body ran %d times\ntrace: %v", desc, c.Names[i], n, o.Trace)}}
		}
		if !reachable[i] && n != 0 {
			return []h.Failure{{Sig: "modules/unreachable-body-ran", Msg: fmt.Sprintf("%s\nmodule %s is not imported but its body ran", desc, c.Names[i])}}
		}
	}
	// (2) imported module bodies run before the importer's own statements
	for i := range c.Names {
		if !reachable[i] {
			continue
		}
		in := "main"
		if i > 0 {
			in = c.Names[i]
		}
		if c.bare(i) {
			continue
		}
		// (what an import-only module imports counts as imported by its importers)
		var deps []int
		seen := map[int]bool{}
		var through func(u int)
		through = func(u int) {
			for _, j := range c.Edges[u] {
				if seen[j] {
					continue
				}
				seen[j] = true
				if c.bare(j) {
					through(j)
				} else {
					deps = append(deps, j)
				}
			}
		}
		through(i)
		for _, j := range deps {
			if pos[c.Names[j]] > pos[in] {
				return []h.Failure{{Sig: "modules/importer-ran-first", Msg: fmt.Sprintf("%s\n%s imports %s, but %s's body ran after %s's statements started\ntrace: %v", desc, in, c.Names[j], c.Names[j], in, o.Trace)}}
			}
		}
	}
	// (3) calls through whole-module imports return what the home module defines
	var wantCalls []string
	for k, j := range c.Edges[0] {
		if len(c.Select) > 0 && len(c.Select[0]) > k && c.Select[0][k] != "" {
			continue
		}
		if c.bare(j) || c.bare(0) {
			continue
		}
		wantCalls = append(wantCalls, fmt.Sprintf("call [%s-1，%s-obj]", c.Names[j], c.Names[j]))
	}
	var gotCalls []string
	for _, ln := range o.Trace {
		if strings.HasPrefix(ln, "call ") {
			gotCalls = append(gotCalls, ln)
		}
	}
	if strings.Join(gotCalls, "|") != strings.Join(wantCalls, "|") {
		return []h.Failure{{Sig: "modules/imported-call-wrong", Msg: fmt.Sprintf("%s\nexpected imported calls %v, got %v\noutcome %s", desc, wantCalls, gotCalls, o.Short())}}
	}
	if strings.HasPrefix(c.Expect, "ok:") {
		want := strings.TrimPrefix(c.Expect, "ok:")
		found := false
		for _, ln := range o.Trace {
			if ln == want {
				found = true
			}
		}
		if !found {
			return []h.Failure{{Sig: "modules/probe-output", Msg: fmt.Sprintf("%s\nexpected the probe to display %q\ntrace: %v", desc, want, o.Trace)}}
		}
	}
	return nil
}

// ---------------------------------------------------------------------------------------

var modNames = []string{"", "甲", "乙", "丙", "丁", "戊", "己"}

// graphFromBits - main may import any module; every module may import any module (incl. itself)
func graphFromBits(k int, bits uint64) *graphCase {
	c := &graphCase{Names: modNames[:k+1], Edges: make([][]int, k+1)}
	b := 0
	for j := 1; j <= k; j++ {
		if bits>>uint(b)&1 == 1 {
			c.Edges[0] = append(c.Edges[0], j)
		}
		b++
	}
	for i := 1; i <= k; i++ {
		for j := 1; j <= k; j++ {
			if bits>>uint(b)&1 == 1 {
				c.Edges[i] = append(c.Edges[i], j)
			}
			b++
		}
	}
	return c
}

func labelsOf(c *graphCase) ([]string, bool) {
	reachable, cyclic := reach(c)
	indeg := map[int]int{}
	for i := range c.Names {
		if reachable[i] {
			for _, j := range c.Edges[i] {
				indeg[j]++
			}
		}
	}
	diamond := false
	for _, d := range indeg {
		if d >= 2 {
			diamond = true
		}
	}
	var labels []string
	if cyclic {
		labels = append(labels, "cycle-reachable")
	} else {
		labels = append(labels, "acyclic")
	}
	if diamond {
		labels = append(labels, "shared-dependency")
	}
	sibling := len(c.Edges[0]) > 0
	return labels, cyclic || diamond || sibling
}

func TestAllGraphs(t *testing.T) {
	k := h.Scale(3, 4)
	nbits := uint(k + k*k)
	total := uint64(1) << nbits
	shard, nsh := uint64(h.Shard()), uint64(h.NShards())
	var nt, n int64
	for bits := shard; bits < total; bits += nsh {
		c := graphFromBits(k, bits)
		if bits%3 == 1 {
			for i := 0; i <= k; i++ {
				c.Libs = append(c.Libs, []string{"导入《@JSON》", "导入《@JSON》之生成JSON", "导入《@JSON》的生成JSON、解析JSON"}[(int(bits)+i)%3])
			}
		}
		fails := checkGraph(c)
		labels, nontrivial := labelsOf(c)
		if c.Libs != nil {
			labels = append(labels, "library-imported-by-every-file")
		}
		n++
		if nontrivial {
			nt++
		}
		if len(fails) > 0 || bits%4099 == 0 {
			h.R.Case(t, "graphs", fmt.Sprint(bits), c, labels, nontrivial, fails)
		} else {
			for _, l := range labels {
				h.R.Count(l, 1)
			}
		}
	}
	h.R.AddEvals(n)
	h.R.AddDistinct(nt)
	h.R.Exhaustive("graphs", fmt.Sprintf("all %d import graphs on main + %d modules (shard %d/%d)", total, k, shard, nsh))
}

func TestRandomGraphs(t *testing.T) {
	rapid.Check(t, func(t *rapid.T) {
		k := rapid.IntRange(2, 6).Draw(t, "k")
		names := append([]string{""}, rapid.Permutation([]string{"甲", "乙", "丙", "丁", "戊", "库-子-叶", "库-旁", "主模块"}).Draw(t, "names")[:k]...)
		c := &graphCase{Names: names, Edges: make([][]int, k+1), Select: make([][]string, k+1)}
		cyclicWanted := rapid.IntRange(0, 3).Draw(t, "cyc") == 0
		for i := 0; i <= k; i++ {
			var targets []int
			for j := 1; j <= k; j++ {
				if !cyclicWanted && j <= i {
					continue // edges only towards higher indices: acyclic
				}
				p := 3
				if i == 0 {
					p = 2
				}
				if rapid.IntRange(0, p).Draw(t, "edge") == 0 {
					targets = append(targets, j)
				}
			}
			targets = rapid.Permutation(targets).Draw(t, "order")
			c.Edges[i] = targets
			c.Select[i] = make([]string, len(targets))
			// selective imports between modules (main's are set by the probes below)
			for k := range targets {
				if i > 0 && rapid.IntRange(0, 3).Draw(t, "selective") == 0 {
					c.Select[i][k] = fnName(names[targets[k]], 1)
				}
			}
		}
		c.Files = rapid.IntRange(0, 9).Draw(t, "files") == 0
		labels, nt := labelsOf(c)
		if rapid.Bool().Draw(t, "anylib") {
			c.Libs = make([]string, k+1)
			nl := 0
			for i := range c.Libs {
				c.Libs[i] = rapid.SampledFrom([]string{"", "导入《@JSON》", "导入《@JSON》之生成JSON", "导入《@JSON》的解析JSON、生成JSON"}).Draw(t, "lib")
				if c.Libs[i] != "" {
					nl++
				}
			}
			if nl >= 2 {
				labels = append(labels, "library-imported-by-several-files")
			}
		}
		_, cyclic := reach(c)
		// files that hold nothing but 导入 lines: their imports are loaded (and cycles through
		// them reported) all the same. The module the probes below use keeps its body
		if rapid.IntRange(0, 3).Draw(t, "anybare") == 0 {
			for i := 0; i <= k; i++ {
				if len(c.Edges[i]) == 0 || (len(c.Edges[0]) > 0 && i == c.Edges[0][0]) {
					continue
				}
				if rapid.IntRange(0, 2).Draw(t, "bare") == 0 {
					c.Bare = append(c.Bare, i)
				}
			}
			for i := range c.Edges {
				for e, j := range c.Edges[i] {
					if c.bare(j) {
						c.Select[i][e] = "" // it exports nothing that could be listed
					}
				}
			}
			if len(c.Bare) > 0 {
				labels = append(labels, "import-only-file")
				nt = true
				if c.bare(0) {
					labels = append(labels, "import-only-main")
				}
			}
		}
		// probes on acyclic graphs with at least one import in main
		if !cyclic && len(c.Edges[0]) > 0 && !c.bare(0) {
			m := c.Names[c.Edges[0][0]]
			dup := false
			for _, j := range c.Edges[0][1:] {
				if c.Names[j] == m {
					dup = true
				}
			}
			switch rapid.IntRange(0, 20).Draw(t, "probe") {
			case 19, 20: // the same module imported twice by one file, each time for other names: its
				// body runs once, and the names of BOTH lists are available
				if !dup {
					c.Select[0][0] = fnName(m, 1)
					c.Extra = "导入“" + m + "”之" + fnName(m, 3) + "、" + clsName(m)
					c.Probe = "（显示：“two”、（" + fnName(m, 1) + "）、{以（" + fnName(m, 3) + "）（报）}、（新建" + clsName(m) + "）之名）\n"
					c.Expect = "ok:two " + m + "-1 " + m + "-obj " + m + "-obj"
					labels = append(labels, "probe:one-module-imported-twice-for-other-names")
				}
			case 17, 18: // a second spelling of a nested module's path is not a second name of it
				for _, j := range c.Edges[0] {
					if strings.Contains(c.Names[j], "-") {
						alt := strings.Replace(c.Names[j], "-", "/", 1)
						if rapid.Bool().Draw(t, "dotdot") {
							parts := strings.Split(c.Names[j], "-")
							alt = parts[0] + "-..-" + c.Names[j]
						}
						c.Extra = "导入“" + alt + "”"
						c.Expect = "import-error"
						labels = append(labels, "probe:second-spelling-of-a-module-path")
						break
					}
				}
			case 15, 16: // an imported method reached through another name (a variable, an input of a
				// method of main) still behaves as inside its own module: it finds its sibling
				// method and its module's type although main imported neither
				if !dup {
					c.Select[0][0] = fnName(m, 2)
					if rapid.Bool().Draw(t, "via-input") {
						c.Probe = "如何转手？\n    输入某法\n    输出（某法）\n（显示：“alias”、（转手：" + fnName(m, 2) + "））\n"
					} else {
						c.Probe = "令别名 = " + fnName(m, 2) + "\n（显示：“alias”、（别名））\n"
					}
					c.Expect = "ok:alias [" + m + "-1，" + m + "-obj]"
					labels = append(labels, "probe:imported-method-through-another-name")
				}
			case 0: // assignment to an imported name
				c.Probe = fnName(m, 1) + " = 5\n"
				c.Expect = "error"
				labels = append(labels, "probe:assign-imported")
			case 1: // selective import binds exactly the listed names
				if !dup {
					c.Select[0][0] = fnName(m, 1)
					c.Probe = "（显示：“sel”、（" + fnName(m, 1) + "））\n"
					c.Expect = "ok:sel " + m + "-1"
					labels = append(labels, "probe:selective-listed")
				}
			case 2:
				if !dup {
					c.Select[0][0] = fnName(m, 1)
					c.Probe = "（显示：“sel”、（" + fnName(m, 2) + "））\n"
					c.Expect = "error"
					labels = append(labels, "probe:selective-unlisted")
				}
			case 3: // a module's plain variables are not exported
				c.Probe = fmt.Sprintf("（显示：“loc”、局部%d）\n", c.Edges[0][0])
				c.Expect = "error"
				labels = append(labels, "probe:variable-not-exported")
			case 4: // names of a module imported only by another module are not visible in main
				for i := 1; i <= k; i++ {
					direct := false
					for _, j := range c.Edges[0] {
						if j == i {
							direct = true
						}
					}
					r0, _ := reach(c)
					if !direct && r0[i] {
						c.Probe = "（显示：“tr”、（" + fnName(c.Names[i], 1) + "））\n"
						c.Expect = "error"
						labels = append(labels, "probe:transitive-not-visible")
						break
					}
				}
			case 6, 7, 8: // selective import with a list of several names (any order), possibly
				// naming things the module does not export: every exported name of the list
				// must be available (unless the import itself is rejected)
				if !dup {
					type item struct{ name, use, shows string }
					pool := []item{
						{fnName(m, 1), "（" + fnName(m, 1) + "）", m + "-1"},
						{fnName(m, 2), "（" + fnName(m, 2) + "）", "[" + m + "-1，" + m + "-obj]"},
						{clsName(m), "（新建" + clsName(m) + "）之名", m + "-obj"},
						{fmt.Sprintf("局部%d", c.Edges[0][0]), "", ""},
						{"无此名", "", ""},
						{"丁无", "", ""},
					}
					perm := rapid.Permutation(pool).Draw(t, "sel-perm")
					n := rapid.IntRange(2, 5).Draw(t, "sel-n")
					var names, uses, shows []string
					unknown := false
					for _, it := range perm[:n] {
						names = append(names, it.name)
						if it.use != "" {
							uses = append(uses, it.use)
							shows = append(shows, it.shows)
						} else {
							unknown = true
						}
					}
					if len(uses) > 0 {
						c.Select[0][0] = strings.Join(names, "、")
						c.Probe = "（显示：“sel”、" + strings.Join(uses, "、") + "）\n"
						c.Expect = "ok:sel " + strings.Join(shows, " ")
						if unknown {
							c.Expect = "ok-or-import-error:sel " + strings.Join(shows, " ")
							labels = append(labels, "probe:selective-list-with-unknown-name")
						} else {
							labels = append(labels, "probe:selective-list")
						}
					}
				}
			case 11, 12: // a method of the module assigning to a method / type name of its OWN module,
				// called after the module's body has ended: definitions stay read-only
				k := 4 + rapid.IntRange(0, 1).Draw(t, "ownkind")
				c.Probe = "（显示：“own”、（" + fnName(m, k) + "））\n"
				c.Expect = "error"
				labels = append(labels, "probe:module-assigns-own-definition")
			case 9: // an object handed out by an imported method is usable where its type is NOT imported
				if !dup {
					c.Select[0][0] = fnName(m, 3)
					c.Probe = "令物 = （" + fnName(m, 3) + "）\n（显示：“obj”、{以物（报）}、物之名）\n"
					c.Expect = "ok:obj " + m + "-obj " + m + "-obj"
					labels = append(labels, "probe:object-of-unimported-type")
				}
			case 10: // an importer declaring a constructor for an imported type: rejected, or at
				// least without effect on how the exporting module creates its own objects
				c.Probe = "如何新建" + clsName(m) + "？\n    其名 = “篡改”\n令造物 = （" + fnName(m, 3) + "）\n（显示：“made”、{以造物（报）}）\n"
				c.Expect = "error-or-ok:made " + m + "-obj"
				labels = append(labels, "probe:constructor-for-imported-type")
			case 5: // the module's type is usable from main
				c.Probe = "（显示：“ty”、（新建" + clsName(m) + "）之名）\n"
				c.Expect = "ok:ty " + m + "-obj"
				labels = append(labels, "probe:imported-type")
			}
		}
		key, _ := json.Marshal(c)
		h.R.Case(t, "random", string(key), c, labels, nt, checkGraph(c))
	})
}

type ownDefCase struct {
	Main    string            `json:"main"`
	Modules map[string]string `json:"modules"`
	Names   []string          `json:"names"`
	Probe   string            `json:"probe"`
}

func checkOwnDef(c ownDefCase) []h.Failure {
	o := h.Run(c.Main, h.Opts{Modules: c.Modules})
	want := "[" + c.Probe + "-共，" + c.Probe + "-共型]"
	var fails []h.Failure
	if o.Kind != h.KValue || o.ValText != want {
		desc := "main:\n" + c.Main
		for _, m := range c.Names {
			desc += "--- module " + m + ":\n" + c.Modules[m]
		}
		fails = append(fails, h.Failure{Sig: "modules/own-definition-replaced-by-import", Msg: fmt.Sprintf("%s\n（%s用） must use the definitions of module %s itself: expected %s, got %s", desc, c.Probe, c.Probe, want, o.Short())})
	}
	for _, m := range c.Names {
		wantLoad := "载入 [" + m + "-共，" + m + "-共型]"
		if strings.Contains(c.Modules[m], "载入") && o.Kind == h.KValue {
			found := false
			for _, ln := range o.Trace {
				if ln == wantLoad {
					found = true
				}
			}
			if !found && len(fails) == 0 {
				fails = append(fails, h.Failure{Sig: "modules/own-definition-while-loading", Msg: fmt.Sprintf("module %s did not display %q while loading; trace %v", m, wantLoad, o.Trace)})
			}
		}
	}
	return fails
}

// TestOwnDefinitionVsImport - modules along a chain that all define a method and a type of the
// same names and import each other (as a whole or selectively): a method of a module uses the
// module's OWN definitions, also when it is called by an importer after the body has ended
func TestOwnDefinitionVsImport(t *testing.T) {
	rapid.Check(t, func(t *rapid.T) {
		n := rapid.IntRange(2, 4).Draw(t, "chain")
		names := []string{"甲", "乙", "丙", "丁"}[:n]
		mods := map[string]string{}
		for i, m := range names {
			var b strings.Builder
			if i+1 < n {
				switch rapid.IntRange(0, 2).Draw(t, "import-"+m) {
				case 0:
					b.WriteString("导入“" + names[i+1] + "”\n")
				case 1:
					b.WriteString("导入“" + names[i+1] + "”之共法\n")
				default:
					b.WriteString("导入“" + names[i+1] + "”之共型、共法\n")
				}
			}
			b.WriteString("如何共法？\n    输出“" + m + "-共”\n")
			b.WriteString("定义共型：\n    其名 = “" + m + "-共型”\n")
			b.WriteString("如何" + m + "用？\n    输出【（共法），（新建共型）之名】\n")
			if rapid.Bool().Draw(t, "body-use-"+m) {
				b.WriteString("（显示：“载入”、（" + m + "用））\n")
			}
			mods[m] = b.String()
		}
		k := rapid.IntRange(0, n-1).Draw(t, "probe-module")
		var main strings.Builder
		for i := 0; i <= k; i++ {
			// main imports the probed module (selectively: only its 用 method) and every module before it
			main.WriteString("导入“" + names[i] + "”之" + names[i] + "用\n")
		}
		main.WriteString("输出（" + names[k] + "用）\n")
		c := ownDefCase{Main: main.String(), Modules: mods, Names: names, Probe: names[k]}
		fails := checkOwnDef(c)
		key, _ := json.Marshal(c)
		h.R.Case(t, "owndef", string(key), c, []string{fmt.Sprintf("chain-%d", n)}, true, fails)
	})
}

// missing module / library
func TestMissing(t *testing.T) {
	cases := []struct{ src, what string }{
		{"导入“不存在”\n输出1", "missing module"},
		{"导入《@不存在库》\n输出1", "missing library"},
		{"导入“甲-不存在”\n输出1", "missing nested module"},
		{"导入“不存在”\n", "missing module, main file of imports only"},
		{"导入《@不存在库》\n注：仅此", "missing library, main file of imports only"},
		{"导入“乙”\n输出1", "missing module behind a module of imports only"},
		{"导入“丙”\n输出1", "missing library behind a module of imports only"},
		{"导入“乙”", "missing module behind a module of imports only, main of imports only"},
	}
	for _, cs := range cases {
		o := h.Run(cs.src, h.Opts{Modules: map[string]string{"甲": "（显示：1）", "乙": "导入“不存在”\n注：只有导入", "丙": "导入《@不存在库》\n"}})
		var fails []h.Failure
		if o.Kind != h.KError {
			fails = append(fails, h.Failure{Sig: "modules/missing-accepted", Msg: fmt.Sprintf("%s: %q must be an error, got %s", cs.what, cs.src, o.Short())})
		}
		h.R.Case(t, "missing", cs.src, map[string]string{"src": cs.src}, []string{"missing"}, false, fails)
	}
	// libraries resolve to the registered library
	o := h.Run("导入《@JSON》\n输出（生成JSON：【“a” = 1】）", h.Opts{})
	var fails []h.Failure
	if o.Kind != h.KValue || o.ValText != `{"a":1}` {
		fails = append(fails, h.Failure{Sig: "modules/library-import", Msg: "导入《@JSON》 then 生成JSON: " + o.Short()})
	}
	h.R.Case(t, "missing", "lib", map[string]string{"src": "lib"}, []string{"library"}, false, fails)
	_ = sort.Strings
}

func TestCorpus(t *testing.T) { h.RunCorpus(t, "c15", replay) }
