package c14

// Numeric directives against an oracle that shares no code with the implementation: CPython's
// float formatting (lib/pyoracle.py, op fmtnum). The reference in c14_test.go uses Go's strconv,
// the same library the interpreter's fmt-based rendering ends in; this sub-check removes that
// common cause.

import (
	"bufio"
	"encoding/hex"
	"encoding/json"
	"fmt"
	"io"
	"math"
	"os"
	"os/exec"
	"testing"

	r "github.com/DemoHn/Zn/pkg/runtime"
	"github.com/DemoHn/Zn/pkg/value"
	"pgregory.net/rapid"
	h "verif/harness"
	"verif/zn"
)

type pyOracle struct {
	in  io.WriteCloser
	out *bufio.Reader
}

var py *pyOracle

func oracle() *pyOracle {
	if py != nil {
		return py
	}
	root := os.Getenv("VERIF_ROOT")
	if root == "" {
		root = "/verif"
	}
	cmd := exec.Command("python3", root+"/lib/pyoracle.py")
	in, _ := cmd.StdinPipe()
	out, _ := cmd.StdoutPipe()
	cmd.Stderr = os.Stderr
	if err := cmd.Start(); err != nil {
		panic("cannot start the python oracle: " + err.Error())
	}
	py = &pyOracle{in: in, out: bufio.NewReaderSize(out, 1<<16)}
	return py
}

func (p *pyOracle) fmtnum(f float64, spec string, scale100 bool) (string, error) {
	var buf [8]byte
	bits := math.Float64bits(f)
	for i := 0; i < 8; i++ {
		buf[i] = byte(bits >> (56 - 8*i))
	}
	req, _ := json.Marshal(map[string]any{"op": "fmtnum", "b": hex.EncodeToString(buf[:]), "spec": spec, "scale100": scale100})
	p.in.Write(append(req, '\n'))
	line, err := p.out.ReadBytes('\n')
	if err != nil {
		panic("python oracle died: " + err.Error())
	}
	var resp struct {
		OK   bool   `json:"ok"`
		Text []int  `json:"text"`
		Err  string `json:"err"`
	}
	if err := json.Unmarshal(line, &resp); err != nil {
		panic("python oracle: bad response " + string(line))
	}
	if !resp.OK {
		return "", fmt.Errorf("%s", resp.Err)
	}
	out := make([]rune, len(resp.Text))
	for i, c := range resp.Text {
		out[i] = rune(c)
	}
	return string(out), nil
}

type pyCase struct {
	Bits uint64 `json:"bits"`
	Plus bool   `json:"plus"`
	Prec int    `json:"prec"` // -1: none
	Suf  string `json:"suf"`  // "" | "%" | "E"
}

func (c pyCase) directive() string {
	d := "{#"
	if c.Plus {
		d += "+"
	}
	if c.Prec >= 0 {
		d += fmt.Sprintf(".%d", c.Prec)
	}
	return d + c.Suf + "}"
}

func checkPyFormat(c pyCase) []h.Failure {
	f := math.Float64frombits(c.Bits)
	spec := ".6g"
	switch {
	case c.Suf == "E":
		spec = fmt.Sprintf(".%dE", c.Prec)
	case c.Prec >= 0:
		spec = fmt.Sprintf(".%df", c.Prec)
	}
	want, err := oracle().fmtnum(f, spec, c.Suf == "%")
	if err != nil {
		return []h.Failure{{Sig: "pyfmt/oracle-error", Msg: err.Error()}}
	}
	if c.Suf == "%" {
		want += "%"
	}
	if c.Plus && want[0] != '-' {
		want = "+" + want
	}
	tpl := "甲" + c.directive() + "乙"
	o := h.Run("输入T、L\n输出T % L", h.Opts{Inputs: map[string]r.Element{"T": value.NewString(tpl), "L": zn.ToElem(&zn.ListV{Items: []zn.Value{f}})}})
	desc := fmt.Sprintf("%s of %v (bits %016x)", c.directive(), f, c.Bits)
	if o.Kind != h.KValue || o.ValType != "string" {
		return []h.Failure{{Sig: "pyfmt/rejected", Msg: fmt.Sprintf("%s must render as %q; got %s", desc, want, o.Short())}}
	}
	if o.ValText != "甲"+want+"乙" {
		return []h.Failure{{Sig: "pyfmt/wrong-text", Msg: fmt.Sprintf("%s: CPython renders %q, the interpreter %q", desc, "甲"+want+"乙", o.ValText)}}
	}
	return nil
}

func TestFormatAgainstPython(t *testing.T) {
	rapid.Check(t, func(t *rapid.T) {
		f := zn.GenFiniteDouble().Draw(t, "f")
		c := pyCase{Bits: math.Float64bits(f), Plus: rapid.Bool().Draw(t, "plus"), Prec: -1}
		switch rapid.IntRange(0, 3).Draw(t, "form") {
		case 1:
			c.Prec = rapid.IntRange(0, 30).Draw(t, "prec")
		case 2:
			c.Prec, c.Suf = rapid.IntRange(0, 12).Draw(t, "prec"), "%"
			if math.IsInf(f*100, 0) {
				c.Suf = ""
			}
		case 3:
			c.Prec, c.Suf = rapid.IntRange(0, 20).Draw(t, "prec"), "E"
		}
		labels := []string{"py:" + map[string]string{"": "plain-or-fixed", "%": "percent", "E": "exponent"}[c.Suf]}
		a := math.Abs(f)
		nt := a != 0 && (a >= 1e5 || a < 1e-3 || f != math.Trunc(f))
		key, _ := json.Marshal(c)
		h.R.Case(t, "pyfmt", string(key), c, labels, nt, checkPyFormat(c))
	})
}
