// Package zn holds the abstract syntax the program generators emit, a renderer to Zn source
// text, and an independent reference interpreter that implements the semantics the properties
// and the manual state for that subset. It shares no code with /repo.
package zn

// ---- expressions -----------------------------------------------------------------------

type Expr interface{}

type Num struct {
	Lit string  // spelling in the source (empty => default spelling of Val)
	Val float64 // exact double denoted by Lit
}
type BoolLit struct{ V bool }
type NullLit struct{}
type Str struct{ V string }
type Var struct{ Name string }

// RawStr - a text literal given by its exact source spelling (Src, quotes included, may span
// physical lines) and the value it denotes
type RawStr struct {
	Src string
	Val string
}

// Bin - binary operator. Op is the canonical symbol:
//
//   - - * / | %     == /= > < >= <=  为 不为     且 或
//
// Spell (optional) is the concrete spelling used by the renderer (e.g. 等于 for ==).
type Bin struct {
	Op    string
	Spell string
	L, R  Expr
}

// Grp - explicit (redundant) braces
type Grp struct{ E Expr }
type ListLit struct{ Items []Expr }
type DictLit struct {
	Keys []string
	Vals []Expr
	// Bare - Bare[i]: key i is written as a bare identifier or number (its text is the key)
	// instead of a text literal; may be shorter than Keys (missing = text literal)
	Bare []bool
}
type Index struct{ Root, Idx Expr }
type Member struct {
	Root Expr
	Name string
}
type This struct{ Name string } // 其Name
type Call struct {
	Name  string
	Args  []Expr
	Yield string
}
type MCall struct {
	Root  Expr
	Chain []Call // Name+Args used; Yield of elements ignored
	Yield string
}
type New struct {
	Class string
	Args  []Expr
}
type Assign struct {
	Target Expr // Var | Index | Member | This
	E      Expr
}

// ---- statements ------------------------------------------------------------------------

type Stmt interface{}

type Let struct {
	Names []string
	Const bool
	E     Expr
}
type ExprStmt struct{ E Expr }
type If struct {
	Conds  []Expr   // 如果, 再如...
	Blocks [][]Stmt // same length as Conds
	Else   []Stmt   // nil = no else branch
}
type While struct {
	Cond Expr
	Body []Stmt
}
type ForEach struct {
	Names []string // 0, 1 or 2
	E     Expr
	Body  []Stmt
}
type Break struct{}
type Continue struct{}
type Return struct{ E Expr }
type Throw struct {
	Class string
	Args  []Expr
}
type Catch struct {
	Class string
	Body  []Stmt
}
type FuncDef struct {
	Name    string
	Params  []string
	Body    []Stmt
	Catches []Catch
}
type Prop struct {
	Name string
	Init Expr
}
type ClassDef struct {
	Name    string
	Props   []Prop
	Methods []FuncDef
	Getters []FuncDef // 何为X？ (syntax only)
}

// LetBlock - block declaration: 令： followed by one pair per line
type LetBlock struct{ Pairs []*Let }
type CtorDef struct {
	Class   string
	Params  []string
	Body    []Stmt
	Catches []Catch
}

// Comment - a comment line (no semantics); Text must not contain line breaks
type Comment struct{ Text string }

type Import struct {
	Name  string   // module name ("甲", "a-b") or library ("@JSON")
	Lib   bool     // 《@库》
	Items []string // empty = all exports
}

type Program struct {
	Imports []Import
	Inputs  []string
	Body    []Stmt
	Catches []Catch
}
