package c06

import (
	"fmt"
	"testing"

	h "verif/harness"
)

// "When a method returns - normally or through a handled exception - none of its declarations
// remain": listed programs for the routes by which a declaration could outlive its method
// that the generated programs do not take (each found by an independently written change):
// a call into another module (a built-in method) failing inside a 遍历 of the method, and a
// handler that itself declares a method, the method being called twice.

type listedCase struct {
	Name string `json:"name"`
	Src  string `json:"src"`
	Want string `json:"want"`
}

// deepCases - the same observations made INSIDE a recursion of 3000 calls (a block depth
// beyond any table of a few thousand slots): the name of an ended block / of a returned
// callee is gone there as well, and an ended inner shadow no longer hides the outer name
func deepCases() []listedCase {
	var out []listedCase
	for _, d := range []int{10, 1400, 3000} {
		head := "如何深？\n    输入N\n    如果N > 0：\n        输出（深：N - 1）\n"
		tail := fmt.Sprintf("    输出暗\n    拦截异常：\n        输出“看不到”\n输出（深：%d）", d)
		out = append(out,
			listedCase{fmt.Sprintf("%d calls deep: a branch declares a name, the branch ends, the name is read", d), head + "    如果真：\n        令暗 = 7\n" + tail, "看不到"},
			listedCase{fmt.Sprintf("%d calls deep: a loop pass declares a name, the loop ends, the name is read", d), head + "    以V遍历【1，2】：\n        令暗 = V\n" + tail, "看不到"},
			listedCase{fmt.Sprintf("%d calls deep: a callee declares a name and returns, the caller reads the name", d), "如何内？\n    输入M\n    令暗 = M\n    输出M\n" + head + "    令果 = （内：5）\n" + tail, "看不到"},
			listedCase{fmt.Sprintf("%d calls deep: an ended inner shadow no longer hides the program's name", d), "令暗 = “外”\n" + head + "    如果真：\n        令暗 = 7\n" + fmt.Sprintf("    输出暗\n输出（深：%d）", d), "外"},
		)
	}
	return out
}

var listedCases = append([]listedCase{
	{"a built-in method fails inside a loop of a method that handles the exception: the method's input is gone afterwards, the caller may declare that name",
		"如何F？\n    输入P\n    以V遍历【1，2】：\n        以V（没有这个方法）\n    输出0\n    拦截异常：\n        输出-1\n令果 = （F：5）\n令P = 7\n输出【果，P】",
		"[-1，7]"},
	{"... and the caller does not see the method's input",
		"如何F？\n    输入P\n    以K、V遍历【“a” = 1】：\n        以V（没有这个方法）\n    输出0\n    拦截异常：\n        输出-1\n令果 = （F：5）\n输出P\n拦截异常：\n    输出“看不到”",
		"看不到"},
	{"a handler declares a method; the enclosing method is called three times, the exception raised each time",
		"如何试？\n    输入N\n    输出N / 0\n    拦截异常：\n        如何补救？\n            输入M\n            输出M + 100\n        输出（补救：N）\n输出【（试：1），（试：2），（试：3）】",
		"[101，102，103]"},
	{"... and the handler's method is gone when the call is over",
		"如何试？\n    输入N\n    输出N / 0\n    拦截异常：\n        如何补救？\n            输入M\n            输出M + 100\n        输出（补救：N）\n令甲 = （试：1）\n输出（补救：2）\n拦截异常：\n    输出“没有了”",
		"没有了"},
	{"a branch of a method declares a type with a constructor; the method is called twice",
		"如何造？\n    输入N\n    如果N > 0：\n        定义盒：\n            其量 = 0\n        如何新建盒？\n            输入初\n            其量 = 初\n        输出（新建盒：N）之量\n    输出0\n输出【（造：4），（造：5），（造：0）】",
		"[4，5，0]"},
}, deepCases()...)

func checkListed(c listedCase) []h.Failure {
	o := h.Run(c.Src, h.Opts{WantVM: true})
	desc := fmt.Sprintf("%s\nprogram:\n%s", c.Name, c.Src)
	switch o.Kind {
	case h.KPanic, h.KBudget, h.KNil:
		return []h.Failure{{Sig: "listed/" + o.Kind + "@" + o.PanicSite, Msg: desc + "\n" + o.PanicMsg}}
	}
	if o.Kind != h.KValue || o.ValText != c.Want {
		return []h.Failure{{Sig: "listed/declaration-outlives-its-method", Msg: fmt.Sprintf("%s\nexpected %s, got %s", desc, c.Want, o.Short())}}
	}
	if o.StackLen != 0 {
		return []h.Failure{{Sig: "listed/call-stack-not-empty", Msg: fmt.Sprintf("%s\n%d frames left on the call stack", desc, o.StackLen)}}
	}
	for id, d := range o.ScopeDepth {
		if d != 0 {
			return []h.Failure{{Sig: "listed/scope-depth-leak", Msg: fmt.Sprintf("%s\nsymbol table of module %d is left at depth %d", desc, id, d)}}
		}
	}
	return nil
}

func TestListedPrograms(t *testing.T) {
	for _, c := range listedCases {
		h.R.Case(t, "listed", c.Name, c, []string{"listed-program"}, true, checkListed(c))
	}
	h.R.Exhaustive("listed", fmt.Sprintf("%d listed programs", len(listedCases)))
}
