package harness

import (
	"encoding/binary"
	"encoding/json"
	"flag"
	"fmt"
	"hash/fnv"
	"os"
	"path/filepath"
	"sort"
	"strconv"
	"strings"
	"sync"
	"testing"
	"time"
)

// Failure - one oracle disagreement
type Failure struct {
	Sig string // stable signature: sub-check/symptom@site
	Msg string
}

// TB - the part of testing.TB / rapid.T we need
type TB interface {
	Fatalf(format string, args ...any)
	Logf(format string, args ...any)
}

// KnownFinding - one line of known_findings.jsonl
type KnownFinding struct {
	Status    string          `json:"status"` // known | fixed
	Property  string          `json:"property"`
	ID        string          `json:"id"`
	What      string          `json:"what"`
	Signature string          `json:"signature"`
	Sub       string          `json:"sub"`
	Witness   json.RawMessage `json:"witness"`
	Commit    string          `json:"commit,omitempty"`
}

// ReplayFunc - run one serialized case of sub-check `sub` through the oracle
type ReplayFunc func(sub string, raw json.RawMessage) ([]Failure, error)

// Recorder - per-process statistics, known-finding filter, replay writer
type Recorder struct {
	Property string
	Tier     string
	Seed     int
	Shard    int
	OutDir   string

	mu            sync.Mutex
	evals         int64
	distinctExtra int64
	nontriv       map[uint64]struct{}
	classes       map[string]int64
	excluded      map[string]int64
	samples       []json.RawMessage
	sampleSeen    int64
	budgetHits    int64
	skipped       map[string]int64
	knownActive   map[string]KnownFinding // signature -> finding (witness still fails)
	knownLines    []string
	notes         []string
	violations    []violation
	exhaustive    map[string]bool
	extra         map[string]any
	start         time.Time
}

type violation struct {
	Sub    string `json:"sub"`
	Sig    string `json:"sig"`
	Msg    string `json:"msg"`
	Replay string `json:"replay"`
}

// R - the process-wide recorder (set by Main)
var R *Recorder

func envInt(k string, def int) int {
	if v := os.Getenv(k); v != "" {
		if n, err := strconv.Atoi(v); err == nil {
			return n
		}
	}
	return def
}

// Tier - quick|thorough
func Tier() string {
	if t := os.Getenv("VERIF_TIER"); t == "thorough" {
		return "thorough"
	}
	return "quick"
}

// Thorough - true in the thorough tier
func Thorough() bool { return Tier() == "thorough" }

// Shard / NShards - position of this process among the parallel shards
func Shard() int   { return envInt("VERIF_SHARD", 0) }
func NShards() int { return envInt("VERIF_NSHARDS", 1) }

// Scale - an iteration count from the environment (VERIF_N), else the default for the tier
func Scale(quick, thorough int) int {
	if n := envInt("VERIF_N", 0); n > 0 {
		return n
	}
	if Thorough() {
		return thorough
	}
	return quick
}

func newRecorder(property string) *Recorder {
	out := os.Getenv("VERIF_OUT")
	if out == "" {
		out, _ = os.MkdirTemp("", "verif-out-*")
	}
	os.MkdirAll(out, 0o755)
	return &Recorder{
		Property: property, Tier: Tier(), Seed: envInt("VERIF_SEED", 1), Shard: Shard(), OutDir: out,
		nontriv: map[uint64]struct{}{}, classes: map[string]int64{}, excluded: map[string]int64{},
		skipped: map[string]int64{}, knownActive: map[string]KnownFinding{}, exhaustive: map[string]bool{},
		extra: map[string]any{}, start: time.Now(),
	}
}

var atExit []func()

// AtExit - run f before the test process exits (Main leaves through os.Exit, which skips the
// deferred calls of TestMain: scratch directories are removed this way)
func AtExit(f func()) { atExit = append(atExit, f) }

func exit(code int) {
	for _, f := range atExit {
		f()
	}
	os.Exit(code)
}

// Main - TestMain body shared by all check packages
func Main(m *testing.M, property string, replay ReplayFunc) {
	flag.Parse()
	R = newRecorder(property)
	// replay mode: run one file through the oracle, bypassing the generators
	if path := os.Getenv("VERIF_REPLAY"); path != "" {
		exit(R.replayFile(path, replay))
	}
	R.loadKnown(replay)
	code := m.Run()
	R.Flush()
	exit(code)
}

func (r *Recorder) replayFile(path string, replay ReplayFunc) int {
	b, err := os.ReadFile(path)
	if err != nil {
		fmt.Println("replay: cannot read", path, err)
		return 2
	}
	var rf struct {
		Property string          `json:"property"`
		Sub      string          `json:"sub"`
		Case     json.RawMessage `json:"case"`
		Witness  json.RawMessage `json:"witness"`
	}
	if err := json.Unmarshal(b, &rf); err != nil {
		fmt.Println("replay: bad json", err)
		return 2
	}
	c := rf.Case
	if len(c) == 0 {
		c = rf.Witness
	}
	var sigDoc struct {
		Sig string `json:"sig"`
	}
	json.Unmarshal(b, &sigDoc)
	if strings.HasSuffix(sigDoc.Sig, "/process-crash") {
		// the saved case is {src, modules}: run it; a Go fatal error kills this process
		// again, which the driver reports as a reproduction
		var cc struct {
			Src     string            `json:"src"`
			Modules map[string]string `json:"modules"`
		}
		if err := json.Unmarshal(c, &cc); err != nil {
			fmt.Println("replay: bad crash case", err)
			return 2
		}
		o := Run(cc.Src, Opts{Modules: cc.Modules})
		if o.Kind == KPanic || o.Kind == KBudget {
			fmt.Printf("REPLAY-FAIL property=%s sig=%s\n  %s\n", r.Property, sigDoc.Sig, o.Short())
			return 1
		}
		fmt.Printf("REPLAY property=%s: the case no longer crashes the process (%s)\n", r.Property, o.Short())
		return 0
	}
	fails, err := replay(rf.Sub, c)
	if err != nil {
		fmt.Println("replay: error:", err)
		return 2
	}
	if len(fails) == 0 {
		fmt.Printf("REPLAY property=%s sub=%s: case passes the oracle\n", r.Property, rf.Sub)
		return 0
	}
	for _, f := range fails {
		fmt.Printf("REPLAY-FAIL property=%s sub=%s sig=%s\n  %s\n", r.Property, rf.Sub, f.Sig, f.Msg)
	}
	return 1
}

func knownPath() string {
	if p := os.Getenv("VERIF_KNOWN"); p != "" {
		return p
	}
	return "/verif/known_findings.jsonl"
}

// loadKnown - execute every `known` witness of this property; signatures whose witness still
// fails become active (their failures are excluded and counted, never reported again)
func (r *Recorder) loadKnown(replay ReplayFunc) {
	b, err := os.ReadFile(knownPath())
	if err != nil {
		return
	}
	for _, ln := range strings.Split(string(b), "\n") {
		ln = strings.TrimSpace(ln)
		if !strings.HasPrefix(ln, "{") {
			continue // comments and "fixed:" records suppress nothing
		}
		var kf KnownFinding
		if err := json.Unmarshal([]byte(ln), &kf); err != nil {
			r.notes = append(r.notes, "bad known_findings line: "+err.Error())
			continue
		}
		if kf.Property != r.Property || kf.Status != "known" {
			continue
		}
		fails, err := replay(kf.Sub, kf.Witness)
		if err != nil {
			r.notes = append(r.notes, fmt.Sprintf("known finding %s: witness not runnable: %v", kf.ID, err))
			continue
		}
		still := false
		for _, f := range fails {
			if f.Sig == kf.Signature {
				still = true
			}
		}
		if still {
			r.knownActive[kf.Signature] = kf
			r.knownLines = append(r.knownLines, fmt.Sprintf("KNOWN-FINDING: property=%s %s: %s", r.Property, kf.ID, kf.What))
		} else {
			r.notes = append(r.notes, fmt.Sprintf("NOTE: known finding %s (%s) no longer reproduces; its signature is not excluded in this run", kf.ID, kf.Signature))
		}
	}
}

// IsKnown - is this signature an active known finding
func (r *Recorder) IsKnown(sig string) bool {
	r.mu.Lock()
	defer r.mu.Unlock()
	_, ok := r.knownActive[sig]
	return ok
}

func hash64(s string) uint64 {
	h := fnv.New64a()
	h.Write([]byte(s))
	return h.Sum64()
}

// Case - account for one evaluated case and report unlisted failures.
//
//	sub        sub-check name
//	key        canonical text of the case (hashed for distinct counting)
//	c          JSON-serializable form of the case (for samples and replay)
//	labels     classes the case belongs to
//	nontrivial whether the case satisfies the property's non-trivial rule
//	fails      oracle disagreements (empty = passed)
func (r *Recorder) Case(t TB, sub string, key string, c any, labels []string, nontrivial bool, fails []Failure) {
	r.mu.Lock()
	r.evals++
	for _, l := range labels {
		r.classes[l]++
	}
	if nontrivial {
		r.classes["nontrivial"]++
		r.nontriv[hash64(sub+"\x00"+key)] = struct{}{}
		r.sampleSeen++
		n := r.sampleSeen
		if len(r.samples) < 6 || (n&(n-1)) == 0 && len(r.samples) < 14 {
			if b, err := json.Marshal(map[string]any{"sub": sub, "case": c}); err == nil && len(b) < 20000 {
				r.samples = append(r.samples, b)
			}
		}
	}
	var report *Failure
	for i := range fails {
		if _, ok := r.knownActive[fails[i].Sig]; ok {
			r.excluded[fails[i].Sig]++
			continue
		}
		if report == nil {
			report = &fails[i]
		}
	}
	r.mu.Unlock()
	if report != nil {
		path := r.writeReplay(sub, c, *report)
		t.Fatalf("VIOLATION-CANDIDATE sub=%s sig=%s replay=%s\n%s", sub, report.Sig, path, report.Msg)
	}
}

// Count - bump a class counter without a case
func (r *Recorder) Count(label string, n int64) {
	r.mu.Lock()
	r.classes[label] += n
	r.mu.Unlock()
}

// Skip - count a case that was generated but not asserted (statement ambiguous there)
func (r *Recorder) Skip(reason string) {
	r.mu.Lock()
	r.skipped[reason]++
	r.mu.Unlock()
}

// BudgetHit - count an inconclusive case
func (r *Recorder) BudgetHit() {
	r.mu.Lock()
	r.budgetHits++
	r.mu.Unlock()
}

// Exhaustive - declare that sub-check `sub` enumerated its finite space completely
func (r *Recorder) Exhaustive(sub string, desc string) {
	r.mu.Lock()
	r.exhaustive[sub] = true
	r.extra["exhaustive:"+sub] = desc
	r.mu.Unlock()
}

// Extra - attach additional evidence
func (r *Recorder) Extra(k string, v any) {
	r.mu.Lock()
	r.extra[k] = v
	r.mu.Unlock()
}

// Note - a line for the driver to print
func (r *Recorder) Note(s string) {
	r.mu.Lock()
	r.notes = append(r.notes, s)
	r.mu.Unlock()
}

func sanitize(s string) string {
	var b strings.Builder
	for _, c := range s {
		if c >= 'a' && c <= 'z' || c >= 'A' && c <= 'Z' || c >= '0' && c <= '9' || c == '-' || c == '_' {
			b.WriteRune(c)
		} else {
			b.WriteByte('_')
		}
	}
	out := b.String()
	if len(out) > 60 {
		out = out[:60]
	}
	return out
}

func (r *Recorder) writeReplay(sub string, c any, f Failure) string {
	path := filepath.Join(r.OutDir, fmt.Sprintf("replay-%s-%s-s%d.json", r.Property, sanitize(sub), r.Shard))
	doc := map[string]any{"property": r.Property, "sub": sub, "sig": f.Sig, "msg": f.Msg, "case": c,
		"seed": r.Seed, "tier": r.Tier}
	b, _ := json.MarshalIndent(doc, "", " ")
	os.WriteFile(path, b, 0o644)
	r.mu.Lock()
	found := false
	for i := range r.violations {
		if r.violations[i].Sub == sub {
			r.violations[i] = violation{sub, f.Sig, f.Msg, path}
			found = true
		}
	}
	if !found {
		r.violations = append(r.violations, violation{sub, f.Sig, f.Msg, path})
	}
	r.mu.Unlock()
	return path
}

// Flush - write the per-process statistics for the driver
func (r *Recorder) Flush() {
	r.mu.Lock()
	defer r.mu.Unlock()
	tag := fmt.Sprintf("%d-%d", r.Shard, os.Getpid())
	hb := make([]byte, 0, 8*len(r.nontriv))
	keys := make([]uint64, 0, len(r.nontriv))
	for h := range r.nontriv {
		keys = append(keys, h)
	}
	sort.Slice(keys, func(i, j int) bool { return keys[i] < keys[j] })
	for _, h := range keys {
		hb = binary.LittleEndian.AppendUint64(hb, h)
	}
	os.WriteFile(filepath.Join(r.OutDir, "hashes-"+tag+".bin"), hb, 0o644)
	doc := map[string]any{
		"property": r.Property, "tier": r.Tier, "seed": r.Seed, "shard": r.Shard,
		"evaluations": r.evals, "distinct_extra": r.distinctExtra, "classes": r.classes, "excluded": r.excluded, "skipped": r.skipped,
		"samples": r.samples, "budget_hits": r.budgetHits, "known_lines": r.knownLines,
		"notes": r.notes, "violations": r.violations, "exhaustive": r.exhaustive, "extra": r.extra,
		"wall_s": time.Since(r.start).Seconds(),
	}
	b, _ := json.Marshal(doc)
	os.WriteFile(filepath.Join(r.OutDir, "stats-"+tag+".json"), b, 0o644)
}

// AddEvals - account for cases evaluated in bulk (exhaustive enumerations)
func (r *Recorder) AddEvals(n int64) {
	r.mu.Lock()
	r.evals += n
	r.mu.Unlock()
}

// AddDistinct - distinct non-trivial cases counted exactly by an enumerator (disjoint from
// the hashed ones by construction)
func (r *Recorder) AddDistinct(n int64) {
	r.mu.Lock()
	r.distinctExtra += n
	r.mu.Unlock()
}

// RunCorpus - replay every committed regression input of a check through its oracle
func RunCorpus(t *testing.T, dir string, replay ReplayFunc) {
	root := os.Getenv("VERIF_ROOT")
	if root == "" {
		root = "/verif"
	}
	files, _ := filepath.Glob(filepath.Join(root, "corpus", dir, "*.json"))
	sort.Strings(files)
	for _, f := range files {
		b, err := os.ReadFile(f)
		if err != nil {
			t.Fatalf("corpus %s: %v", f, err)
		}
		var rf struct {
			Sub  string          `json:"sub"`
			Case json.RawMessage `json:"case"`
		}
		if err := json.Unmarshal(b, &rf); err != nil {
			t.Fatalf("corpus %s: %v", f, err)
		}
		fails, err := replay(rf.Sub, rf.Case)
		if err != nil {
			t.Fatalf("corpus %s: %v", f, err)
		}
		var c any
		json.Unmarshal(rf.Case, &c)
		R.Case(t, rf.Sub, "corpus:"+filepath.Base(f), c, []string{"corpus"}, true, fails)
	}
}

// ExitInconclusive - leave the test process with a status the driver reports as "inconclusive"
// (exit code 2 of the check): infrastructure trouble, never a violation
func ExitInconclusive() {
	R.Flush()
	exit(3)
}
