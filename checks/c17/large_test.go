package c17

import (
	"encoding/json"
	"fmt"
	"strings"
	"testing"

	"github.com/DemoHn/Zn/pkg/exec"
	zio "github.com/DemoHn/Zn/pkg/io"
	r "github.com/DemoHn/Zn/pkg/runtime"

	h "verif/harness"
)

// "whatever its size": files whose size lies around every power of two from 64 KiB to 16 MiB
// (thorough: 256 MiB) - where a size limit, a 16 / 24 / 32-bit length or a capped reader would
// sit - decode to every one of their characters, and the program at their very end is the one
// that runs. The file is comment lines (1- or 3-byte characters) followed by 输出<n>.

type largeCase struct {
	Size int    `json:"size"` // bytes of padding before the closing statement
	Fill string `json:"fill"` // the padding line
	N    int    `json:"n"`    // value the program at the end of the file yields
}

func (c largeCase) build() []byte {
	line := "注：" + c.Fill + "\n"
	var b strings.Builder
	b.Grow(c.Size + 64)
	for b.Len()+len(line) <= c.Size {
		b.WriteString(line)
	}
	switch pad := c.Size - b.Len(); {
	case pad >= 3:
		b.WriteString("//" + strings.Repeat("p", pad-3) + "\n")
	case pad > 0:
		b.WriteString(strings.Repeat("\n", pad))
	}
	fmt.Fprintf(&b, "令果 = %d\n输出果\n", c.N)
	return []byte(b.String())
}

func checkLarge(c largeCase) (fails []h.Failure) {
	b := c.build()
	desc := fmt.Sprintf("file of %d bytes (padding lines %q, then 令果 = %d⏎输出果)", len(b), "注："+c.Fill, c.N)
	p := writeTemp(b)
	kind, msg, site := h.Guard(func() {
		fs, err := zio.NewFileStream(p)
		if err != nil {
			fails = append(fails, h.Failure{Sig: "large/open-failed", Msg: err.Error()})
			return
		}
		got, rerr := fs.ReadAll()
		want := []rune(string(b))
		if rerr != nil {
			fails = append(fails, h.Failure{Sig: "large/valid-rejected", Msg: fmt.Sprintf("%s: valid UTF-8 rejected: %v", desc, rerr)})
			return
		}
		if len(got) != len(want) || string(got[len(got)-20:]) != string(want[len(want)-20:]) || string(got) != string(want) {
			fails = append(fails, h.Failure{Sig: "large/truncated-or-altered", Msg: fmt.Sprintf("%s: decoded %d characters, expected %d", desc, len(got), len(want))})
			return
		}
		var val r.Element
		h.Capture(func() {
			val, err = exec.NewInterpreter("verif").SetExternalLibs(h.Libs()).LoadFile(p).Execute(r.ElementMap{})
		})
		if err != nil {
			fails = append(fails, h.Failure{Sig: "large/valid-program-fails", Msg: fmt.Sprintf("%s: %v", desc, err)})
			return
		}
		if val == nil || val.String() != fmt.Sprint(c.N) {
			vs := "<nil>"
			if val != nil {
				vs = val.String()
			}
			fails = append(fails, h.Failure{Sig: "large/truncated-program-executed", Msg: fmt.Sprintf("%s: the program yields %s - its end was not executed", desc, vs)})
		}
	})
	if kind != "" {
		fails = append(fails, h.Failure{Sig: "large/" + kind + "@" + site, Msg: desc + ": " + msg})
	}
	return
}

func TestLargeFiles(t *testing.T) {
	maxPow := h.Scale(24, 28)
	n := 0
	for pow := 16; pow <= maxPow; pow++ {
		for _, off := range []int{-1, 0, 1, 4096} {
			for fi, fill := range []string{"padding padding padding", "填充文字填充文字"} {
				if pow > 24 && (fi == 1 || off == 4096) {
					continue
				}
				if !h.Thorough() && pow >= 22 && (fi == 1 || off == 0 || off == 4096) {
					continue // (quick tier: the largest files once below and once above the power)
				}
				c := largeCase{Size: 1<<uint(pow) + off, Fill: fill, N: 100 + pow}
				key, _ := json.Marshal(c)
				h.R.Case(t, "large", string(key), c, []string{fmt.Sprintf("file-size-around-2^%d", pow)}, true, checkLarge(c))
				n++
			}
		}
	}
	h.R.Exhaustive("large", fmt.Sprintf("%d files: sizes 2^16 .. 2^%d bytes, each -1 / +0 / +1 / +4096, ASCII and 3-byte padding", n, maxPow))
}
