package c04

import (
	"fmt"
	"testing"

	h "verif/harness"
)

// text between back-ticks is ONE identifier, whatever it holds: keyword glyphs, digits, the
// operator characters at any place (first, last, doubled: `/`, `a/`, `//`, `/*`, `*a`, `-`).
// Every content over a small alphabet that has one member of each lexical class, alone and
// between two keywords (no spaces), goes through the documented segmentation.
var backtickAlphabet = []rune{'令', '价', 'a', '1', '+', '-', '*', '/', '.', '%'}

func TestBacktickExhaustive(t *testing.T) {
	maxLen := h.Scale(4, 6)
	k := len(backtickAlphabet)
	var total int64
	buf := make([]rune, 0, maxLen)
	for L := 1; L <= maxLen; L++ {
		n := 1
		for i := 0; i < L; i++ {
			n *= k
		}
		for idx := h.Shard(); idx < n; idx += h.NShards() {
			buf = buf[:0]
			x := idx
			for i := 0; i < L; i++ {
				buf = append(buf, backtickAlphabet[x%k])
				x /= k
			}
			for vi, s := range []string{"`" + string(buf) + "`", "令`" + string(buf) + "`为1", "甲 + `" + string(buf) + "` * 乙"} {
				total++
				fails, unspec := checkSegment(s)
				if unspec != "" {
					continue
				}
				if len(fails) > 0 || (idx%997 == 0 && vi == 1) {
					h.R.Case(t, "segment", s, strCase{s}, []string{"backtick", "backtick-exhaustive-sampled"}, true, fails)
				}
			}
		}
	}
	h.R.AddEvals(total)
	h.R.AddDistinct(total)
	h.R.Exhaustive("segment", fmt.Sprintf("every back-tick content over %q of length 1..%d, alone / between keywords / between operators", string(backtickAlphabet), maxLen))
}
