// C19 - JSON generation and parsing are faithful inverses
package c19

import (
	"bufio"
	"encoding/hex"
	"encoding/json"
	"fmt"
	"io"
	"math"
	"os"
	"os/exec"
	"strings"
	"testing"

	r "github.com/DemoHn/Zn/pkg/runtime"
	"github.com/DemoHn/Zn/pkg/value"
	"pgregory.net/rapid"

	h "verif/harness"
	"verif/zn"
)

func TestMain(m *testing.M) { h.Main(m, "C19", replay) }

// ---------------------------------------------------------------------------------------
// python oracle client

type tagged struct {
	T     string            `json:"t"`
	B     string            `json:"b,omitempty"`
	CP    []int             `json:"cp,omitempty"`
	V     bool              `json:"v,omitempty"`
	Items []tagged          `json:"items,omitempty"`
	Pairs []json.RawMessage `json:"pairs,omitempty"`
}

type pyOracle struct {
	cmd *exec.Cmd
	in  io.WriteCloser
	out *bufio.Reader
}

var py *pyOracle

func oracle() *pyOracle {
	if py != nil {
		return py
	}
	root := os.Getenv("VERIF_ROOT")
	if root == "" {
		root = "/verif"
	}
	cmd := exec.Command("python3", root+"/lib/pyoracle.py")
	in, _ := cmd.StdinPipe()
	out, _ := cmd.StdoutPipe()
	cmd.Stderr = os.Stderr
	if err := cmd.Start(); err != nil {
		panic("cannot start the python oracle: " + err.Error())
	}
	py = &pyOracle{cmd: cmd, in: in, out: bufio.NewReaderSize(out, 1<<20)}
	return py
}

func (p *pyOracle) call(req any) map[string]json.RawMessage {
	b, _ := json.Marshal(req)
	p.in.Write(append(b, '\n'))
	line, err := p.out.ReadBytes('\n')
	if err != nil {
		panic("python oracle died: " + err.Error())
	}
	var resp map[string]json.RawMessage
	if err := json.Unmarshal(line, &resp); err != nil {
		panic("python oracle: bad response " + string(line))
	}
	return resp
}

func cps(s string) []int {
	out := []int{}
	for _, c := range s {
		out = append(out, int(c))
	}
	return out
}

func fromCps(cp []int) string {
	var b strings.Builder
	for _, c := range cp {
		b.WriteRune(rune(c))
	}
	return b.String()
}

func toTagged(v zn.Value) tagged {
	switch x := v.(type) {
	case float64:
		var buf [8]byte
		bits := math.Float64bits(x)
		for i := 0; i < 8; i++ {
			buf[i] = byte(bits >> (56 - 8*i))
		}
		return tagged{T: "num", B: hex.EncodeToString(buf[:])}
	case string:
		return tagged{T: "str", CP: cps(x)}
	case bool:
		return tagged{T: "bool", V: x}
	case zn.NullV:
		return tagged{T: "null"}
	case *zn.ListV:
		t := tagged{T: "list", Items: []tagged{}}
		for _, it := range x.Items {
			t.Items = append(t.Items, toTagged(it))
		}
		return t
	case *zn.DictV:
		t := tagged{T: "obj", Pairs: []json.RawMessage{}}
		for _, k := range x.Keys {
			pair, _ := json.Marshal([]any{cps(k), toTagged(x.M[k])})
			t.Pairs = append(t.Pairs, pair)
		}
		return t
	}
	panic("toTagged")
}

// fromTagged - reference value of a tagged python value; special=true when it contains what
// the statement leaves open (non-finite numbers, surrogate code points, duplicate keys)
func fromTagged(t tagged) (v zn.Value, special bool) {
	switch t.T {
	case "num":
		b, _ := hex.DecodeString(t.B)
		var bits uint64
		for _, x := range b {
			bits = bits<<8 | uint64(x)
		}
		f := math.Float64frombits(bits)
		return f, math.IsInf(f, 0) || math.IsNaN(f)
	case "str":
		for _, c := range t.CP {
			if c >= 0xD800 && c <= 0xDFFF {
				special = true
			}
		}
		return fromCps(t.CP), special
	case "bool":
		return t.V, false
	case "null":
		return zn.NullV{}, false
	case "list":
		l := &zn.ListV{}
		for _, it := range t.Items {
			x, sp := fromTagged(it)
			special = special || sp
			l.Items = append(l.Items, x)
		}
		return l, special
	case "obj":
		d := zn.NewDict()
		for _, raw := range t.Pairs {
			var pair []json.RawMessage
			json.Unmarshal(raw, &pair)
			var kcp []int
			json.Unmarshal(pair[0], &kcp)
			var vt tagged
			json.Unmarshal(pair[1], &vt)
			x, sp := fromTagged(vt)
			special = special || sp
			k := fromCps(kcp)
			for _, c := range kcp {
				if c >= 0xD800 && c <= 0xDFFF {
					special = true
				}
			}
			if _, dup := d.M[k]; dup {
				special = true
			}
			d.Set(k, x)
		}
		return d, special
	}
	panic("fromTagged " + t.T)
}

func pyLoads(text string) (v zn.Value, ok bool, special bool) {
	resp := oracle().call(map[string]any{"op": "loads", "text": cps(text)})
	if string(resp["ok"]) != "true" {
		return nil, false, false
	}
	var t tagged
	if err := json.Unmarshal(resp["value"], &t); err != nil {
		panic(err)
	}
	v, special = fromTagged(t)
	return v, true, special
}

var lastPyErr string

func pyDumps(v zn.Value, ensureASCII bool, indent int, seps []string) (string, bool) {
	req := map[string]any{"op": "dumps", "value": toTagged(v), "ensure_ascii": ensureASCII}
	if indent >= 0 {
		req["indent"] = indent
	}
	if seps != nil {
		req["seps"] = seps
	}
	resp := oracle().call(req)
	if string(resp["ok"]) != "true" {
		lastPyErr = string(resp["err"])
		return "", false
	}
	var cp []int
	json.Unmarshal(resp["text"], &cp)
	return fromCps(cp), true
}

// ---------------------------------------------------------------------------------------
// cases

type docCase struct {
	Value json.RawMessage `json:"value,omitempty"` // tagged value (generation direction)
	Text  []int           `json:"text,omitempty"`  // document code points (parsing direction)
	Note  string          `json:"note,omitempty"`
	Bad   string          `json:"bad,omitempty"`   // expression of a value without JSON form
	Plant string          `json:"plant,omitempty"` // statement that plants it into the dictionary 典
}

func replay(sub string, raw json.RawMessage) ([]h.Failure, error) {
	var c docCase
	if err := json.Unmarshal(raw, &c); err != nil {
		return nil, err
	}
	switch sub {
	case "generate":
		var t tagged
		if err := json.Unmarshal(c.Value, &t); err != nil {
			return nil, err
		}
		v, _ := fromTagged(t)
		f, _ := checkGenerate(v)
		return f, nil
	case "parse":
		f, _ := checkParse(fromCps(c.Text))
		return f, nil
	case "deep":
		var dc deepCase
		if err := json.Unmarshal(raw, &dc); err != nil {
			return nil, err
		}
		return checkDeep(dc), nil
	case "unrepresentable":
		var t tagged
		if err := json.Unmarshal(c.Value, &t); err != nil {
			return nil, err
		}
		v, _ := fromTagged(t)
		return checkUnrepresentable(v, c.Bad, c.Plant), nil
	}
	return nil, fmt.Errorf("unknown sub-check %q", sub)
}

const genProg = "导入《@JSON》\n输入D\n令文 = （生成JSON：D）\n令回 = （解析JSON：文）\n输出【文，回，回 为 D】\n拦截异常：\n    输出“caught”"
// for values JSON cannot represent only the generation is attempted (a re-parse of whatever
// text came out would raise as well and hide an accepted value)
const genOnlyProg = "导入《@JSON》\n输入D\n输出【（生成JSON：D）】\n拦截异常：\n    输出“caught”"
const parseProg = "导入《@JSON》\n输入T\n输出（解析JSON：T）\n拦截异常：\n    输出“caught”"

func hasNonFinite(v zn.Value) bool {
	switch x := v.(type) {
	case float64:
		return math.IsNaN(x) || math.IsInf(x, 0)
	case *zn.ListV:
		for _, it := range x.Items {
			if hasNonFinite(it) {
				return true
			}
		}
	case *zn.DictV:
		for _, k := range x.Keys {
			if hasNonFinite(x.M[k]) {
				return true
			}
		}
	}
	return false
}

func checkGenerate(d zn.Value) ([]h.Failure, string) {
	prog := genProg
	if hasNonFinite(d) {
		prog = genOnlyProg
	}
	o := h.Run(prog, h.Opts{Inputs: map[string]r.Element{"D": zn.ToElem(d)}})
	desc := "dictionary " + zn.Show(d)
	switch o.Kind {
	case h.KPanic:
		return []h.Failure{{Sig: "generate/go-panic@" + o.PanicSite, Msg: desc + ": " + o.PanicMsg}}, ""
	case h.KBudget, h.KNil:
		return []h.Failure{{Sig: "generate/" + o.Kind, Msg: desc}}, ""
	case h.KError:
		return []h.Failure{{Sig: "generate/uncatchable-error", Msg: fmt.Sprintf("%s: the error escaped the 拦截异常 handler: %s", desc, o.Short())}}, ""
	}
	if hasNonFinite(d) {
		if o.ValText != "caught" || o.ValType != "string" {
			return []h.Failure{{Sig: "generate/non-finite-accepted", Msg: fmt.Sprintf("%s contains a number JSON cannot represent; expected a catchable exception, got %s", desc, o.Short())}}, ""
		}
		return nil, ""
	}
	arr, ok := o.Val.(*value.Array)
	if !ok || len(arr.GetValue()) != 3 {
		return []h.Failure{{Sig: "generate/raised", Msg: fmt.Sprintf("%s: generation or re-parsing raised: %s", desc, o.Short())}}, ""
	}
	text := arr.GetValue()[0].String()
	// (1) an independent parser reads the text back as the same structure
	pv, pok, special := pyLoads(text)
	if !pok {
		return []h.Failure{{Sig: "generate/invalid-json", Msg: fmt.Sprintf("%s: generated text %q is rejected by Python's json", desc, text)}}, ""
	}
	if special {
		return nil, "python value with surrogates/duplicates"
	}
	if ok, why := zn.Same(zn.ToElem(pv), d); !ok {
		return []h.Failure{{Sig: "generate/python-reads-differently", Msg: fmt.Sprintf("%s: generated %q; Python reads it as %s: %s", desc, text, zn.Show(pv), why)}}, ""
	}
	// (2) 解析JSON(生成JSON(d)) 为 d, keys in document order
	if ok, why := zn.Same(arr.GetValue()[1], d); !ok {
		return []h.Failure{{Sig: "generate/roundtrip-differs", Msg: fmt.Sprintf("%s: 解析JSON(生成JSON(d)) = %s: %s", desc, arr.GetValue()[1].String(), why)}}, ""
	}
	if ok, _ := zn.Same(arr.GetValue()[2], true); !ok {
		return []h.Failure{{Sig: "generate/roundtrip-not-equal", Msg: fmt.Sprintf("%s: 解析JSON(生成JSON(d)) 为 d is %s", desc, arr.GetValue()[2].String())}}, ""
	}
	return nil, ""
}

func checkParse(text string) ([]h.Failure, string) {
	o := h.Run(parseProg, h.Opts{Inputs: map[string]r.Element{"T": value.NewString(text)}})
	desc := fmt.Sprintf("document %q", text)
	switch o.Kind {
	case h.KPanic:
		return []h.Failure{{Sig: "parse/go-panic@" + o.PanicSite, Msg: desc + ": " + o.PanicMsg}}, ""
	case h.KBudget, h.KNil:
		return []h.Failure{{Sig: "parse/" + o.Kind, Msg: desc}}, ""
	case h.KError:
		return []h.Failure{{Sig: "parse/uncatchable-error", Msg: fmt.Sprintf("%s: the error escaped the 拦截异常 handler: %s", desc, o.Short())}}, ""
	}
	pv, pok, special := pyLoads(text)
	caught := o.ValType == "string" && o.ValText == "caught"
	if !pok {
		if !caught {
			return []h.Failure{{Sig: "parse/malformed-accepted", Msg: fmt.Sprintf("%s is malformed (rejected by Python's json) but 解析JSON returned %s", desc, o.Short())}}, ""
		}
		return nil, ""
	}
	if special {
		return nil, "non-finite numbers, surrogates or duplicate keys"
	}
	if _, isObj := pv.(*zn.DictV); !isObj {
		return nil, "top-level value is not an object"
	}
	if caught {
		return []h.Failure{{Sig: "parse/valid-rejected", Msg: fmt.Sprintf("%s is a valid object (%s) but 解析JSON raised", desc, zn.Show(pv))}}, ""
	}
	if ok, why := zn.Same(o.Val, pv); !ok {
		return []h.Failure{{Sig: "parse/wrong-value", Msg: fmt.Sprintf("%s: expected %s (keys in document order), got %s: %s", desc, zn.Show(pv), o.ValText, why)}}, ""
	}
	return nil, ""
}

// ---------------------------------------------------------------------------------------
// generators

func genKeyText() *rapid.Generator[string] {
	pieces := []string{"a", "b", "k", "键", "\"", "\\", "/", "\n", "\t", "\x00", "\x1f", "\u2028", "\u2029", "<", ">", "&", "😊", "𝒳", "é", " ", "", "0", "\u007f", "\ufeff", "\ufffd",
		// texts that LOOK like JSON escapes (a literal backslash followed by escape letters):
		// the encoder must escape the backslash, and nothing may re-interpret the result
		"\\u0026", "\\u003c", "\\u003e", "\\u2028", "\\u0000", "\\ud83d", "\\n", "\\\"", "\\\\", "\\/", "u0026", "\\u", "\\u00"}
	return rapid.Custom(func(t *rapid.T) string {
		n := rapid.IntRange(0, 4).Draw(t, "n")
		var b strings.Builder
		for i := 0; i < n; i++ {
			if rapid.IntRange(0, 5).Draw(t, "any") == 0 {
				c := rapid.Rune().Draw(t, "r")
				if c >= 0xD800 && c <= 0xDFFF {
					c = 'x'
				}
				b.WriteRune(c)
			} else {
				b.WriteString(rapid.SampledFrom(pieces).Draw(t, "p"))
			}
		}
		return b.String()
	})
}

func genNumber(allowNonFinite bool) *rapid.Generator[float64] {
	special := []float64{0, math.Copysign(0, -1), 1, -1, 0.1, 1e21, 1e20, 123456789012345680000, 5e-324, 1.7976931348623157e308, 9007199254740993, 1e-7, 1e-6, 0.000001234, 100, 2.5, -1e21}
	return rapid.Custom(func(t *rapid.T) float64 {
		switch rapid.IntRange(0, 3).Draw(t, "nk") {
		case 0:
			return rapid.SampledFrom(special).Draw(t, "sp")
		case 1:
			return float64(rapid.IntRange(-1000, 1000).Draw(t, "int"))
		default:
			f := zn.GenDouble().Draw(t, "f")
			if !allowNonFinite && (math.IsNaN(f) || math.IsInf(f, 0)) {
				return 7
			}
			return f
		}
	})
}

func genValue(t *rapid.T, depth int, nonFinite bool) zn.Value {
	k := rapid.IntRange(0, 9).Draw(t, "vk")
	if depth <= 0 && k >= 6 {
		k = rapid.IntRange(0, 5).Draw(t, "leaf")
	}
	switch k {
	case 0, 1:
		return genNumber(nonFinite).Draw(t, "num")
	case 2, 3:
		return genKeyText().Draw(t, "str")
	case 4:
		return rapid.Bool().Draw(t, "bool")
	case 5:
		return zn.NullV{}
	case 6, 7:
		l := &zn.ListV{}
		for i, n := 0, rapid.IntRange(0, 3).Draw(t, "ln"); i < n; i++ {
			l.Items = append(l.Items, genValue(t, depth-1, nonFinite))
		}
		return l
	default:
		return genDict(t, depth-1, nonFinite)
	}
}

func genDict(t *rapid.T, depth int, nonFinite bool) *zn.DictV {
	d := zn.NewDict()
	for i, n := 0, rapid.IntRange(0, 4).Draw(t, "dn"); i < n; i++ {
		d.Set(genKeyText().Draw(t, "key"), genValue(t, depth, nonFinite))
	}
	return d
}

func shape(v zn.Value, depth int) (maxDepth int, multiKey bool, escapes bool) {
	switch x := v.(type) {
	case string:
		for _, c := range x {
			if c < 0x20 || c == '"' || c == '\\' || c == 0x2028 || c == 0x2029 {
				escapes = true
			}
		}
		return depth, false, escapes
	case *zn.ListV:
		maxDepth = depth + 1
		for _, it := range x.Items {
			d, m, e := shape(it, depth+1)
			if d > maxDepth {
				maxDepth = d
			}
			multiKey = multiKey || m
			escapes = escapes || e
		}
		return
	case *zn.DictV:
		maxDepth = depth + 1
		if len(x.Keys) >= 2 && depth >= 1 {
			multiKey = true
		}
		for _, k := range x.Keys {
			_, _, ke := shape(k, depth)
			d, m, e := shape(x.M[k], depth+1)
			if d > maxDepth {
				maxDepth = d
			}
			multiKey = multiKey || m
			escapes = escapes || e || ke
		}
		return
	}
	return depth, false, false
}

func TestGenerate(t *testing.T) {
	rapid.Check(t, func(t *rapid.T) {
		nonFinite := rapid.IntRange(0, 9).Draw(t, "nonfinite") == 0
		d := genDict(t, rapid.IntRange(0, 4).Draw(t, "depth"), nonFinite)
		if nonFinite {
			// plant a number JSON cannot represent somewhere in the structure
			bad := rapid.SampledFrom([]float64{math.NaN(), math.Inf(1), math.Inf(-1)}).Draw(t, "bad")
			var cur zn.Value = d
			for hop := 0; hop < 4; hop++ {
				dd, ok := cur.(*zn.DictV)
				if !ok || len(dd.Keys) == 0 || rapid.Bool().Draw(t, "stop") {
					break
				}
				cur = dd.M[dd.Keys[rapid.IntRange(0, len(dd.Keys)-1).Draw(t, "hop")]]
			}
			switch x := cur.(type) {
			case *zn.DictV:
				x.Set("坏", bad)
			case *zn.ListV:
				x.Items = append(x.Items, bad)
			default:
				d.Set("坏", &zn.ListV{Items: []zn.Value{bad}})
			}
		}
		fails, unspec := checkGenerate(d)
		if unspec != "" {
			h.R.Skip("generate: " + unspec)
			return
		}
		md, mk, esc := shape(d, 0)
		labels := []string{}
		if hasNonFinite(d) {
			labels = append(labels, "non-finite")
		}
		if esc {
			labels = append(labels, "needs-escapes")
		}
		if md >= 3 {
			labels = append(labels, "depth>=3")
		}
		tv, _ := json.Marshal(toTagged(d))
		h.R.Case(t, "generate", string(tv), docCase{Value: tv}, labels, (md >= 2 && mk) || esc, fails)
	})
}

// values of the language that have no JSON form at all (methods, types, objects, exception
// values), planted somewhere in an otherwise representable dictionary
var badExprs = []string{"某法", "（新建狗）", "狗", "异常", "显示", "（新建异常：“m”）", "解析JSON"}
var plants = []string{"典#“坏” = 坏", "典#“坏” = 【1，坏】", "典#“坏” = 【“里” = 【坏，2】】", "典#“坏” = 【【【“a” = 坏】】】", "以典（写入：“坏”、【“x” = 1，“y” = 坏】）"}

func checkUnrepresentable(d zn.Value, bad, plant string) []h.Failure {
	prog := "导入《@JSON》\n输入D\n如何某法？\n    输出1\n定义狗：\n    其名 = 1\n令典 = D\n令坏 = " + bad + "\n" + plant + "\n输出【（生成JSON：典）】\n拦截异常：\n    输出“caught”"
	o := h.Run(prog, h.Opts{Inputs: map[string]r.Element{"D": zn.ToElem(d)}})
	desc := fmt.Sprintf("dictionary %s with %s planted by %s", zn.Show(d), bad, plant)
	switch o.Kind {
	case h.KPanic:
		return []h.Failure{{Sig: "unrepresentable/go-panic@" + o.PanicSite, Msg: desc + ": " + o.PanicMsg}}
	case h.KBudget, h.KNil:
		return []h.Failure{{Sig: "unrepresentable/" + o.Kind, Msg: desc}}
	case h.KError:
		return []h.Failure{{Sig: "unrepresentable/uncatchable-error", Msg: fmt.Sprintf("%s: the error escaped the 拦截异常 handler: %s", desc, o.Short())}}
	}
	if o.ValText != "caught" || o.ValType != "string" {
		return []h.Failure{{Sig: "unrepresentable/accepted", Msg: fmt.Sprintf("%s: the value has no JSON form; expected a catchable exception, got %s", desc, o.Short())}}
	}
	return nil
}

// deeply nested dictionaries: whatever 生成JSON writes, 解析JSON reads back (a depth one
// direction refuses must be refused by the other as well - with a catchable exception)
type deepCase struct {
	Depth int    `json:"depth"`
	Shape string `json:"shape"` // dict | list | mixed
}

const deepProg = "导入《@JSON》\n输入D\n令文 = （生成JSON：D）\n（显示：“generated”）\n令回 = （解析JSON：文）\n输出回 为 D\n拦截异常：\n    输出“caught”"

func checkDeep(c deepCase) []h.Failure {
	if strings.HasPrefix(c.Shape, "unclosed-") {
		// a malformed document: c.Depth opening levels that are never closed
		unit := map[string]string{"unclosed-objects": "{\"k\":", "unclosed-lists": "[", "unclosed-mixed": "{\"k\":["}[c.Shape]
		o := h.Run(parseProg, h.Opts{Inputs: map[string]r.Element{"T": value.NewString("{\"top\":" + strings.Repeat(unit, c.Depth))}, EvalTicks: 50000000})
		desc := fmt.Sprintf("the unclosed document {\"top\": followed by %d times %s", c.Depth, unit)
		if o.Kind != h.KValue || o.ValType != "string" || o.ValText != "caught" {
			return []h.Failure{{Sig: "deep/malformed-not-caught", Msg: fmt.Sprintf("%s must raise an exception the handler catches; got %s %s", desc, o.Short(), o.PanicMsg)}}
		}
		return nil
	}
	var v zn.Value = float64(1)
	for i := c.Depth; i >= 1; i-- {
		asList := c.Shape == "list" || (c.Shape == "mixed" && i%2 == 0)
		if asList && i > 1 {
			v = &zn.ListV{Items: []zn.Value{v}}
		} else {
			d := zn.NewDict()
			d.Set("a", v)
			v = d
		}
	}
	o := h.Run(deepProg, h.Opts{Inputs: map[string]r.Element{"D": zn.ToElem(v)}, EvalTicks: 50000000})
	desc := fmt.Sprintf("a dictionary nested %d levels deep (%s)", c.Depth, c.Shape)
	switch o.Kind {
	case h.KPanic:
		return []h.Failure{{Sig: "deep/go-panic@" + o.PanicSite, Msg: desc + ": " + o.PanicMsg}}
	case h.KBudget, h.KNil:
		return []h.Failure{{Sig: "deep/" + o.Kind, Msg: desc}}
	case h.KError:
		return []h.Failure{{Sig: "deep/uncatchable-error", Msg: fmt.Sprintf("%s: the error escaped the 拦截异常 handler: %s", desc, o.Short())}}
	}
	generated := len(o.Trace) > 0
	if !generated {
		if o.ValText != "caught" {
			return []h.Failure{{Sig: "deep/odd-outcome", Msg: desc + ": " + o.Short()}}
		}
		return nil // refused by the writer, with a catchable exception
	}
	if o.ValType != "bool" || o.ValText != "真" {
		return []h.Failure{{Sig: "deep/written-but-not-read-back", Msg: fmt.Sprintf("%s: 生成JSON wrote it, but 解析JSON of that text gives %s", desc, o.Short())}}
	}
	return nil
}

func TestDeepDictionaries(t *testing.T) {
	n := 0
	for _, shape := range []string{"dict", "list", "mixed"} {
		for _, d := range []int{1, 2, 100, 5000, 9998, 9999, 10000, 10001, 10002, 10003, 12000, 20001, 30000} {
			c := deepCase{Depth: d, Shape: shape}
			h.R.Case(t, "deep", fmt.Sprintf("%s-%d", shape, d), c, []string{"nesting-depth-" + shape}, d >= 9998, checkDeep(c))
			n++
		}
	}
	for _, shape := range []string{"unclosed-objects", "unclosed-lists", "unclosed-mixed"} {
		for _, d := range []int{1, 9999, 10001, 100000, 4000000} {
			c := deepCase{Depth: d, Shape: shape}
			h.R.Case(t, "deep", fmt.Sprintf("%s-%d", shape, d), c, []string{"malformed-deep-document:" + shape}, d > 10000, checkDeep(c))
		}
	}
	h.R.Exhaustive("deep", fmt.Sprintf("%d nesting depths around the documented bound (1..30000) x 3 shapes; unclosed documents of 1..4000000 levels x 3 shapes", n/3))
}

func TestUnrepresentable(t *testing.T) {
	rapid.Check(t, func(t *rapid.T) {
		d := genDict(t, rapid.IntRange(0, 2).Draw(t, "depth"), false)
		bad := rapid.SampledFrom(badExprs).Draw(t, "bad")
		plant := rapid.SampledFrom(plants).Draw(t, "plant")
		tv, _ := json.Marshal(toTagged(d))
		h.R.Case(t, "unrepresentable", string(tv)+bad+plant, docCase{Value: tv, Bad: bad, Plant: plant}, []string{"no-json-form:" + bad}, plant != plants[0], checkUnrepresentable(d, bad, plant))
	})
}

func TestParseIndependentDocuments(t *testing.T) {
	rapid.Check(t, func(t *rapid.T) {
		d := genDict(t, rapid.IntRange(0, 4).Draw(t, "depth"), false)
		ensure := rapid.Bool().Draw(t, "ensure_ascii")
		indent := rapid.SampledFrom([]int{-1, -1, 0, 2}).Draw(t, "indent")
		var seps []string
		if rapid.Bool().Draw(t, "seps") {
			seps = rapid.SampledFrom([][]string{{",", ":"}, {" , ", " : "}, {",\n", ":\t"}}).Draw(t, "sepv")
		}
		text, ok := pyDumps(d, ensure, indent, seps)
		if !ok {
			h.R.Skip("parse: python cannot encode the value: " + strings.SplitN(lastPyErr, ":", 2)[0])
			return
		}
		labels := []string{"python-document"}
		note := "python document"
		// single-character corruption
		if rapid.Bool().Draw(t, "corrupt") {
			rs := []rune(text)
			pos := rapid.IntRange(0, len(rs)).Draw(t, "pos")
			repl := rapid.SampledFrom([]rune{'{', '}', '[', ']', ',', ':', '"', '\\', '0', '1', 'e', '-', '.', 'n', 't', ' ', '\n', 'x', '\x00', '/', 'N', 'I', 'u'}).Draw(t, "repl")
			switch rapid.IntRange(0, 2).Draw(t, "ck") {
			case 0:
				if pos < len(rs) {
					rs = append(rs[:pos:pos], rs[pos+1:]...)
				}
			case 1:
				if pos < len(rs) {
					rs[pos] = repl
				}
			default:
				rs = append(rs[:pos:pos], append([]rune{repl}, rs[pos:]...)...)
			}
			text = string(rs)
			labels = append(labels, "corrupted")
			note = "corrupted python document"
		}
		fails, unspec := checkParse(text)
		if unspec != "" {
			h.R.Skip("parse: " + unspec)
			return
		}
		md, mk, esc := shape(d, 0)
		h.R.Case(t, "parse", text, docCase{Text: cps(text), Note: note}, labels, (md >= 2 && mk) || esc, fails)
	})
}

func TestCorpus(t *testing.T) { h.RunCorpus(t, "c19", replay) }
