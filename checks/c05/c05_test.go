// C05 - compilation and error display terminate cleanly on every input
package c05

import (
	"encoding/json"
	"fmt"
	"math"
	"regexp"
	"runtime"
	"sort"
	"strings"
	"syscall"
	"testing"
	"time"

	zerr "github.com/DemoHn/Zn/pkg/error"
	"github.com/DemoHn/Zn/pkg/exec"
	r "github.com/DemoHn/Zn/pkg/runtime"
	"github.com/DemoHn/Zn/pkg/syntax"
	"github.com/DemoHn/Zn/pkg/syntax/zh"
	"pgregory.net/rapid"

	h "verif/harness"
)

func TestMain(m *testing.M) { h.Main(m, "C05", replay) }

type srcCase struct {
	Src string `json:"src"`
}

func replay(sub string, raw json.RawMessage) ([]h.Failure, error) {
	var c srcCase
	if err := json.Unmarshal(raw, &c); err != nil {
		return nil, err
	}
	switch sub {
	case "scaling":
		f, _ := checkScaling(c.Src)
		return f, nil
	case "varinput":
		return checkVarInput(c.Src), nil
	default:
		return checkFront(c.Src), nil
	}
}

var lineSplit = regexp.MustCompile(`\r\n|\n\r|\r|\n`)

// checkFront - validity predicate of the front end on one source text
func checkFront(src string) []h.Failure {
	pr := h.Parse(src, 0)
	runes := []rune(src)
	switch pr.Kind {
	case h.KBudget:
		return []h.Failure{{Sig: "front/budget-exceeded@" + pr.PanicSite, Msg: fmt.Sprintf("source %q: parser did not terminate within %d ticks (64*len+256)", src, pr.Ticks)}}
	case h.KPanic:
		return []h.Failure{{Sig: "front/go-panic@" + pr.PanicSite, Msg: fmt.Sprintf("source %q: Parse panicked (Go value, not an error): %s", src, pr.PanicMsg)}}
	case h.KValue:
		if why := pr.SourceIntact(); why != "" {
			return []h.Failure{{Sig: "front/source-modified", Msg: fmt.Sprintf("source %q: after compiling, %s", src, why)}}
		}
		_, missing := h.DumpProgram(pr.Program)
		if len(missing) > 0 {
			return []h.Failure{{Sig: "front/incomplete-tree@" + missing[0], Msg: fmt.Sprintf("source %q: accepted, but the tree lacks required parts %v", src, missing)}}
		}
		// a tree for the whole text, not for a prefix of it: the front end has read every
		// character before it accepted the program
		if cur := pr.Parser.GetCursor(); cur < len(runes) {
			return []h.Failure{{Sig: "front/accepted-without-reading-all", Msg: fmt.Sprintf("source %q (%d chars): accepted after reading %d characters only - the tree stands for a prefix of the text", src, len(runes), cur)}}
		}
		return nil
	}
	// error path
	if pr.Program != nil {
		return []h.Failure{{Sig: "front/tree-and-error", Msg: fmt.Sprintf("source %q: a syntax error (%v) AND a tree were returned", src, pr.Err)}}
	}
	se, ok := pr.Err.(*zerr.SyntaxError)
	if !ok {
		return []h.Failure{{Sig: fmt.Sprintf("front/non-syntax-error@%T", pr.Err), Msg: fmt.Sprintf("source %q: Parse returned %T %q instead of a syntax error", src, pr.Err, pr.Err.Error())}}
	}
	var fails []h.Failure
	if se.Code < 20 || se.Code > 27 {
		fails = append(fails, h.Failure{Sig: "front/bad-error-code", Msg: fmt.Sprintf("source %q: syntax error code %d", src, se.Code)})
	}
	if se.Cursor < 0 || se.Cursor > len(runes) {
		fails = append(fails, h.Failure{Sig: fmt.Sprintf("front/cursor-out-of-range@code%d", se.Code), Msg: fmt.Sprintf("source %q (%d chars): error position %d lies outside the text", src, len(runes), se.Cursor)})
	}
	var text string
	kind, msg, site := h.Guard(func() {
		text = exec.DisplayError(exec.WrapSyntaxError(pr.Parser, exec.MODULE_NAME_MAIN, pr.Err))
	})
	if kind != "" {
		fails = append(fails, h.Failure{Sig: "front/display-panic@" + site, Msg: fmt.Sprintf("source %q: rendering the error (code %d cursor %d) panicked: %s", src, se.Code, se.Cursor, msg)})
	}
	if why := pr.SourceIntact(); why != "" {
		fails = append(fails, h.Failure{Sig: "front/source-modified", Msg: fmt.Sprintf("source %q: after compiling and rendering the error, %s", src, why)})
		return fails
	}
	// quoted line: second line of the rendering, 4-space prefix
	lines := strings.Split(text, "\n")
	if len(lines) < 2 || !strings.HasPrefix(lines[1], "    ") {
		fails = append(fails, h.Failure{Sig: "front/no-quoted-line", Msg: fmt.Sprintf("source %q: rendering has no quoted source line:\n%s", src, text)})
		return fails
	}
	quoted := strings.TrimPrefix(lines[1], "    ")
	found := false
	for _, ln := range lineSplit.Split(src, -1) {
		// the renderer strips indentation of every line but the first; either form is
		// "a line that exists in the source"
		if strings.TrimLeft(ln, " \t") == strings.TrimLeft(quoted, " \t") {
			found = true
			break
		}
	}
	if !found {
		fails = append(fails, h.Failure{Sig: "front/bad-quoted-line", Msg: fmt.Sprintf("source %q: rendering quotes %q which is not a line of the source\n%s", src, quoted, text)})
	}
	return fails
}

func checkVarInput(src string) []h.Failure {
	var m r.ElementMap
	var err error
	exec.VerifTicks, exec.VerifTickBudget, exec.VerifMaxDepth, exec.VerifDepth = 0, 100000, 2000, 0
	zh.VerifTicks, zh.VerifTickBudget = 0, int64(64*len([]rune(src))+256)
	syntax.VerifTicks, syntax.VerifTickBudget = 0, int64(16*len([]rune(src))+256)
	var kind, msg, site string
	h.Capture(func() {
		kind, msg, site = h.Guard(func() { m, err = exec.ExecVarInputText(src) })
	})
	exec.VerifTickBudget, exec.VerifMaxDepth, zh.VerifTickBudget, syntax.VerifTickBudget = 0, 0, 0, 0
	switch kind {
	case h.KBudget:
		return []h.Failure{{Sig: "varinput/budget-exceeded@" + site, Msg: fmt.Sprintf("input text %q: did not terminate within budget (%s)", src, msg)}}
	case h.KPanic:
		return []h.Failure{{Sig: "varinput/go-panic@" + site, Msg: fmt.Sprintf("input text %q: panicked: %s", src, msg)}}
	}
	if err == nil && m == nil {
		return []h.Failure{{Sig: "varinput/nil-nil", Msg: fmt.Sprintf("input text %q: (nil, nil)", src)}}
	}
	if err == nil {
		for k, v := range m {
			if v == nil {
				return []h.Failure{{Sig: "varinput/nil-element", Msg: fmt.Sprintf("input text %q: name %q bound to a nil element", src, k)}}
			}
		}
	}
	return nil
}

// ---------------------------------------------------------------------------------------
// inputs

var hostile = []string{"`", "“", "”", "「", "」", "‘", "’", "『", "』", "《", "》", "【", "】", "（", "）", "{", "}", "\r", "\n", "\r\n", "\t", "    ", " ", "\x00", "注", "注：", "注1：「", "/", "*", "/*", "*/", "//", "：", "？", "！", "，", "、", "；", "=", "#", "&", "@", "|", "%", "~", "😊", "𝒳", "​", "　",
	"令", "为", "以", "其", "之", "的", "如果", "再如", "否则", "每当", "遍历", "如何", "何为", "输入", "输出", "导入", "定义", "拦截", "抛出", "新建", "得到", "恒为", "设为", "继续循环", "结束循环", "且", "或", "等于", "不为", "`U+", "`CR`", "`BK`", "1", "A", "异常",
	// the ASCII twins of the punctuation marks
	",", ":", ";", "?", "!", "[", "]", "(", ")", "==", "/=", ">=", "<=", "<", ">", "+", "-", ".", "\"", "'"}

func mutate(t *rapid.T, seeds []string) string {
	base := []rune(rapid.SampledFrom(seeds).Draw(t, "seed"))
	n := rapid.IntRange(1, 4).Draw(t, "nmut")
	for i := 0; i < n; i++ {
		L := len(base)
		pos := 0
		if L > 0 {
			pos = rapid.IntRange(0, L).Draw(t, "pos")
		}
		switch rapid.IntRange(0, 6).Draw(t, "op") {
		case 0: // delete a span
			if L > 0 {
				end := pos + rapid.IntRange(1, 4).Draw(t, "len")
				if end > L {
					end = L
				}
				base = append(append([]rune{}, base[:pos]...), base[end:]...)
			}
		case 1: // duplicate a span
			if L > 0 {
				end := pos + rapid.IntRange(1, 8).Draw(t, "len")
				if end > L {
					end = L
				}
				span := append([]rune{}, base[pos:end]...)
				base = append(append(append([]rune{}, base[:end]...), span...), base[end:]...)
			}
		case 2: // splice from another seed
			other := []rune(rapid.SampledFrom(seeds).Draw(t, "other"))
			if len(other) > 0 {
				a := rapid.IntRange(0, len(other)-1).Draw(t, "a")
				b := a + rapid.IntRange(1, 20).Draw(t, "blen")
				if b > len(other) {
					b = len(other)
				}
				base = append(append(append([]rune{}, base[:pos]...), other[a:b]...), base[pos:]...)
			}
		case 3: // truncate
			base = base[:pos]
		case 4: // cut prefix
			base = base[pos:]
		case 5, 6: // insert / replace by a hostile piece
			hs := []rune(rapid.SampledFrom(hostile).Draw(t, "hostile"))
			if rapid.Bool().Draw(t, "replace") && pos < len(base) {
				base = append(append(append([]rune{}, base[:pos]...), hs...), base[pos+1:]...)
			} else {
				base = append(append(append([]rune{}, base[:pos]...), hs...), base[pos:]...)
			}
		}
	}
	return string(base)
}

func labelsOf(src string, fails []h.Failure) ([]string, bool) {
	var labels []string
	pr := h.Parse(src, 0)
	switch pr.Kind {
	case h.KValue:
		labels = append(labels, "accepted")
	case h.KError:
		if se, ok := pr.Err.(*zerr.SyntaxError); ok {
			labels = append(labels, fmt.Sprintf("syntax-error-%d", se.Code))
		}
	}
	if strings.ContainsAny(src, "\r\n") {
		labels = append(labels, "multiline")
	}
	if strings.ContainsAny(src, "`“「《‘『") {
		labels = append(labels, "quote-or-backtick")
	}
	// non-trivial: more than one token kind involved - at least 3 runes and not pure letters
	nt := len([]rune(src)) >= 3
	return labels, nt
}

var seedsCache []string

func seeds() []string {
	if seedsCache == nil {
		seedsCache = h.SeedSources()
		if len(seedsCache) < 50 {
			panic(fmt.Sprintf("only %d seed sources found", len(seedsCache)))
		}
	}
	return seedsCache
}

func runBoth(t h.TB, sub string, src string) {
	fails := checkFront(src)
	labels, nt := labelsOf(src, fails)
	h.R.Case(t, sub, src, srcCase{src}, labels, nt, fails)
	vf := checkVarInput(src)
	h.R.Case(t, "varinput", src, srcCase{src}, []string{"varinput"}, false, vf)
}

func TestMutations(t *testing.T) {
	sd := seeds()
	rapid.Check(t, func(t *rapid.T) {
		src := mutate(t, sd)
		runBoth(t, "mutation", src)
	})
}

func TestHostileRandom(t *testing.T) {
	piece := rapid.OneOf(rapid.SampledFrom(hostile), rapid.SampledFrom(hostile), rapid.StringMatching(`[A-C0-2变量甲乙]{1,3}`))
	rapid.Check(t, func(t *rapid.T) {
		ps := rapid.SliceOfN(piece, 1, 12).Draw(t, "pieces")
		src := strings.Join(ps, "")
		runBoth(t, "hostile", src)
	})
}

// TestCuts - exhaustive truncation and prefix-cut of every seed at every rune offset
func TestCuts(t *testing.T) {
	sd := seeds()
	shard, nsh := h.Shard(), h.NShards()
	n := 0
	for si, s := range sd {
		if si%nsh != shard {
			continue
		}
		rs := []rune(s)
		for i := 0; i <= len(rs); i++ {
			for _, src := range []string{string(rs[:i]), string(rs[i:])} {
				fails := checkFront(src)
				h.R.Case(t, "cuts", src, srcCase{src}, []string{"cut"}, len([]rune(src)) >= 3, fails)
				n++
			}
		}
	}
	h.R.Exhaustive("cuts", fmt.Sprintf("every truncation and prefix-cut of %d seed sources", len(sd)))
	h.R.Extra("seed_sources", len(sd))
}

// TestEveryCodePoint - every Unicode scalar value, placed (a) inside a text literal before a
// syntax error on the same line, (b) as the offending character itself, (c) inside an
// identifier before the error, (d) in a comment line above the error: the front end must
// reject (or accept) cleanly and the error must render (the renderer measures the display
// width of every character before the error position)
func TestEveryCodePoint(t *testing.T) {
	shard, nsh := h.Shard(), h.NShards()
	templates := []string{"令A = “%c” 令B = 2", "令A = 1 %c 令", "令A%c = = 1", "注：%c\n令A = “x%c”」"}
	if !h.Thorough() {
		templates = templates[:2]
	}
	var n int64
	for cp := rune(shard); cp <= 0x10FFFF; cp += rune(nsh) {
		if cp >= 0xD800 && cp <= 0xDFFF {
			continue
		}
		for ti, tpl := range templates {
			src := strings.ReplaceAll(tpl, "%c", string(cp))
			fails := checkFront(src)
			n++
			if len(fails) > 0 || (int(cp)%9973 == 0 && ti == 0) {
				h.R.Case(t, "codepoint", src, srcCase{src}, []string{fmt.Sprintf("plane-%d", cp>>16)}, true, fails)
			}
		}
	}
	h.R.AddEvals(n)
	h.R.AddDistinct(n)
	h.R.Count("codepoint-sources", n)
	h.R.Exhaustive("codepoint", fmt.Sprintf("every Unicode scalar value in %d source templates (shard %d/%d)", len(templates), shard, nsh))
}

// TestDeepNesting - sources that nest one construct very deeply (far deeper than any program
// would): the front end answers with a tree or a syntax error; it must not exhaust the stack
// of the host process (that is a fatal error no handler can catch)
func TestDeepNesting(t *testing.T) {
	depths := []int{100, 1999, 2000, 2001, 10000, 200000, 1500000}
	if h.Thorough() {
		depths = append(depths, 4000000)
	}
	shapes := []struct{ name, open, mid, close string }{
		{"braces", "{", "A", "}"},
		{"lists", "【", "1", "】"},
		{"calls", "（F：", "1", "）"},
		{"dictionaries", "【“k” = ", "1", "】"},
		{"unclosed-braces", "{", "A", ""},
		{"method-chains", "以", "A（F）", "（F）"},
		{"not-operators", "A + ", "1", ""},
	}
	for _, sh := range shapes {
		for _, n := range depths {
			src := "令甲 = " + strings.Repeat(sh.open, n) + sh.mid + strings.Repeat(sh.close, n) + "\n输出甲\n"
			h.TrackCurrent(fmt.Sprintf("deep nesting: %s x %d", sh.name, n))
			fails := checkFront(src)
			c := srcCase{Src: src}
			if n > 3000 {
				c = srcCase{Src: fmt.Sprintf("<%s nested %d deep>", sh.name, n)} // (kept out of the evidence file)
			}
			h.R.Case(t, "nesting", fmt.Sprintf("%s-%d", sh.name, n), c, []string{"deep-" + sh.name}, true, fails)
		}
	}
	// blocks nested by indentation
	// (TAB indentation: the text grows with the square of the depth)
	for _, n := range []int{100, 1500, 2500, 6000} {
		var b strings.Builder
		for i := 0; i < n; i++ {
			b.WriteString(strings.Repeat("\t", i) + "如果真：\n")
		}
		b.WriteString(strings.Repeat("\t", n) + "输出1\n")
		src := b.String()
		h.TrackCurrent(fmt.Sprintf("deep nesting: blocks x %d", n))
		fails := checkFront(src)
		h.R.Case(t, "nesting", fmt.Sprintf("blocks-%d", n), srcCase{Src: fmt.Sprintf("<如果 blocks nested %d deep>", n)}, []string{"deep-blocks"}, true, fails)
	}
}

// ---------------------------------------------------------------------------------------
// "promptly": the time to compile a program grows about linearly with its number of lines.
// Measured as CPU time of the compiling thread (not wall clock), smallest of three runs, for
// the same line repeated 10000 and 80000 times: 8 times the text may cost up to 24 times the
// time (a quadratic front end needs 64 times)

var scalingShapes = map[string]string{
	"declarations":     "令A = 1\n",
	"calls":            "（显示：1、2）\n",
	"blocks":           "如果真：\n    （显示：1）\n",
	"multi-line texts": "（显示：“a\nb”）\n",
	"comments":         "注：说明\n令A = 1 // 尾注\n",
	"list lines":       "【1，2，\n    3】\n",
}

// shapes that are not one line repeated: one construct of n parts (followed by n further parts)
var scalingBuilders = map[string]func(n int) string{
	"statements after a long text, on its last line": func(n int) string {
		return "令甲 = “" + strings.Repeat("行\n", n) + "”" + strings.Repeat("；（显示：1）", n) + "\n"
	},
	"statements after a long block comment, on its last line": func(n int) string {
		return "/* " + strings.Repeat("行\n", n) + "*/ 令甲 = 1" + strings.Repeat("；（显示：1）", n) + "\n"
	},
	"statements on one line": func(n int) string { return "令甲 = 1" + strings.Repeat("；（显示：1）", n) + "\n" },
	"one list over many lines": func(n int) string { return "令甲 = 【" + strings.Repeat("1，\n    ", n) + "2】\n" },
	"one dictionary over many lines": func(n int) string {
		var b strings.Builder
		b.WriteString("令甲 = 【")
		for i := 0; i < n; i++ {
			fmt.Fprintf(&b, "“k%d” = 1，\n    ", i)
		}
		b.WriteString("“z” = 2】\n")
		return b.String()
	},
	"one call with many arguments": func(n int) string { return "（显示：1" + strings.Repeat("、\n    2", n) + "）\n" },
	"block of many statements inside a text-headed block": func(n int) string {
		return "如果“a\nb” == “c”：\n" + strings.Repeat("    （显示：“x\ny”）\n", n)
	},
	"syntax error after many lines": func(n int) string { return strings.Repeat("令A = 1\n", n) + "令B = ~\n" },
	"syntax error on a line after a long text": func(n int) string {
		return "令甲 = “" + strings.Repeat("行\n", n) + "”；令B = ~\n"
	},
}

func threadCPU() time.Duration {
	var ru syscall.Rusage
	syscall.Getrusage(1 /* RUSAGE_THREAD */, &ru)
	// user time only: system time is page faults of a machine under memory pressure, not
	// work of the front end
	return time.Duration(ru.Utime.Nano())
}

func compileCPU(src string) (time.Duration, error) {
	best := time.Duration(1 << 62)
	var err error
	for i := 0; i < 3; i++ {
		runes := []rune(src)
		t0 := threadCPU()
		pr := syntax.NewParser(runes, zh.NewParserZH())
		_, err = pr.Compile()
		if err != nil {
			_ = exec.DisplayError(exec.WrapSyntaxError(pr, exec.MODULE_NAME_MAIN, err))
		}
		if d := threadCPU() - t0; d < best {
			best = d
		}
	}
	return best, err
}

func maxDur(a, b time.Duration) time.Duration {
	if a > b {
		return a
	}
	return b
}

func checkScaling(shape string) ([]h.Failure, float64) {
	unit, repeated := scalingShapes[shape]
	build := func(n int) string { return strings.Repeat(unit, n) }
	if !repeated {
		build = scalingBuilders[shape]
		unit = build(2)
	}
	runtime.LockOSThread()
	defer runtime.UnlockOSThread()
	small, err1 := compileCPU(build(10000))
	large, err2 := compileCPU(build(80000))
	// a ratio above the bound is measured again (twice, after a collection): only a ratio that
	// stays above it every time is reported - a loaded machine distorts single measurements
	for attempt := 0; attempt < 2 && err1 == nil && err2 == nil && small > 0 && float64(large)/float64(maxDur(small, time.Millisecond)) > 24; attempt++ {
		runtime.GC()
		s2, _ := compileCPU(build(10000))
		l2, _ := compileCPU(build(80000))
		if float64(l2)/float64(maxDur(s2, time.Millisecond)) < float64(large)/float64(maxDur(small, time.Millisecond)) {
			small, large = s2, l2
		}
	}
	if strings.HasPrefix(shape, "syntax error") {
		// the program is rejected: compiling it AND rendering the error is what is timed
		if err1 == nil || err2 == nil {
			return []h.Failure{{Sig: "scaling/invalid-program-accepted", Msg: shape}}, 0
		}
		err1, err2 = nil, nil
	}
	if err1 != nil || err2 != nil {
		return []h.Failure{{Sig: "scaling/valid-program-rejected", Msg: fmt.Sprintf("%q repeated: %v / %v", unit, err1, err2)}}, 0
	}
	if small < time.Millisecond {
		small = time.Millisecond
	}
	ratio := float64(large) / float64(small)
	if ratio > 24 {
		return []h.Failure{{Sig: "scaling/superlinear-compile-time", Msg: fmt.Sprintf("the line %q repeated 10000 times compiles in %v of CPU time, repeated 80000 times in %v: %.1f times as long for 8 times the text", unit, small, large, ratio)}}, ratio
	}
	return nil, ratio
}

func TestCompileScaling(t *testing.T) {
	names := make([]string, 0, len(scalingShapes))
	for n := range scalingShapes {
		names = append(names, n)
	}
	for n := range scalingBuilders {
		names = append(names, n)
	}
	sort.Strings(names)
	ratios := map[string]float64{}
	for _, n := range names {
		fails, ratio := checkScaling(n)
		ratios[n] = math.Round(ratio*10) / 10
		h.R.Case(t, "scaling", n, srcCase{n}, []string{"scaling:" + n}, true, fails)
	}
	h.R.Extra("compile_cpu_time_ratio_80000_vs_10000_lines", ratios)
}

func TestSeedsThemselves(t *testing.T) {
	for _, s := range seeds() {
		runBoth(t, "seed", s)
	}
}

func TestCorpus(t *testing.T) { h.RunCorpus(t, "c05", replay) }
