package c14

// Histories on ONE text object: after any sequence of members applied to the same value,
// 长度 / 字数, 字符组, 取样 and 分隔("") must still describe the text the object now holds
// (whatever an earlier member did to it): they "count Unicode characters consistently".

import (
	"encoding/json"
	"fmt"
	"strings"
	"testing"

	r "github.com/DemoHn/Zn/pkg/runtime"
	"github.com/DemoHn/Zn/pkg/value"
	"pgregory.net/rapid"
	h "verif/harness"
	"verif/zn"
)

type histOp struct {
	Name string `json:"name"`
	I    int    `json:"i,omitempty"`
	J    int    `json:"j,omitempty"`
	Arg  string `json:"arg,omitempty"`
}

type histCase struct {
	Text string   `json:"text"`
	Ops  []histOp `json:"ops"`
}

func invariants(s *value.String) *h.Failure {
	cur := s.GetValue()
	runes := []rune(cur)
	n := len(runes)
	for _, g := range []string{"长度", "字数"} {
		ln, err := s.GetProperty(g)
		if err != nil {
			return &h.Failure{Sig: "history/length-error", Msg: err.Error()}
		}
		if ok, why := zn.Same(ln, float64(n)); !ok {
			return &h.Failure{Sig: "history/length", Msg: fmt.Sprintf("the text is now %q (%d characters), %s: %s", cur, n, g, why)}
		}
	}
	want := &zn.ListV{}
	for _, x := range runes {
		want.Items = append(want.Items, string(x))
	}
	ca, err := s.GetProperty("字符组")
	if err != nil {
		return &h.Failure{Sig: "history/array-error", Msg: err.Error()}
	}
	if ok, why := zn.Same(ca, want); !ok {
		return &h.Failure{Sig: "history/array", Msg: fmt.Sprintf("the text is now %q, 字符组: %s", cur, why)}
	}
	if n > 0 {
		for _, ij := range [][2]int{{1, n}, {n, n}, {1, 1}, {(n + 1) / 2, n}} {
			got, err := s.ExecMethod("取样", []r.Element{value.NewNumber(float64(ij[0])), value.NewNumber(float64(ij[1]))})
			wantS := string(runes[ij[0]-1 : ij[1]])
			if err != nil {
				return &h.Failure{Sig: "history/slice-rejected", Msg: fmt.Sprintf("the text is now %q (%d characters): 取样(%d,%d) must be %q; got error %v", cur, n, ij[0], ij[1], wantS, err)}
			}
			if gs, ok := strOf(got); !ok || gs != wantS {
				return &h.Failure{Sig: "history/slice-wrong", Msg: fmt.Sprintf("the text is now %q: 取样(%d,%d) must be %q; got %q", cur, ij[0], ij[1], wantS, got.String())}
			}
		}
	}
	// one past the end is outside the text
	if got, err := s.ExecMethod("取样", []r.Element{value.NewNumber(1), value.NewNumber(float64(n + 1))}); err == nil {
		if gs, ok := strOf(got); ok && len([]rune(gs)) > n {
			return &h.Failure{Sig: "history/slice-past-end", Msg: fmt.Sprintf("the text is now %q (%d characters): 取样(1,%d) returned %q", cur, n, n+1, gs)}
		}
	}
	return nil
}

func checkHistory(c histCase) (fails []h.Failure) {
	var hist []string
	kind, msg, site := h.Guard(func() {
		s := value.NewString(c.Text)
		for _, op := range c.Ops {
			hist = append(hist, fmt.Sprintf("%s(%d,%d,%q)", op.Name, op.I, op.J, op.Arg))
			switch op.Name {
			case "长度", "字数", "文本", "字符组":
				s.GetProperty(op.Name)
			case "取样":
				s.ExecMethod("取样", []r.Element{value.NewNumber(float64(op.I)), value.NewNumber(float64(op.J))})
			case "替换":
				s.ExecMethod("替换", []r.Element{value.NewString(op.Arg), value.NewString("换")})
			case "拼接":
				s.ExecMethod("拼接", []r.Element{value.NewArray([]r.Element{value.NewString("x"), value.NewString("y")})})
			case "格式化":
				s.ExecMethod("格式化", []r.Element{value.NewArray([]r.Element{value.NewNumber(1)})})
			case "转换数值", "去除空格", "转小写-英文", "转大写-英文":
				s.ExecMethod(op.Name, nil)
			default:
				s.ExecMethod(op.Name, []r.Element{value.NewString(op.Arg)})
			}
			// every member of a text answers with a NEW value: the object keeps the characters
			// it was made of (its length and character array are those of the text written)
			if now := s.GetValue(); now != c.Text {
				fails = append(fails, h.Failure{Sig: "history/receiver-changed", Msg: fmt.Sprintf("text %q after %s\nthe object now holds %q (%d characters instead of %d)", c.Text, strings.Join(hist, "; "), now, len([]rune(now)), len([]rune(c.Text)))})
				return
			}
			if f := invariants(s); f != nil {
				f.Msg = fmt.Sprintf("text %q after %s\n%s", c.Text, strings.Join(hist, "; "), f.Msg)
				fails = append(fails, *f)
				return
			}
		}
	})
	if kind != "" {
		fails = append(fails, h.Failure{Sig: "history/" + kind + "@" + site, Msg: fmt.Sprintf("text %q after %s: %s", c.Text, strings.Join(hist, "; "), msg)})
	}
	return
}

var histNames = []string{"长度", "字数", "文本", "字符组", "取样", "替换", "分隔", "匹配", "匹配开头", "匹配结尾", "去除空格", "转小写-英文", "转大写-英文", "拼接", "格式化", "转换数值"}

func TestCharsHistories(t *testing.T) {
	numeric := []string{"12*^3", "1*10^5", "-3*^-2", "12", "1e5", " 7 ", "Ab*^C", "你*10^好", "{}*^2", "😊*^1"}
	rapid.Check(t, func(t *rapid.T) {
		c := histCase{}
		if rapid.Bool().Draw(t, "numeric") {
			c.Text = rapid.SampledFrom(numeric).Draw(t, "num")
		} else {
			c.Text = genText().Draw(t, "text")
		}
		n := len([]rune(c.Text))
		rewrites := 0
		for i, k := 0, rapid.IntRange(2, 6).Draw(t, "nops"); i < k; i++ {
			op := histOp{Name: rapid.SampledFrom(histNames).Draw(t, "op")}
			switch op.Name {
			case "取样":
				op.I = rapid.IntRange(0, n+1).Draw(t, "i")
				op.J = rapid.IntRange(0, n+1).Draw(t, "j")
			case "转换数值", "去除空格", "转小写-英文", "转大写-英文":
				rewrites++
			default:
				op.Arg = rapid.SampledFrom([]string{"", "a", "*", "^", "你", " "}).Draw(t, "arg")
			}
			c.Ops = append(c.Ops, op)
		}
		key, _ := json.Marshal(c)
		h.R.Case(t, "history", string(key), c, []string{"one-text-object-history"}, rewrites > 0, checkHistory(c))
	})
}
