package c16

import (
	"encoding/json"
	"fmt"
	"io"
	"net/http/httptest"
	"os"
	"path/filepath"
	"strings"
	"sync/atomic"
	"testing"

	"github.com/DemoHn/Zn/pkg/exec"
	"github.com/DemoHn/Zn/pkg/server"
	"pgregory.net/rapid"

	h "verif/harness"
)

// Requests served one after the other by ONE ZnHttpHandler: the program of every request
// changes the parts of ITS OWN request in place (the query dictionary, the header dictionary)
// and answers with what it then holds. Every request must be answered exactly as the same
// request is answered by a fresh interpreter and handler that has served nothing before
// (differential: after a history / alone). Requests without a query string, without headers,
// with the same and with different paths are drawn - a part that two requests have in common
// must not be one object.

type reqShape struct {
	Path    string     `json:"path"`
	Query   string     `json:"query,omitempty"`
	Headers [][2]string `json:"headers,omitempty"`
}

type reqSeqCase struct {
	Program  string     `json:"program"`
	Requests []reqShape `json:"requests"`
}

var reqPrograms = []string{
	"输入当前请求\n以当前请求之查询参数（写入：“已见”、1）\n以当前请求之查询参数（写入：当前请求之路径、1）\n输出当前请求之查询参数之长度",
	"输入当前请求\n以当前请求之头部（写入：“已见”、1）\n以当前请求之头部（写入：当前请求之路径、1）\n输出当前请求之头部之长度",
	"输入当前请求\n以当前请求之查询参数（写入：当前请求之URL、当前请求之方法）\n输出（生成JSON：当前请求之查询参数）",
	"输入当前请求\n以当前请求之头部（写入：当前请求之URL、当前请求之方法）\n输出（生成JSON：当前请求之头部）",
	"输入当前请求\n以当前请求之查询参数（移除：“a”）\n以当前请求之查询参数（写入：当前请求之路径、“x”）\n输出（生成JSON：【当前请求之查询参数，当前请求之头部】）",
}

var reqDirSeq int64
var reqAnswered, reqAnswered200 int64

func serveAll(c reqSeqCase, fresh bool) []string {
	dir := filepath.Join(tmpDir, fmt.Sprintf("req-%d", atomic.AddInt64(&reqDirSeq, 1)))
	os.MkdirAll(dir, 0o755)
	defer os.RemoveAll(dir)
	entry := filepath.Join(dir, "entry.zn")
	os.WriteFile(entry, []byte("导入《@JSON》\n"+c.Program), 0o644)
	var hh *server.ZnHttpHandler
	out := make([]string, len(c.Requests))
	for i, q := range c.Requests {
		if hh == nil || fresh {
			hh = server.NewZnHttpHandler(exec.NewInterpreter("verif").SetExternalLibs(libs()), entry)
		}
		url := "http://zn.test" + q.Path
		if q.Query != "" {
			url += "?" + q.Query
		}
		req := httptest.NewRequest("GET", url, nil)
		for k := range req.Header {
			delete(req.Header, k)
		}
		for _, kv := range q.Headers {
			req.Header.Set(kv[0], kv[1])
		}
		rec := httptest.NewRecorder()
		kind, msg, site := h.Guard(func() { hh.ServeHTTP(rec, req) })
		b, _ := io.ReadAll(rec.Body)
		out[i] = fmt.Sprintf("%d %s", rec.Code, string(b))
		if kind != "" {
			out[i] = kind + ": " + msg + " @" + site
		}
	}
	return out
}

func checkRequestSequence(c reqSeqCase) []h.Failure {
	alone := serveAll(c, true)
	seq := serveAll(c, false)
	for i := range alone {
		atomic.AddInt64(&reqAnswered, 1)
		if strings.HasPrefix(alone[i], "200 ") {
			atomic.AddInt64(&reqAnswered200, 1)
		}
		if strings.HasPrefix(alone[i], "panic") {
			return []h.Failure{{Sig: "requests/go-panic", Msg: fmt.Sprintf("program:\n%s\nrequest %+v alone: %s", c.Program, c.Requests[i], alone[i])}}
		}
		if alone[i] != seq[i] {
			js, _ := json.Marshal(c.Requests[:i+1])
			return []h.Failure{{Sig: "requests/answer-depends-on-earlier-requests", Msg: fmt.Sprintf("handler program:\n%s\nrequests served by one handler: %s\nrequest %d is answered %q by a fresh handler (these answers are computed first, in the same process) and %q by the one handler", c.Program, js, i+1, alone[i], seq[i])}}
		}
	}
	return nil
}

func TestRequestSequences(t *testing.T) {
	shape := rapid.Custom(func(t *rapid.T) reqShape {
		s := reqShape{Path: rapid.SampledFrom([]string{"/", "/a", "/b", "/已见"}).Draw(t, "path")}
		s.Query = rapid.SampledFrom([]string{"", "", "a=1", "b=2", "a=1&b=2", "已见=9"}).Draw(t, "query")
		switch rapid.IntRange(0, 3).Draw(t, "headers") {
		case 2:
			s.Headers = [][2]string{{"X-A", "1"}}
		case 3:
			s.Headers = [][2]string{{"X-A", "1"}, {"X-B", "2"}}
		}
		return s
	})
	rapid.Check(t, func(t *rapid.T) {
		c := reqSeqCase{Program: rapid.SampledFrom(reqPrograms).Draw(t, "program")}
		c.Requests = rapid.SliceOfN(shape, 2, 5).Draw(t, "requests")
		noQ, noH := 0, 0
		for _, q := range c.Requests {
			if q.Query == "" {
				noQ++
			}
			if len(q.Headers) == 0 {
				noH++
			}
		}
		var labels []string
		if noQ >= 2 {
			labels = append(labels, "two-requests-without-query")
		}
		if noH >= 2 {
			labels = append(labels, "two-requests-without-headers")
		}
		key, _ := json.Marshal(c)
		h.R.Case(t, "requests", string(key), c, labels, noQ >= 2 || noH >= 2, checkRequestSequence(c))
	})
	h.R.Extra("requests_answered_by_fresh_handler", map[string]int64{"all": atomic.LoadInt64(&reqAnswered), "status_200": atomic.LoadInt64(&reqAnswered200)})
}
