package c10

import (
	"fmt"
	"strings"
	"testing"

	"github.com/DemoHn/Zn/pkg/exec"

	r "github.com/DemoHn/Zn/pkg/runtime"
	"pgregory.net/rapid"

	h "verif/harness"
	"verif/zn"
)

// progCase - an ill-typed generated program; inputs 甲..丁 are bound to pool entries
type progCase struct {
	Src    string `json:"src"`
	Inputs []int  `json:"inputs"`
}

func checkProgram(p progCase) []h.Failure {
	inputs := map[string]r.Element{}
	for i, pi := range p.Inputs {
		inputs[argNames[i]] = pool[pi].mk()
	}
	var o *h.Outcome
	h.Capture(func() { o = runWithLib(p.Src, inputs) })
	desc := fmt.Sprintf("program (inputs 甲..丁 = %s):\n%s", describeInputs(p.Inputs), p.Src)
	switch o.Kind {
	case h.KPanic:
		return []h.Failure{{Sig: "illtyped/go-panic@" + o.PanicSite, Msg: desc + "\nGo panic: " + o.PanicMsg}}
	case h.KBudget:
		h.R.BudgetHit() // a non-terminating program is not a crash
		return nil
	case h.KNil:
		return []h.Failure{{Sig: "illtyped/nil-result", Msg: desc + "\nthe program's value is a nil element"}}
	}
	return nil
}

func describeInputs(in []int) string {
	s := ""
	for i, pi := range in {
		if i > 0 {
			s += ", "
		}
		s += pool[pi].name
	}
	return s
}

type pgen struct {
	t       *rapid.T
	m       members
	getters []string
	methods []string
	vars    []string
	labels  map[string]bool
	funcs   []string // methods declared by the program so far
	nfn     int
}

func (g *pgen) pick(n int, w string) int { return rapid.IntRange(0, n-1).Draw(g.t, w) }

func safeNames(in []string) []string {
	var out []string
	for _, n := range in {
		ok := true
		func() {
			defer func() {
				if recover() != nil {
					ok = false
				}
			}()
			zn.CheckName(n)
		}()
		if ok {
			out = append(out, n)
		}
	}
	return out
}

func (g *pgen) expr(d int) zn.Expr {
	if d <= 0 || g.pick(4, "leaf") == 0 {
		switch g.pick(8, "lk") {
		case 0:
			return &zn.Num{Val: float64(g.pick(5, "n") - 1)}
		case 1:
			return &zn.Str{V: []string{"", "a", "{}", "12"}[g.pick(4, "s")]}
		case 2:
			return &zn.NullLit{}
		case 3:
			return &zn.BoolLit{V: g.pick(2, "b") == 0}
		case 4:
			return &zn.ListLit{}
		default:
			return &zn.Var{Name: g.vars[g.pick(len(g.vars), "v")]}
		}
	}
	switch g.pick(12, "ek") {
	case 11:
		// text formatting with well- and ill-formed templates and any argument (errors of the
		// "semantic" kind, raised at run time, also inside method bodies)
		tpl := []string{"{}", "{#.2}", "{}{}", "{", "{#x}", "a", "{#+}", "}{"}[g.pick(8, "tpl")]
		var arg zn.Expr = g.expr(d - 1)
		if g.pick(2, "fmtlist") == 0 {
			l := &zn.ListLit{}
			for i, n := 0, g.pick(3, "fmtn"); i < n; i++ {
				l.Items = append(l.Items, g.expr(0))
			}
			arg = l
		}
		if g.pick(2, "fmtform") == 0 {
			return &zn.Grp{E: &zn.MCall{Root: &zn.Str{V: tpl}, Chain: []zn.Call{{Name: "格式化", Args: []zn.Expr{arg}}}}}
		}
		return &zn.Grp{E: &zn.Bin{Op: "%", L: &zn.Str{V: tpl}, R: arg}}
	case 0, 1:
		return &zn.Bin{Op: []string{"+", "-", "*", "/", "|", "%", "==", "/=", ">", "<", ">=", "<=", "为", "不为", "且", "或"}[g.pick(16, "op")], L: g.expr(d - 1), R: g.expr(d - 1)}
	case 2:
		return &zn.Index{Root: g.expr(d - 1), Idx: &zn.Grp{E: g.expr(d - 1)}}
	case 3:
		return &zn.Member{Root: g.expr(d - 1), Name: g.getters[g.pick(len(g.getters), "g")]}
	case 4, 5:
		var args []zn.Expr
		for i, n := 0, g.pick(4, "na"); i < n; i++ {
			args = append(args, g.expr(d-1))
		}
		return &zn.Grp{E: &zn.MCall{Root: g.expr(d - 1), Chain: []zn.Call{{Name: g.methods[g.pick(len(g.methods), "m")], Args: args}}}}
	case 6:
		var args []zn.Expr
		for i, n := 0, g.pick(3, "na"); i < n; i++ {
			args = append(args, g.expr(d-1))
		}
		names := append([]string{"显示", "取随机数", "未知", "数值", "异常", g.vars[0]}, g.funcs...)
		return &zn.Call{Name: names[g.pick(len(names), "fn")], Args: args}
	case 7:
		var args []zn.Expr
		for i, n := 0, g.pick(4, "na"); i < n; i++ {
			args = append(args, g.expr(d-1))
		}
		return &zn.New{Class: []string{"HTTP请求", "HTTP响应", "用户类", "异常", "数值", "显示", g.vars[1]}[g.pick(7, "cls")], Args: args}
	case 8:
		l := &zn.ListLit{}
		for i, n := 0, g.pick(3, "ln"); i < n; i++ {
			l.Items = append(l.Items, g.expr(d-1))
		}
		return l
	case 9:
		dl := &zn.DictLit{}
		for i, n := 0, g.pick(3, "dn"); i < n; i++ {
			dl.Keys = append(dl.Keys, []string{"a", "b", "1"}[i])
			dl.Vals = append(dl.Vals, g.expr(d-1))
		}
		return dl
	default:
		return &zn.Grp{E: g.expr(d - 1)}
	}
}

func (g *pgen) stmts(d int) []zn.Stmt {
	var out []zn.Stmt
	for i, n := 0, 1+g.pick(4, "ns"); i < n; i++ {
		switch g.pick(14, "sk") {
		case 12, 13:
			// declarations at any block level: methods whose body is statements, only a
			// nested declaration, or only a type; used (called / displayed) afterwards
			g.nfn++
			nm := fmt.Sprintf("方%d", g.nfn)
			var body []zn.Stmt
			switch g.pick(4, "fbody") {
			case 0:
				body = []zn.Stmt{&zn.FuncDef{Name: nm + "内", Body: []zn.Stmt{&zn.Return{E: g.expr(1)}}}}
			case 1:
				body = []zn.Stmt{&zn.ClassDef{Name: nm + "类", Props: []zn.Prop{{Name: "值", Init: g.expr(1)}}}}
			default:
				if d > 0 {
					body = g.stmts(d - 1)
				} else {
					body = []zn.Stmt{&zn.ExprStmt{E: g.expr(2)}}
				}
			}
			var params []string
			if g.pick(3, "fparams") == 0 {
				params = []string{nm + "参"}
			}
			out = append(out, &zn.FuncDef{Name: nm, Params: params, Body: body})
			g.funcs = append(g.funcs, nm)
			var args []zn.Expr
			for i, n := 0, g.pick(3, "fargs"); i < n; i++ {
				args = append(args, g.expr(1))
			}
			out = append(out, &zn.ExprStmt{E: &zn.Call{Name: "显示", Args: []zn.Expr{&zn.Call{Name: nm, Args: args}}}})
		case 0, 1, 2:
			out = append(out, &zn.ExprStmt{E: g.expr(3)})
		case 3:
			nm := fmt.Sprintf("局%d", g.pick(3, "ln"))
			out = append(out, &zn.Let{Names: []string{nm}, E: g.expr(3)})
			g.vars = append(g.vars, nm)
		case 4:
			var tgt zn.Expr
			switch g.pick(3, "tk") {
			case 0:
				tgt = &zn.Var{Name: g.vars[g.pick(len(g.vars), "tv")]}
			case 1:
				tgt = &zn.Index{Root: &zn.Var{Name: g.vars[g.pick(len(g.vars), "tv")]}, Idx: &zn.Grp{E: g.expr(1)}}
			default:
				tgt = &zn.Member{Root: &zn.Var{Name: g.vars[g.pick(len(g.vars), "tv")]}, Name: g.getters[g.pick(len(g.getters), "tg")]}
			}
			out = append(out, &zn.ExprStmt{E: &zn.Assign{Target: tgt, E: g.expr(2)}})
		case 5:
			if d > 0 {
				out = append(out, &zn.If{Conds: []zn.Expr{g.expr(2)}, Blocks: [][]zn.Stmt{g.stmts(d - 1)}, Else: g.stmts(d - 1)})
			}
		case 6:
			if d > 0 {
				out = append(out, &zn.While{Cond: g.expr(2), Body: append(g.stmts(d-1), &zn.Break{})})
			}
		case 7:
			if d > 0 {
				out = append(out, &zn.ForEach{Names: []string{"键", "值"}[:g.pick(3, "nn")], E: g.expr(2), Body: g.stmts(d - 1)})
			}
		case 8:
			out = append(out, &zn.Throw{Class: []string{"异常", "用户类", "数值", "显示", g.vars[0]}[g.pick(5, "tc")], Args: []zn.Expr{g.expr(2)}})
		case 9:
			out = append(out, &zn.Return{E: g.expr(3)})
		case 10:
			out = append(out, []zn.Stmt{&zn.Break{}, &zn.Continue{}}[g.pick(2, "bc")])
		case 11:
			out = append(out, &zn.ExprStmt{E: &zn.Call{Name: "显示", Args: []zn.Expr{g.expr(2)}}})
		}
	}
	if len(out) == 0 {
		out = append(out, &zn.ExprStmt{E: &zn.NullLit{}})
	}
	return out
}

func TestIllTypedPrograms(t *testing.T) {
	m := extractMembers()
	getters, methods := safeNames(m.Getters), safeNames(m.Methods)
	rapid.Check(t, func(t *rapid.T) {
		g := &pgen{t: t, m: m, getters: getters, methods: methods, vars: append([]string{}, argNames...)}
		var inputs []int
		for range argNames {
			inputs = append(inputs, rapid.IntRange(0, len(pool)-1).Draw(t, "in"))
		}
		p := &zn.Program{Imports: []zn.Import{{Name: "@测试库", Lib: true}}, Inputs: argNames, Body: g.stmts(2)}
		if rapid.Bool().Draw(t, "handler") {
			p.Catches = []zn.Catch{{Class: "异常", Body: []zn.Stmt{&zn.ExprStmt{E: &zn.Call{Name: "显示", Args: []zn.Expr{&zn.This{Name: "内容"}}}}}}}
		}
		src, _ := zn.Render(p, nil)
		c := progCase{Src: src, Inputs: inputs}
		h.R.Case(t, "illtyped", src+describeInputs(inputs), c, []string{"ill-typed-program"}, true, checkProgram(c))
	})
}

// input-variable text: type-blind expressions through ExecVarInputText (the playground's path)
func checkVarInputText(src string) []h.Failure {
	var kind, msg, site string
	var m r.ElementMap
	var err error
	h.Capture(func() {
		kind, msg, site = h.Guard(func() { m, err = execVarInput(src) })
	})
	switch kind {
	case h.KPanic:
		return []h.Failure{{Sig: "varinput/go-panic@" + site, Msg: fmt.Sprintf("input-variable text %q: %s", src, msg)}}
	case h.KBudget:
		h.R.BudgetHit()
		return nil
	}
	if err == nil {
		if m == nil {
			return []h.Failure{{Sig: "varinput/nil-map", Msg: fmt.Sprintf("input-variable text %q: (nil, nil)", src)}}
		}
		for k, v := range m {
			if v == nil || isNil(v) {
				return []h.Failure{{Sig: "varinput/nil-element", Msg: fmt.Sprintf("input-variable text %q binds %q to a nil element", src, k)}}
			}
			// what the playground does with the values: they are handed to Execute
			k2, m2, s2 := h.Guard(func() { _ = v.String() })
			if k2 != "" {
				return []h.Failure{{Sig: "varinput/value-unusable@" + s2, Msg: fmt.Sprintf("input-variable text %q: %s", src, m2)}}
			}
		}
	}
	return nil
}

func TestVarInputExpressions(t *testing.T) {
	m := extractMembers()
	getters, methods := safeNames(m.Getters), safeNames(m.Methods)
	rapid.Check(t, func(t *rapid.T) {
		g := &pgen{t: t, m: m, getters: getters, methods: methods, vars: []string{"甲", "乙", "数值", "异常", "显示", "真"}}
		n := rapid.IntRange(1, 3).Draw(t, "nassign")
		var lines []string
		labels := []string{"varinput-expression"}
		for i := 0; i < n; i++ {
			rhs := zn.RenderExpr(g.expr(3))
			switch rapid.IntRange(0, 5).Draw(t, "directed") {
			case 0:
				// the name holds something callable / creatable: a built-in method or type,
				// reached directly, through a collection, or bound by 得到
				rhs = rapid.SampledFrom([]string{"显示", "取随机数", "数值", "异常", "【显示】#1", "以【显示】（右移）", "以【显示，1】（左移）",
					"【“f” = 显示】#“f”", "以【显示】（右移）得到函", "以【异常，数值】（左移）得到函", "（新建异常：“m”）", "以【1】（后增：显示）", "（显示）得到函"}).Draw(t, "holder")
				labels = append(labels, "varinput-name-holds-callable")
			case 1:
				if i > 0 {
					// ... and a later line calls / creates / chains through a name bound before
					nm := rapid.SampledFrom(append([]string{"函"}, argNames[:i]...)).Draw(t, "callee")
					arg := zn.RenderExpr(g.expr(1))
					rhs = rapid.SampledFrom([]string{"（%s：%s）", "（%s）", "（新建%s：%s）", "以%s（%s）", "以%s#1（%s）", "（%s：%s）得到函", "以1（%s：%s）"}).Draw(t, "callform")
					if strings.Count(rhs, "%s") == 2 {
						rhs = fmt.Sprintf(rhs, nm, arg)
					} else {
						rhs = fmt.Sprintf(rhs, nm)
					}
					labels = append(labels, "varinput-call-through-bound-name")
				}
			}
			lines = append(lines, argNames[i]+" = "+rhs)
		}
		src := strings.Join(lines, rapid.SampledFrom([]string{"\n", "；", "\r\n"}).Draw(t, "sep"))
		h.R.Case(t, "varinput", src, progCase{Src: src}, labels, true, checkVarInputText(src))
	})
}

func execVarInput(src string) (r.ElementMap, error) {
	exec.VerifTicks, exec.VerifTickBudget, exec.VerifMaxDepth, exec.VerifDepth = 0, 50000, 1000, 0
	defer func() { exec.VerifTickBudget, exec.VerifMaxDepth = 0, 0 }()
	return exec.ExecVarInputText(src)
}

// ---------------------------------------------------------------------------------------
// collection sequences: several lists / dictionaries, copies between them, every mutating
// member in arbitrary order, every variable displayed / listed / serialised after each step.
// A collection whose internal index no longer matches its storage shows up here as a Go
// panic or a nil element (the single-call enumeration above never shares storage between
// two live collections).

func (g *pgen) collLiteral(dict bool) zn.Expr {
	if dict {
		dl := &zn.DictLit{}
		for i, n := 0, g.pick(8, "dn"); i < n; i++ {
			dl.Keys = append(dl.Keys, []string{"a", "b", "c", "d", "e", "f", "g"}[i])
			dl.Vals = append(dl.Vals, &zn.Num{Val: float64(i)})
		}
		return dl
	}
	l := &zn.ListLit{}
	for i, n := 0, g.pick(7, "ln"); i < n; i++ {
		l.Items = append(l.Items, &zn.Num{Val: float64(i)})
	}
	return l
}

func TestCollectionSequences(t *testing.T) {
	rapid.Check(t, func(t *rapid.T) {
		g := &pgen{t: t, labels: map[string]bool{}}
		dict := rapid.IntRange(0, 2).Draw(t, "kind") > 0
		names := []string{"集一", "集二", "集三"}
		var body []zn.Stmt
		for _, n := range names {
			body = append(body, &zn.Let{Names: []string{n}, E: g.collLiteral(dict)})
		}
		vr := func(w string) *zn.Var { return &zn.Var{Name: names[g.pick(len(names), w)]} }
		key := func() zn.Expr {
			return &zn.Str{V: []string{"a", "b", "c", "d", "e", "f", "g", "h", "i", "新"}[g.pick(10, "key")]}
		}
		small := func() zn.Expr { return &zn.Num{Val: float64(g.pick(9, "idx") - 1)} }
		val := func() zn.Expr {
			switch g.pick(6, "vk") {
			case 0:
				return vr("valvar")
			case 1:
				return &zn.ListLit{Items: []zn.Expr{&zn.Num{Val: 1}}}
			case 3:
				// a value produced by CHANGING one of the collections (possibly the very one
				// the enclosing statement writes to): the target shrinks while the statement
				// that indexes into it is being evaluated
				g.labels["argument-mutates-a-collection"] = true
				if dict {
					return &zn.Grp{E: &zn.MCall{Root: vr("mutated"), Chain: []zn.Call{{Name: "移除", Args: []zn.Expr{key()}}}}}
				}
				return &zn.Grp{E: &zn.MCall{Root: vr("mutated"), Chain: []zn.Call{{Name: []string{"右移", "左移"}[g.pick(2, "mside")]}}}}
			case 2:
				// a fresh collection that holds one of the variables (possibly the receiver)
				if g.pick(2, "wrapk") == 0 {
					return &zn.ListLit{Items: []zn.Expr{vr("wrapped")}}
				}
				return &zn.DictLit{Keys: []string{"w"}, Vals: []zn.Expr{vr("wrapped")}}
			default:
				return &zn.Num{Val: float64(g.pick(50, "v"))}
			}
		}
		mcall := func(root zn.Expr, name string, args ...zn.Expr) zn.Stmt {
			return &zn.ExprStmt{E: &zn.MCall{Root: root, Chain: []zn.Call{{Name: name, Args: args}}}}
		}
		copies, removes := 0, 0
		var defs, main []zn.Stmt
		handler := []zn.Catch{{Class: "异常", Body: []zn.Stmt{&zn.ExprStmt{E: &zn.Call{Name: "显示", Args: []zn.Expr{&zn.Str{V: "错"}}}}}}}
		// 观: display, list and serialise every collection (an error in one observation is handled)
		var obsBody []zn.Stmt
		for _, n := range names {
			x := &zn.Var{Name: n}
			obs := []zn.Expr{x, &zn.Member{Root: x, Name: "长度"}}
			if dict {
				obs = append(obs, &zn.Member{Root: x, Name: "所有索引"}, &zn.Member{Root: x, Name: "所有值"}, &zn.Call{Name: "生成JSON", Args: []zn.Expr{x}})
			} else {
				obs = append(obs, &zn.Member{Root: x, Name: "首项"}, &zn.Member{Root: x, Name: "末项"}, &zn.Member{Root: x, Name: "逆序"})
			}
			obsBody = append(obsBody, &zn.ExprStmt{E: &zn.Call{Name: "显示", Args: obs}})
		}
		defs = append(defs, &zn.FuncDef{Name: "观", Body: obsBody, Catches: handler})
		for i, n := 0, 3+g.pick(12, "steps"); i < n; i++ {
			a := vr("a")
			var st zn.Stmt
			switch g.pick(10, "step") {
			case 0, 1: // copy
				st = &zn.ExprStmt{E: &zn.Assign{Target: a, E: vr("b")}}
				copies++
			case 2, 3: // keyed / indexed write
				if dict {
					st = &zn.ExprStmt{E: &zn.Assign{Target: &zn.Index{Root: a, Idx: key()}, E: val()}}
				} else {
					st = &zn.ExprStmt{E: &zn.Assign{Target: &zn.Index{Root: a, Idx: small()}, E: val()}}
				}
			case 4, 5: // removal
				removes++
				if dict {
					st = mcall(a, "移除", key())
				} else if g.pick(2, "side") == 0 {
					st = mcall(a, "左移")
				} else {
					st = mcall(a, "右移")
				}
			case 6: // method insert
				if dict {
					st = mcall(a, "写入", key(), val())
				} else {
					st = mcall(a, []string{"后增", "前增"}[g.pick(2, "ins")], val())
				}
			case 7:
				if dict {
					st = mcall(a, "读取", key())
				} else {
					switch g.pick(3, "lm") {
					case 0:
						st = mcall(a, "交换", small(), small())
					case 1:
						st = mcall(a, "合并", val(), &zn.ListLit{Items: []zn.Expr{vr("merged")}})
					default:
						st = mcall(a, "新增", val(), small())
					}
				}
			case 8: // mutation while iterating
				inner := vr("inner")
				var ist zn.Stmt
				switch {
				case g.pick(3, "iterdel") == 0 && dict:
					// entries removed from a dictionary while it (or a copy of it) is being visited
					ist = mcall(inner, "移除", key())
				case g.pick(3, "iterdel2") == 0 && !dict:
					ist = mcall(inner, []string{"右移", "左移"}[g.pick(2, "iterside")])
				case dict:
					ist = &zn.ExprStmt{E: &zn.Assign{Target: &zn.Index{Root: inner, Idx: key()}, E: &zn.Var{Name: "值"}}}
				default:
					ist = mcall(inner, "后增", &zn.Var{Name: "值"})
				}
				st = &zn.ForEach{Names: []string{"键", "值"}, E: a, Body: []zn.Stmt{ist, &zn.ExprStmt{E: &zn.Call{Name: "显示", Args: []zn.Expr{&zn.Var{Name: "键"}, &zn.Var{Name: "值"}}}}, &zn.If{Conds: []zn.Expr{&zn.Bin{Op: ">", L: &zn.Member{Root: inner, Name: "长度"}, R: &zn.Num{Val: 12}}}, Blocks: [][]zn.Stmt{{&zn.Break{}}}}}}
			case 9: // nest one collection in another
				if dict {
					st = &zn.ExprStmt{E: &zn.Assign{Target: &zn.Index{Root: a, Idx: key()}, E: vr("nest")}}
				} else {
					st = mcall(a, "后增", vr("nest"))
				}
			}
			// each step is a method with its own handler, so that a Zn error in one step
			// (index out of range, ...) does not end the sequence
			fn := fmt.Sprintf("步%d", i+1)
			defs = append(defs, &zn.FuncDef{Name: fn, Body: []zn.Stmt{st}, Catches: handler})
			main = append(main, &zn.ExprStmt{E: &zn.Call{Name: fn}}, &zn.ExprStmt{E: &zn.Call{Name: "观"}})
		}
		body = append(body, defs...)
		body = append(body, main...)
		body = append(body, &zn.Return{E: &zn.ListLit{Items: []zn.Expr{&zn.Var{Name: names[0]}, &zn.Var{Name: names[1]}, &zn.Var{Name: names[2]}}}})
		p := &zn.Program{Imports: []zn.Import{{Name: "@JSON", Lib: true, Items: []string{"生成JSON"}}}, Body: body}
		src, _ := zn.Render(p, nil)
		c := progCase{Src: src}
		labels := []string{"collection-sequence"}
		if dict {
			labels = append(labels, "dictionaries")
		} else {
			labels = append(labels, "lists")
		}
		if copies > 0 && removes > 0 {
			labels = append(labels, "copy-and-removal")
		}
		for l := range g.labels {
			labels = append(labels, l)
		}
		h.R.Case(t, "illtyped", src, c, labels, copies > 0, checkProgram(c))
	})
}
