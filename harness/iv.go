package harness

import (
	"fmt"
	"reflect"

	r "github.com/DemoHn/Zn/pkg/runtime"
	"github.com/DemoHn/Zn/pkg/value"
)

// Index reads and writes (the `#` operator) go through pkg/value's intermediate-value
// constructors. They are internal API whose exact signatures are nobody's contract
// (e.g. a constructor may start to return an error), so they are called through
// reflection: a check keeps compiling - and keeps judging behaviour - when such a
// signature moves.

func ivOf(ctor any, root r.Element, key any) (reflect.Value, error) {
	f := reflect.ValueOf(ctor)
	ft := f.Type()
	if ft.NumIn() != 2 {
		panic(fmt.Sprintf("harness: unexpected constructor shape %s", ft))
	}
	args := []reflect.Value{reflect.ValueOf(root), reflect.ValueOf(key).Convert(ft.In(1))}
	if !args[0].Type().AssignableTo(ft.In(0)) {
		return reflect.Value{}, fmt.Errorf("harness: %s is not accepted as the root of an index expression", args[0].Type())
	}
	out := f.Call(args)
	if len(out) == 2 && !out[1].IsNil() {
		return reflect.Value{}, out[1].Interface().(error)
	}
	return out[0], nil
}

func reduceRHS(iv reflect.Value) (r.Element, error) {
	out := iv.MethodByName("ReduceRHS").Call(nil)
	var e r.Element
	if !out[0].IsNil() {
		e = out[0].Interface().(r.Element)
	}
	if !out[1].IsNil() {
		return e, out[1].Interface().(error)
	}
	return e, nil
}

func reduceLHS(iv reflect.Value, v r.Element) error {
	out := iv.MethodByName("ReduceLHS").Call([]reflect.Value{reflect.ValueOf(v)})
	if !out[0].IsNil() {
		return out[0].Interface().(error)
	}
	return nil
}

// ListGet - value of root#index
func ListGet(root r.Element, index int) (r.Element, error) {
	iv, err := ivOf(value.NewArrayIV, root, index)
	if err != nil {
		return nil, err
	}
	return reduceRHS(iv)
}

// ListSet - root#index = v
func ListSet(root r.Element, index int, v r.Element) error {
	iv, err := ivOf(value.NewArrayIV, root, index)
	if err != nil {
		return err
	}
	return reduceLHS(iv, v)
}

// DictGet - value of root#key
func DictGet(root r.Element, key string) (r.Element, error) {
	iv, err := ivOf(value.NewHashMapIV, root, key)
	if err != nil {
		return nil, err
	}
	return reduceRHS(iv)
}

// DictSet - root#key = v
func DictSet(root r.Element, key string, v r.Element) error {
	iv, err := ivOf(value.NewHashMapIV, root, key)
	if err != nil {
		return err
	}
	return reduceLHS(iv, v)
}
