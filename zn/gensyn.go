package zn

import (
	"fmt"

	"pgregory.net/rapid"
)

// SynGen - type-blind generator of abstract programs covering every statement kind and
// expression form of the grammar (for the parser properties; the programs are not executed)
type SynGen struct {
	T       *rapid.T
	Kinds   map[string]bool // statement kinds used
	MaxNest int
	nest    int
}

func (g *SynGen) pick(n int, w string) int { return rapid.IntRange(0, n-1).Draw(g.T, w) }

var synNames = []string{"A", "B", "C", "甲", "乙", "丙", "X1", "Zs", "変数", "αβ", "값", "Name_2", "总价", "数量-1", "R/W", "星标*", "$x", "_h",
	// names that begin like the head of a comment (注 / 注+digits, without the colon)
	"注册", "注意事项", "注1号", "备注"}
var synTexts = []string{"", "a", "文本", "hello world", "你好，世界", "😊", "{}-{#.2}", "含“引号”", "a`b", "line1\nline2", "「」", "//不是注释", "注：也不是",
	// texts of many lines (every count of line breaks from 2 to 17 occurs among the suffixes used)
	"一\n二\n三", "1\n2\n3\n4\n5\n6\n7\n8\n9", "a\n\n\n\nb\n\n\n\nc", "甲\r\n乙\n丙\n丁\n戊\n己\n庚\n辛\n壬\n癸\n子\n丑\n寅\n卯\n辰\n巳\n午\n未"}

func (g *SynGen) name() string { return synNames[g.pick(len(synNames), "name")] }

func (g *SynGen) names(min, max int) []string {
	n := min + g.pick(max-min+1, "nnames")
	out := []string{}
	for i := 0; i < n; i++ {
		out = append(out, g.name())
	}
	return out
}

func (g *SynGen) Expr(d int) Expr {
	if d <= 0 || g.pick(4, "leaf") == 0 {
		switch g.pick(7, "lk") {
		case 0:
			return GenNumeral().Draw(g.T, "num")
		case 1:
			return &Str{V: synTexts[g.pick(len(synTexts), "txt")]}
		case 2:
			return &BoolLit{V: g.pick(2, "b") == 0}
		case 3:
			return &NullLit{}
		case 4:
			return &This{Name: g.name()}
		default:
			return &Var{Name: g.name()}
		}
	}
	switch g.pick(14, "ek") {
	case 0, 1:
		op := []string{"+", "-", "*", "/", "|", "%"}[g.pick(6, "aop")]
		return &Bin{Op: op, L: g.Expr(d - 1), R: g.Expr(d - 1)}
	case 2:
		op := []string{"==", "/=", ">", "<", ">=", "<=", "为", "不为"}[g.pick(8, "cop")]
		return &Bin{Op: op, L: g.Expr(d - 1), R: g.Expr(d - 1)}
	case 3:
		return &Bin{Op: []string{"且", "或"}[g.pick(2, "lop")], L: g.Expr(d - 1), R: g.Expr(d - 1)}
	case 4:
		var idx Expr
		switch g.pick(3, "ik") {
		case 0:
			idx = &Num{Val: float64(g.pick(9, "in"))}
		case 1:
			idx = &Str{V: synTexts[g.pick(3, "it")]}
		default:
			idx = g.Expr(d - 1)
			if _, isNum := idx.(*Num); isNum {
				idx = &Grp{E: idx}
			}
			if _, isStr := idx.(*Str); isStr {
				idx = &Grp{E: idx}
			}
		}
		return &Index{Root: g.Expr(d - 1), Idx: idx}
	case 5:
		return &Member{Root: g.Expr(d - 1), Name: g.name()}
	case 6, 7:
		c := &Call{Name: g.name()}
		for i, n := 0, g.pick(4, "nargs"); i < n; i++ {
			c.Args = append(c.Args, g.Expr(d-1))
		}
		if g.pick(5, "yield") == 0 {
			c.Yield = g.name()
		}
		return c
	case 8:
		m := &MCall{Root: g.Expr(d - 1)}
		for i, n := 0, 1+g.pick(3, "nchain"); i < n; i++ {
			c := Call{Name: g.name()}
			for j, na := 0, g.pick(3, "mna"); j < na; j++ {
				c.Args = append(c.Args, g.Expr(d-1))
			}
			m.Chain = append(m.Chain, c)
		}
		if g.pick(4, "myield") == 0 {
			m.Yield = g.name()
		}
		return m
	case 9:
		n := &New{Class: g.name()}
		for i, na := 0, g.pick(3, "nna"); i < na; i++ {
			n.Args = append(n.Args, g.Expr(d-1))
		}
		return n
	case 10:
		l := &ListLit{}
		for i, n := 0, g.pick(4, "ln"); i < n; i++ {
			l.Items = append(l.Items, g.Expr(d-1))
		}
		return l
	case 11:
		dl := &DictLit{}
		for i, n := 0, g.pick(4, "dn"); i < n; i++ {
			switch g.pick(3, "dkk") {
			case 0: // a bare identifier as key
				dl.Keys = append(dl.Keys, g.name())
				dl.Bare = append(dl.Bare, true)
			case 1: // a bare number as key (its text is the key)
				dl.Keys = append(dl.Keys, []string{"0", "12", "3.5", "007"}[g.pick(4, "dkn")])
				dl.Bare = append(dl.Bare, true)
			default:
				dl.Keys = append(dl.Keys, []string{"a", "键", "k 2", "0"}[g.pick(4, "dk")])
				dl.Bare = append(dl.Bare, false)
			}
			dl.Vals = append(dl.Vals, g.Expr(d-1))
		}
		return dl
	case 12:
		return &Assign{Target: g.target(d - 1), E: g.Expr(d - 1)}
	default:
		return &Grp{E: g.Expr(d - 1)}
	}
}

func (g *SynGen) target(d int) Expr {
	switch g.pick(4, "tk") {
	case 0:
		return &This{Name: g.name()}
	case 1:
		return &Member{Root: &Var{Name: g.name()}, Name: g.name()}
	case 2:
		return &Index{Root: &Var{Name: g.name()}, Idx: &Num{Val: float64(1 + g.pick(3, "ti"))}}
	default:
		return &Var{Name: g.name()}
	}
}

func (g *SynGen) Block(d int) []Stmt {
	var out []Stmt
	for i, n := 0, 1+g.pick(3, "nstmts"); i < n; i++ {
		out = append(out, g.Stmt(d))
	}
	return out
}

func (g *SynGen) catches(d int) []Catch {
	var out []Catch
	for i, n := 0, g.pick(3, "ncatch"); i < n && g.pick(2, "hascatch") == 0; i++ {
		out = append(out, Catch{Class: g.name(), Body: g.Block(d - 1)})
		g.Kinds["catch"] = true
	}
	return out
}

func (g *SynGen) funcDef(d int) FuncDef {
	return FuncDef{Name: g.name(), Params: g.names(0, 3), Body: g.Block(d - 1), Catches: g.catches(d - 1)}
}

func (g *SynGen) Stmt(d int) Stmt {
	kinds := []string{"expr", "expr", "let", "let", "letblock", "return", "throw", "break", "continue"}
	if d > 0 {
		kinds = append(kinds, "if", "if", "while", "each", "each", "func", "ctor", "class")
	}
	k := kinds[g.pick(len(kinds), "sk")]
	g.Kinds[k] = true
	switch k {
	case "expr":
		return &ExprStmt{E: g.Expr(3)}
	case "let":
		return &Let{Names: g.names(1, 3), Const: g.pick(4, "const") == 0, E: g.Expr(3)}
	case "letblock":
		lb := &LetBlock{}
		for i, n := 0, 1+g.pick(3, "npairs"); i < n; i++ {
			lb.Pairs = append(lb.Pairs, &Let{Names: g.names(1, 2), Const: g.pick(4, "const") == 0, E: g.Expr(2)})
		}
		return lb
	case "return":
		return &Return{E: g.Expr(3)}
	case "throw":
		t := &Throw{Class: g.name()}
		for i, n := 0, 1+g.pick(3, "nthrow"); i < n; i++ {
			t.Args = append(t.Args, g.Expr(2))
		}
		return t
	case "break":
		return &Break{}
	case "continue":
		return &Continue{}
	case "if":
		s := &If{}
		for i, n := 0, 1+g.pick(3, "nbr"); i < n; i++ {
			s.Conds = append(s.Conds, g.Expr(3))
			s.Blocks = append(s.Blocks, g.Block(d-1))
		}
		if g.pick(2, "else") == 0 {
			s.Else = g.Block(d - 1)
		}
		return s
	case "while":
		return &While{Cond: g.Expr(3), Body: g.Block(d - 1)}
	case "each":
		return &ForEach{Names: g.names(0, 2), E: g.Expr(3), Body: g.Block(d - 1)}
	case "func":
		f := g.funcDef(d)
		return &f
	case "ctor":
		f := g.funcDef(d)
		return &CtorDef{Class: f.Name, Params: f.Params, Body: f.Body, Catches: f.Catches}
	case "class":
		c := &ClassDef{Name: g.name()}
		for i, n := 0, g.pick(3, "nprops"); i < n; i++ {
			c.Props = append(c.Props, Prop{Name: g.name(), Init: g.Expr(2)})
		}
		for i, n := 0, g.pick(3, "nmeth"); i < n; i++ {
			c.Methods = append(c.Methods, g.funcDef(d-1))
		}
		for i, n := 0, g.pick(2, "nget"); i < n; i++ {
			gt := g.funcDef(d - 1)
			gt.Params = nil
			c.Getters = append(c.Getters, gt)
		}
		if len(c.Props)+len(c.Methods)+len(c.Getters) == 0 {
			c.Props = append(c.Props, Prop{Name: g.name(), Init: g.Expr(1)})
		}
		return c
	}
	panic("unreachable " + k)
}

// Program - a whole program: imports, inputs, statements, handlers
func (g *SynGen) Program(d int) *Program {
	p := &Program{}
	for i, n := 0, g.pick(3, "nimports"); i < n; i++ {
		im := Import{Name: []string{"模块", "a-b-c", "库-子", "@JSON", "@文件"}[g.pick(5, "imn")]}
		im.Lib = im.Name[0] == '@'
		if g.pick(2, "imitems") == 0 {
			im.Items = g.names(1, 3)
		}
		p.Imports = append(p.Imports, im)
		g.Kinds["import"] = true
	}
	if g.pick(3, "inputs") == 0 {
		p.Inputs = g.names(1, 3)
		g.Kinds["input"] = true
	}
	p.Body = g.Block(d)
	p.Catches = g.catches(d)
	return p
}

var _ = fmt.Sprint
