package c04

import (
	"fmt"
	"strings"
	"testing"

	h "verif/harness"
)

// "An identifier that starts like a number but is not one is rejected, never treated as a
// name" - in EVERY position where a program declares a name: variable, constant, input of a
// method, method, type, property of a type, method of a type, constructor target, loop
// variable, name bound by 得到. The same holds for a well-formed number standing where a name
// is declared. Each program would yield 1 if the identifier were taken as a name.

var notNames = []string{"2x", "12abc", "3跑", "1.2.3", "1e5", "1*^", "0x10", "12", "1.5", "-3", "+7", "1E+2", "2*10^3"}

var namePositions = map[string]string{
	"variable":              "令%s = 1\n输出1",
	"constant":              "令%s恒为1\n输出1",
	"second-of-two":         "令甲、%s = 1\n输出1",
	"method":                "如何%s？\n    输出1\n输出1",
	"method-input":          "如何法？\n    输入%s\n    输出1\n输出（法：1）",
	"type":                  "定义%s：\n    其值 = 1\n输出1",
	"property":              "定义盒：\n    其%s = 1\n输出1",
	"method-of-type":        "定义盒：\n    其值 = 1\n    如何%s？\n        输出1\n输出1",
	"loop-variable":         "以%s遍历【1】：\n    （显示：1）\n输出1",
	"loop-index-variable":   "以%s、值遍历【1】：\n    （显示：1）\n输出1",
	"yield-name":            "如何法？\n    输出1\n（法）得到%s\n输出1",
	"declaration-in-branch": "如果真：\n    令%s = 1\n输出1",
}

type posCase struct {
	Pos string `json:"position"`
	ID  string `json:"identifier"`
}

func checkNamePosition(c posCase) []h.Failure {
	src := fmt.Sprintf(namePositions[c.Pos], c.ID)
	o := h.Run(src, h.Opts{})
	switch o.Kind {
	case h.KPanic, h.KBudget, h.KNil:
		return []h.Failure{{Sig: "position/" + o.Kind + "@" + o.PanicSite, Msg: src + "\n" + o.PanicMsg}}
	case h.KError:
		return nil
	}
	return []h.Failure{{Sig: "position/not-a-name-declared@" + c.Pos, Msg: fmt.Sprintf("program:\n%s\n%q is no name (a number, or an identifier that starts like a number and is none) but was declared as the %s: %s", src, c.ID, strings.ReplaceAll(c.Pos, "-", " "), o.Short())}}
}

func TestNotNamesInNamePositions(t *testing.T) {
	n := 0
	for pos := range namePositions {
		for _, id := range notNames {
			c := posCase{Pos: pos, ID: id}
			h.R.Case(t, "position", pos+"|"+id, c, []string{"declaring-position:" + pos}, true, checkNamePosition(c))
			n++
		}
	}
	h.R.Exhaustive("position", fmt.Sprintf("%d programs: %d identifiers that are no names x %d declaring positions", n, len(notNames), len(namePositions)))
}
