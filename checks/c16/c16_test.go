// C16 - executions are isolated from one another
package c16

import (
	"time"
	"syscall"
	"bufio"
	"bytes"
	"encoding/json"
	"fmt"
	"github.com/DemoHn/Zn/pkg/syntax"
	"io"
	"net/http/httptest"
	"os"
	osexec "os/exec"
	"path/filepath"
	"strings"
	"sync"
	"testing"

	"github.com/DemoHn/Zn/pkg/common"
	"github.com/DemoHn/Zn/pkg/exec"
	r "github.com/DemoHn/Zn/pkg/runtime"
	"github.com/DemoHn/Zn/pkg/value"
	"github.com/DemoHn/Zn/pkg/server"
	"pgregory.net/rapid"

	h "verif/harness"
	"verif/zn"
)

var tmpDir string

func TestMain(m *testing.M) {
	if os.Getenv("VERIF_C16_WORKER") == "1" {
		workerLoop()
		return
	}
	d, err := os.MkdirTemp("", "verif-c16-*")
	if err != nil {
		panic(err)
	}
	tmpDir = d
	h.AtExit(func() { os.RemoveAll(d) })
	h.Main(m, "C16", replay)
}

// ---------------------------------------------------------------------------------------
// worker: a pristine interpreter process executing programs one after another

type job struct {
	Src    string `json:"src"`
	Shared bool   `json:"shared"` // reuse one Interpreter object for all programs
}

type result struct {
	Kind  string   `json:"kind"`
	Type  string   `json:"type,omitempty"`
	Text  string   `json:"text,omitempty"`
	Error string   `json:"error,omitempty"`
	Trace []string `json:"trace,omitempty"`
}

var testLib = func() *r.Library {
	l := r.NewLibrary("@测试库")
	l.RegisterClass("HTTP请求", common.CLASS_HttpRequest)
	l.RegisterClass("HTTP响应", common.CLASS_HttpResponse)
	return l
}()

func libs() []*r.Library { return append([]*r.Library{testLib}, h.Libs()...) }

func workerLoop() {
	// file-mode programs are written below the worker's own scratch directory (relative
	// paths, so that rendered errors do not differ between processes)
	if d, err := os.MkdirTemp("", "verif-c16w-*"); err == nil {
		os.Chdir(d)
		defer os.RemoveAll(d)
	}
	in := bufio.NewReaderSize(os.Stdin, 1<<20)
	shared := exec.NewInterpreter("verif").SetExternalLibs(libs())
	realOut := os.Stdout
	for {
		line, err := in.ReadBytes('\n')
		if len(line) > 0 {
			var j job
			if json.Unmarshal(line, &j) == nil {
				res := runJob(j, shared)
				b, _ := json.Marshal(res)
				realOut.Write(append(b, '\n'))
			}
		}
		if err != nil {
			return
		}
	}
}

// hostInputs - the values the host hands to EVERY execution of this process (the same map, the
// same objects): 输入 names read them, and what one execution does to them in place must not
// reach the next one
var hostInputs = r.ElementMap{
	"入表": zn.ToElem(&zn.ListV{Items: []zn.Value{float64(1), &zn.ListV{Items: []zn.Value{float64(2)}}}}),
	"入典": zn.ToElem(func() zn.Value {
		d := zn.NewDict()
		d.Set("a", &zn.ListV{Items: []zn.Value{float64(1)}})
		d.Set("b", float64(2))
		return d
	}()),
	"入数": value.NewNumber(7),
}

func runJob(j job, shared *exec.Interpreter) result {
	var res result
	var val r.Element
	var err error
	var kind, msg, site string
	exec.VerifTicks, exec.VerifTickBudget, exec.VerifMaxDepth, exec.VerifDepth = 0, 200000, 3000, 0
	out := h.Capture(func() {
		kind, msg, site = h.Guard(func() {
			z := shared
			if !j.Shared {
				z = exec.NewInterpreter("verif").SetExternalLibs(libs())
			}
			if mainSrc, mods, isFile := splitFileProg(j.Src); isFile {
				os.RemoveAll("p")
				os.MkdirAll("p", 0o755)
				os.WriteFile(filepath.Join("p", "主程序.zn"), []byte(mainSrc), 0o644)
				for name, src := range mods {
					path := filepath.Join("p", filepath.Join(strings.Split(name, "-")...)+".zn")
					os.MkdirAll(filepath.Dir(path), 0o755)
					os.WriteFile(path, []byte(src), 0o644)
				}
				val, err = z.LoadFile(filepath.Join("p", "主程序.zn")).Execute(hostInputs)
				return
			}
			val, err = z.LoadScript([]rune(j.Src)).Execute(hostInputs)
		})
	})
	exec.VerifTickBudget, exec.VerifMaxDepth = 0, 0
	if out != "" {
		res.Trace = strings.Split(strings.TrimSuffix(out, "\n"), "\n")
	}
	switch {
	case kind != "":
		res.Kind, res.Error = kind, msg+" @"+site
	case err != nil:
		res.Kind = "error"
		k2, m2, _ := h.Guard(func() { res.Error = exec.DisplayError(err) })
		if k2 != "" {
			res.Kind, res.Error = k2, "DisplayError: "+m2
		}
	default:
		o := &h.Outcome{}
		h.FillValue(o, val)
		res.Kind, res.Type, res.Text = o.Kind, o.ValType, o.ValText
	}
	return res
}

// fileProg - a program executed from files (Interpreter.LoadFile) with modules next to it,
// encoded in one string: "#file\n" main "\n#module NAME\n" source ...
func fileProg(main string, mods ...string) string {
	s := "#file\n" + main
	for i := 0; i+1 < len(mods); i += 2 {
		s += "\n#module " + mods[i] + "\n" + mods[i+1]
	}
	return s
}

func splitFileProg(src string) (string, map[string]string, bool) {
	if !strings.HasPrefix(src, "#file\n") {
		return src, nil, false
	}
	parts := strings.Split(strings.TrimPrefix(src, "#file\n"), "\n#module ")
	mods := map[string]string{}
	for _, p := range parts[1:] {
		nl := strings.Index(p, "\n")
		if nl < 0 {
			continue
		}
		mods[p[:nl]] = p[nl+1:]
	}
	return parts[0], mods, true
}

// runInFreshWorker - execute the jobs in one fresh process
func runInFreshWorker(jobs []job) ([]result, error) {
	cmd := osexec.Command(os.Args[0])
	cmd.Env = append(os.Environ(), "VERIF_C16_WORKER=1")
	var input bytes.Buffer
	for _, j := range jobs {
		b, _ := json.Marshal(j)
		input.Write(append(b, '\n'))
	}
	cmd.Stdin = &input
	var stderr, stdout bytes.Buffer
	cmd.Stderr = &stderr
	cmd.Stdout = &stdout
	// The programs of a sequence take milliseconds. A worker that has not ended after 30 s is
	// asked for its goroutine dump (SIGQUIT): if that shows the executing goroutine BLOCKED -
	// waiting for a lock, a channel, a condition - while no other goroutine runs, the
	// execution can never end (errBlocked); a worker that is merely slow is an
	// inconclusive run (exit 2), never a violation.
	err := cmd.Start()
	if err == nil {
		done := make(chan error, 1)
		go func() { done <- cmd.Wait() }()
		select {
		case err = <-done:
		case <-time.After(30 * time.Second):
			cmd.Process.Signal(syscall.SIGQUIT)
			select {
			case <-done:
			case <-time.After(5 * time.Second):
				cmd.Process.Kill()
				<-done
			}
			dump := stderr.String()
			if blockedDump(dump) {
				return nil, &errBlocked{dump: tailStr(dump, 6000)}
			}
			fmt.Println("INCONCLUSIVE: a worker process did not end within 30 s (no blocked execution in its goroutine dump)")
			h.ExitInconclusive()
		}
	}
	out := stdout.Bytes()
	var results []result
	for _, ln := range bytes.Split(out, []byte("\n")) {
		if len(ln) == 0 {
			continue
		}
		var res result
		if json.Unmarshal(ln, &res) == nil {
			results = append(results, res)
		}
	}
	if len(results) != len(jobs) {
		return results, fmt.Errorf("worker answered %d of %d programs (%v): %s", len(results), len(jobs), err, tailStr(stderr.String(), 1500))
	}
	return results, nil
}

// errBlocked - the worker's goroutine dump shows the execution blocked for ever
type errBlocked struct{ dump string }

func (e *errBlocked) Error() string { return "the execution is blocked for ever:\n" + e.dump }

// blockedDump - the goroutine executing the job (runJob in its stack) waits for a lock, a
// semaphore, a channel or a condition, and no goroutine is running or runnable
func blockedDump(dump string) bool {
	blocked := false
	for _, g := range strings.Split(dump, "\n\ngoroutine ") {
		head := strings.SplitN(g, "\n", 2)[0]
		if strings.Contains(head, "[running") || strings.Contains(head, "[runnable") {
			if strings.Contains(g, "runJob") {
				return false
			}
			continue
		}
		if strings.Contains(g, "runJob") {
			for _, st := range []string{"[sync.", "[semacquire", "[chan ", "[select", "[sync.Cond"} {
				if strings.Contains(head, st) {
					blocked = true
				}
			}
		}
	}
	return blocked
}

func tailStr(s string, n int) string {
	if len(s) > n {
		return s[len(s)-n:]
	}
	return s
}

// ---------------------------------------------------------------------------------------
// probes and polluters

var probes = []string{
	"输出数值 + 1",
	"输出数值",
	"输出（新建数值：5）",
	"输出以数值（加：2）",
	"抛出异常：“m”！",
	"输出（新建异常：“m”）之内容",
	"如何甲？\n    抛出异常：“内层”！\n（甲）\n拦截异常：\n    输出其内容",
	"输出【真，假，空】",
	"输出假 或 真",
	"（显示：1、“a”、【1】）\n输出1",
	"导入《@JSON》\n输出（生成JSON：【“a” = 1，“b” = 【1，2】】）",
	"导入《@JSON》\n输出（解析JSON：“{\"k\":[1,true,null]}”）",
	"导入《@测试库》\n输出（新建HTTP响应：200、“x”）之头部",
	"导入《@测试库》\n输出（新建HTTP响应：200、“x”）之状态码",
	"导入《@测试库》\n输出（新建HTTP请求：“GET”、“u”）之方法",
	"导入《@测试库》\n令物 = （新建HTTP请求：“POST”、“u”、【“a” = 1】）\n输出【物之头部，物之内容，物之查询参数】",
	"如何双？\n    输入数\n    输出数 * 2\n输出（双：21）",
	"定义盒：\n    其量 = 【1】\n令甲盒 = （新建盒）\n以甲盒之量（后增：2）\n输出【甲盒之量，（新建盒）之量】",
	"输出甲",
	"输出解析JSON",
	"令甲 = 1\n令解析JSON = 2\n输出甲 + 解析JSON",
	"输出1 / 0",
	"输出“{#.2}” % 【数值 + 0.5】",
	"输出以“12”（转换数值）",
	"输出（取随机数） >= 0",
	"输出显示",
	"输出异常",
	// declarations that occupy the first name slots of a program: a type with its constructor, a
	// method held by a variable and called through it, a library function held by a variable
	"定义点：\n    其横 = 0\n如何新建点？\n    输入甲\n    其横 = 甲\n输出（新建点：7）之横",
	"如何首？\n    输出41\n令持 = 首\n输出（持） + 1",
	"定义甲型：\n    其一 = 1\n定义乙型：\n    其二 = 2\n如何新建乙型？\n    输入值\n    其二 = 值\n如何新建甲型？\n    输入值\n    其一 = 值\n输出【（新建甲型：3）之一，（新建乙型：4）之二】",
	// values handed in by the host
	"输入入表、入典、入数\n输出【入表，入典，入数】",
	// literals denote their value in every execution
	"输出【4100 + 0，7300 * 2 - 7300，4100 < 4101】",
	// values handed out by a library: every call must hand out a pristine one
	"导入《@JSON》\n输出（解析JSON：“null”）",
	"导入《@JSON》\n输出（解析JSON：“{}”）",
	"导入《@JSON》\n输出【（解析JSON：“null”），（解析JSON：“{\"a\":[]}”）】",
	// programs run from files, importing modules that lie next to them
	fileProg("导入“工具”\n输出（加一：41）", "工具", "如何加一？\n    输入数\n    输出数 + 1"),
	fileProg("导入“工具”\n导入“库-甲”\n输出【（加一：1），（甲法）】", "工具", "如何加一？\n    输入数\n    输出数 + 1", "库-甲", "导入“库-乙”\n如何甲法？\n    输出（乙法） + 1", "库-乙", "如何乙法？\n    输出10"),
	fileProg("导入“工具”之加一\n输出（加一：1）", "工具", "令内部 = 【1，2】\n如何加一？\n    输入数\n    以内部（后增：数）\n    输出内部"),
	fileProg("导入“无此模块”\n输出1"),
	// the file library (paths relative to the worker's own scratch directory)
	"导入《@文件》\n（写入文件：“探针.txt”、“内容”）\n输出（读取文件：“探针.txt”）",
	"导入《@文件》\n输出（读取文件：“无此文件.txt”）\n拦截异常：\n    输出“读不到”",
	"导入《@文件》\n（写入文件：“无此目录/深/探针.txt”、“x”）\n输出“写成了”\n拦截异常：\n    输出“写不了”",
	"导入《@文件》\n输出（读取目录：“无此目录”）\n拦截异常：\n    输出“列不了”",
	fileProg("导入“坏”\n输出1", "坏", "输出1 / 0"),
}

var mutators = []string{"自增", "自减", "加", "减", "乘", "除", "向下取整", "向上取整", "转换数值", "后增", "前增", "写入", "移除", "替换", "格式化", "拼接", "新增", "合并", "无此法"}
var setterNames = []string{"首项", "末项", "内容", "名", "状态码", "头部", "方法", "文本"}
var globals = []string{"数值", "真", "假", "空", "异常", "显示", "取随机数"}

func genPolluter(t *rapid.T) string {
	arg := func() string {
		return rapid.SampledFrom([]string{"1", "41", "“a”", "【1】", "真", "数值", "-0.5"}).Draw(t, "parg")
	}
	switch rapid.IntRange(0, 17).Draw(t, "pk") {
	case 0: // redefine the constructor of a predefined / library type
		cls := rapid.SampledFrom([]string{"异常", "异常", "HTTP响应", "HTTP请求", "数值", "显示"}).Draw(t, "ccls")
		imp := ""
		if strings.HasPrefix(cls, "HTTP") {
			imp = "导入《@测试库》\n"
		}
		ctor := func(name, ind string) string {
			return ind + "如何新建" + name + "？\n" + ind + "    输入甲\n" + ind + "    （显示：“污染”、甲）\n"
		}
		switch rapid.IntRange(0, 4).Draw(t, "croute") {
		case 0: // ... reached through an input of a method
			return imp + "如何改？\n    输入型\n" + ctor("型", "    ") + "    输出1\n输出（改：" + cls + "）"
		case 1: // ... through a variable
			return imp + "令型 = " + cls + "\n" + ctor("型", "") + "输出1"
		case 2: // ... through a 得到 name
			return imp + "如何取？\n    输出" + cls + "\n（取），得到型\n" + ctor("型", "") + "输出1"
		}
		return imp + ctor(cls, "") + "输出1"
	case 1, 2: // mutating members on predefined values
		g := rapid.SampledFrom(globals).Draw(t, "g")
		m := rapid.SampledFrom(mutators).Draw(t, "m")
		switch rapid.IntRange(0, 2).Draw(t, "nargs") {
		case 0:
			return "输出以" + g + "（" + m + "）"
		case 1:
			return "输出以" + g + "（" + m + "：" + arg() + "）"
		default:
			return "输出以" + g + "（" + m + "：" + arg() + "、" + arg() + "）"
		}
	case 3: // property writes on predefined values
		return rapid.SampledFrom(globals).Draw(t, "g") + "之" + rapid.SampledFrom(setterNames).Draw(t, "s") + " = " + arg() + "\n输出1"
	case 4: // assign / redeclare predefined names
		g := rapid.SampledFrom(globals).Draw(t, "g")
		if rapid.Bool().Draw(t, "decl") {
			return "令" + g + " = " + arg() + "\n输出" + g
		}
		return g + " = " + arg() + "\n输出" + g
	case 5: // objects of library types: mutate defaults through an instance
		return "导入《@测试库》\n令物 = （新建HTTP响应：200、“x”）\n以物之头部（写入：“z”、1）\n物之状态码 = 500\n令求 = （新建HTTP请求：“PUT”、“v”）\n以求之头部（写入：“y”、2）\n以求之查询参数（写入：“q”、3）\n求之方法 = “DELETE”\n输出物"
	case 6: // failing programs at some call depth
		d := rapid.IntRange(1, 4).Draw(t, "depth")
		var b strings.Builder
		for i := d; i >= 1; i-- {
			fmt.Fprintf(&b, "如何层%d？\n    令局部 = %d\n", i, i)
			if i == d {
				b.WriteString("    " + rapid.SampledFrom([]string{"输出1 / 0", "抛出异常：“未处理”！", "输出未知名", "输出【1】#9"}).Draw(t, "fault") + "\n")
			} else {
				fmt.Fprintf(&b, "    输出（层%d）\n", i+1)
			}
		}
		b.WriteString("（层1）\n输出“到不了”")
		return b.String()
	case 7: // imports and declarations of names the probes use
		return rapid.SampledFrom([]string{
			"导入《@JSON》\n输出1", "导入《@文件》\n输出1", "导入《@测试库》\n输出1",
			"令甲 = 5\n输出甲", "如何解析JSON？\n    输出1\n输出（解析JSON）", "如何双？\n    输出0\n输出（双）", "定义盒：\n    其量 = 【9】\n输出（新建盒）之量",
			"如何甲？\n    输出1\n输出（甲）",
		}).Draw(t, "decl")
	case 8: // in-place mutators on values derived from predefined ones
		return "令数 = 数值\n以数（自增：7）\n令数二 = 数值\n输出【数，数二，数值】"
	case 9: // custom exception named like the built-in's property, thrown and caught
		return "定义错：\n    其内容 = “x”\n如何新建错？\n    输入甲\n    其内容 = 甲\n抛出错：“自定义”！\n拦截错：\n    输出其内容"
	case 11, 12: // programs run from files: the same module names with other contents, cycles, failures
		tool := rapid.SampledFrom([]string{"如何加一？\n    输入数\n    输出数 + 100", "如何加一？\n    输入数\n    输出数 + 1", "令内部 = 【9】\n如何加一？\n    输入数\n    以内部（后增：数）\n    输出内部", "输出1 / 0", "如何别的？\n    输出0"}).Draw(t, "tool")
		switch rapid.IntRange(0, 4).Draw(t, "fk") {
		case 0:
			return fileProg("导入“工具”\n输出（加一：5）", "工具", tool)
		case 1:
			return fileProg("导入“工具”\n导入“库-甲”\n输出（甲法）", "工具", tool, "库-甲", "导入“库-乙”\n如何甲法？\n    输出（乙法） + 7", "库-乙", "如何乙法？\n    输出70")
		case 2:
			return fileProg("导入“库-甲”\n输出1", "库-甲", "导入“库-乙”\n如何甲法？\n    输出1", "库-乙", "导入“库-甲”\n如何乙法？\n    输出2")
		case 3:
			return fileProg("导入“无此模块”\n输出1")
		default:
			return fileProg("导入“坏”\n输出1", "坏", tool, "工具", tool)
		}
	case 15: // predefined values changed in place through an indirect route
		mut := rapid.SampledFrom([]string{"自增：41", "自减：9"}).Draw(t, "imut")
		return rapid.SampledFrom([]string{
			"如何累加？\n    输入甲\n    以甲（" + mut + "）\n    输出甲\n输出（累加：数值）",
			"输出以【数值】#1（" + mut + "）",
			"输出以【“k” = 数值】#“k”（" + mut + "）",
			"如何取？\n    输出数值\n（取）得到乙\n以乙（" + mut + "）\n输出乙",
			"定义盒：\n    其量 = 0\n令甲盒 = （新建盒）\n甲盒之量 = 数值\n以甲盒之量（" + mut + "）\n输出甲盒之量",
			"以甲遍历【数值】：\n    以甲（" + mut + "）\n输出数值",
		}).Draw(t, "indirect")
	case 16: // values handed in by the host, changed in place
		return "输入入表、入典、入数\n" + rapid.SampledFrom([]string{"以入表（后增：9）", "以入表#2（后增：9）", "以入典（写入：“z”、1）", "以入典#“a”（后增：9）", "以入数（自增：5）", "以入典（移除：“a”）", "以入表（左移）"}).Draw(t, "inmut") + "\n输出【入表，入典，入数】"
	case 14: // number literals changed in place
		return rapid.SampledFrom([]string{"输出以4100（自增：1）", "输出以4100（自减：7）", "如何步？\n    输入计\n    以计（自增：1）\n    输出计\n输出（步：7300）", "如何步？\n    输出4100\n（步）得到甲\n以甲（自增：3）\n输出甲"}).Draw(t, "numlit")
	case 13: // a value handed out by a library, changed in place without being rebound (得到 / argument)
		doc := rapid.SampledFrom([]string{"null", "{}", "{\"a\":[]}", "{\"a\":[1],\"b\":{}}"}).Draw(t, "doc")
		mut := rapid.SampledFrom([]string{"以结果（写入：“k”、1）", "以结果（移除：“a”）", "结果#“z” = 【1】", "（改：结果）"}).Draw(t, "jmut")
		return "导入《@JSON》\n如何改？\n    输入典\n    以典（写入：“p”、2）\n    输出典\n（解析JSON：“" + doc + "”），得到结果\n" + mut + "\n输出结果"
	case 10: // syntax errors
		return rapid.SampledFrom([]string{"令", "如果真：", "（显示：", "“未闭合", "令甲 = 1\n    令乙 = 2"}).Draw(t, "syn")
	default:
		return rapid.SampledFrom(probes).Draw(t, "asprobe")
	}
}

// ---------------------------------------------------------------------------------------

type seqCase struct {
	Polluters []string `json:"polluters"`
	Probe     string   `json:"probe"`
	Shared    bool     `json:"shared"`
}

func replay(sub string, raw json.RawMessage) ([]h.Failure, error) {
	switch sub {
	case "reexecution":
		var c struct {
			Src string `json:"src"`
		}
		if err := json.Unmarshal(raw, &c); err != nil {
			return nil, err
		}
		return checkReExecution(c.Src), nil
	case "requests":
		var c reqSeqCase
		if err := json.Unmarshal(raw, &c); err != nil {
			return nil, err
		}
		return checkRequestSequence(c), nil
	case "sequence":
		var c seqCase
		if err := json.Unmarshal(raw, &c); err != nil {
			return nil, err
		}
		f, _ := checkSequence(c)
		return f, nil
	}
	return nil, fmt.Errorf("unknown sub-check %q (the concurrent part replays by re-running the race-enabled test)", sub)
}

var (
	baseMu    sync.Mutex
	baselines = map[string]result{}
)

func baseline(probe string) (result, error) {
	baseMu.Lock()
	defer baseMu.Unlock()
	if b, ok := baselines[probe]; ok {
		return b, nil
	}
	rs, err := runInFreshWorker([]job{{Src: probe}})
	if err != nil {
		return result{}, err
	}
	baselines[probe] = rs[0]
	return rs[0], nil
}

func normalise(r result) string {
	text := r.Text
	if r.Kind == "error" {
		text = ""
	}
	return fmt.Sprintf("kind=%s type=%s text=%q error=%q trace=%q", r.Kind, r.Type, text, r.Error, strings.Join(r.Trace, "\n"))
}

func checkSequence(c seqCase) (fails []h.Failure, succeeded int) {
	base, err := baseline(c.Probe)
	if err != nil {
		return []h.Failure{{Sig: "sequence/worker-died-on-probe", Msg: fmt.Sprintf("probe %q alone: %v", c.Probe, err)}}, 0
	}
	if base.Kind == h.KPanic || base.Kind == h.KBudget {
		return []h.Failure{{Sig: "sequence/probe-crashes", Msg: fmt.Sprintf("probe %q alone: %s", c.Probe, normalise(base))}}, 0
	}
	var jobs []job
	for _, p := range c.Polluters {
		jobs = append(jobs, job{Src: p, Shared: c.Shared})
	}
	jobs = append(jobs, job{Src: c.Probe, Shared: c.Shared})
	rs, err := runInFreshWorker(jobs)
	if eb, ok := err.(*errBlocked); ok {
		return []h.Failure{{Sig: "sequence/execution-blocked-for-ever@" + firstLine(c.Probe), Msg: fmt.Sprintf("in one process, after the programs %q the probe\n%s\nnever ends (alone in a fresh process: %s)\n%v", c.Polluters, c.Probe, normalise(base), eb)}}, 0
	}
	if err != nil {
		return []h.Failure{{Sig: "sequence/worker-died", Msg: fmt.Sprintf("polluters %q probe %q: %v", c.Polluters, c.Probe, err)}}, 0
	}
	for i, r0 := range rs[:len(rs)-1] {
		if r0.Kind == h.KPanic {
			return []h.Failure{{Sig: "sequence/polluter-panics", Msg: fmt.Sprintf("program %q: %s", c.Polluters[i], r0.Error)}}, 0
		}
		if r0.Kind == h.KValue {
			succeeded++
		}
	}
	got := rs[len(rs)-1]
	if strings.Contains(c.Probe, "取随机数") && got.Kind == base.Kind {
		return nil, succeeded
	}
	if normalise(got) != normalise(base) {
		var hist []string
		for i, p := range c.Polluters {
			hist = append(hist, fmt.Sprintf("--- program %d (%s):\n%s", i+1, rs[i].Kind, p))
		}
		mode := "separate Interpreter objects"
		if c.Shared {
			mode = "one shared Interpreter object"
		}
		return []h.Failure{{Sig: "sequence/probe-outcome-changed@" + firstLine(c.Probe), Msg: fmt.Sprintf("in one process (%s), after\n%s\n--- probe:\n%s\nalone in a fresh process: %s\nafter the programs above:  %s", mode, strings.Join(hist, "\n"), c.Probe, normalise(base), normalise(got))}}, succeeded
	}
	return nil, succeeded
}

func firstLine(s string) string { return strings.SplitN(s, "\n", 2)[0] }

func TestSequences(t *testing.T) {
	rapid.Check(t, func(t *rapid.T) {
		n := rapid.IntRange(1, 6).Draw(t, "n")
		c := seqCase{Shared: rapid.Bool().Draw(t, "shared")}
		for i := 0; i < n; i++ {
			c.Polluters = append(c.Polluters, genPolluter(t))
		}
		c.Probe = rapid.SampledFrom(probes).Draw(t, "probe")
		fails, ok := checkSequence(c)
		key, _ := json.Marshal(c)
		labels := []string{}
		if c.Shared {
			labels = append(labels, "shared-interpreter")
		} else {
			labels = append(labels, "separate-interpreters")
		}
		h.R.Case(t, "sequence", string(key), c, labels, ok >= 1, fails)
	})
}

// every probe after every single-program polluter family member listed explicitly
func TestKnownPolluters(t *testing.T) {
	polluters := []string{
		"输出以数值（自增：41）",
		"输出以数值（自减：1）",
		"如何新建异常？\n    输入甲\n    （显示：甲）\n输出1",
		"导入《@测试库》\n如何新建HTTP响应？\n    输入甲\n    （显示：甲）\n输出1",
		"导入《@测试库》\n令物 = （新建HTTP响应：200、“x”）\n以物之头部（写入：“z”、1）\n输出1",
		"以“1*^3”（转换数值）\n输出1",
		"令真 = 0\n输出1",
		// a predefined value reaching an in-place method by an indirect route
		"如何累加？\n    输入甲\n    以甲（自增：41）\n    输出甲\n输出（累加：数值）",
		"输出以【数值】#1（自增：41）",
		"如何取？\n    输出数值\n（取）得到乙\n以乙（自减：9）\n输出乙",
		// a number literal changed in place (literal as receiver / handed straight to a method)
		"输出以4100（自增：1）",
		"如何步？\n    输入计\n    以计（自增：1）\n    输出计\n输出（步：7300）",
		"导入《@JSON》\n（解析JSON：“null”），得到结果\n以结果（写入：“k”、1）\n输出结果",
		"导入《@JSON》\n（解析JSON：“{}”），得到结果\n以结果（写入：“k”、1）\n输出结果",
		// library calls that fail part-way (a value without JSON form after entries that have
		// one; a document that breaks off), handled or not
		"导入《@JSON》\n输出（生成JSON：【“甲” = 1，“乙” = 显示】）",
		"导入《@JSON》\n输出（生成JSON：【“甲” = 【1，2，【“丙” = 异常】】】）\n拦截异常：\n    输出“生成不了”",
		"导入《@JSON》\n输出（解析JSON：“{\"a\":[1,2,{\"b\":”）",
		"导入《@JSON》\n输出（解析JSON：“{\"a\":1,\"b\":tru}”）\n拦截异常：\n    输出“解析不了”",
		// file operations that fail (handled or not) or succeed
		"导入《@文件》\n（写入文件：“无此目录/a.txt”、“x”）\n输出1",
		"导入《@文件》\n（写入文件：“无此目录/a.txt”、“x”）\n输出1\n拦截异常：\n    输出2",
		"导入《@文件》\n输出（读取文件：“无此文件.txt”）",
		"导入《@文件》\n输出（读取目录：“无此目录”）",
		"导入《@文件》\n（写入文件：“探针.txt”、“别的内容”）\n输出（读取文件：“探针.txt”）",
		"导入《@文件》\n（写入文件：1、2）\n输出1",
		// declarations of every name a probe uses
		"令甲 = 5\n输出甲", "如何甲？\n    输出1\n输出（甲）", "如何解析JSON？\n    输出1\n输出（解析JSON）", "如何双？\n    输出0\n输出（双）",
		"定义盒：\n    其量 = 【9】\n输出（新建盒）之量", "导入《@JSON》\n输出1", "导入《@测试库》\n输出1",
	}
	for _, p := range polluters {
		for _, q := range probes {
			for _, shared := range []bool{false, true} {
				c := seqCase{Polluters: []string{p}, Probe: q, Shared: shared}
				fails, ok := checkSequence(c)
				key, _ := json.Marshal(c)
				h.R.Case(t, "sequence", string(key), c, []string{"explicit-pair"}, ok >= 1, fails)
			}
		}
	}
	bl := map[string]string{}
	for _, q := range probes {
		if b, err := baseline(q); err == nil {
			bl[q] = normalise(b)
		}
	}
	h.R.Extra("probe_outcomes_alone", bl)
	h.R.Exhaustive("explicit-pairs", fmt.Sprintf("%d listed polluters x %d probes x shared/separate", len(polluters), len(probes)))
}

// ---------------------------------------------------------------------------------------
// concurrent part (run under -race): every response carries its own token

func TestConcurrentHandlers(t *testing.T) {
	rounds := h.Scale(20, 400)
	entry := filepath.Join(tmpDir, "entry.zn")
	// the entry program imports a module lying next to it (module lookup runs on every request)
	os.WriteFile(filepath.Join(tmpDir, "工具.zn"), []byte("如何回声？\n    输入文\n    输出文"), 0o644)
	os.WriteFile(entry, []byte("导入“工具”\n输入当前请求\n令记号 = 当前请求之查询参数#“t”\n令表 = 【记号】\n以表（后增：（回声：记号））\n输出表#2"), 0o644)
	z := exec.NewInterpreter("verif").SetExternalLibs(libs())
	pg := server.NewZnPlaygroundHandler(z)
	hh := server.NewZnHttpHandler(z, entry)
	for round := 0; round < rounds; round++ {
		n := 2 + round%15
		var wg sync.WaitGroup
		errs := make([]string, n)
		for g := 0; g < n; g++ {
			wg.Add(1)
			go func(g int) {
				defer wg.Done()
				tok := fmt.Sprintf("tok-%d-%d", round, g)
				var body string
				if g%2 == 0 {
					// every request formats a number with a directive no earlier request used, and
					// names a variable with a character no earlier request used
					// (state that a front end keeps per character is touched for the first time
					// while other requests are being compiled)
					id := "乙" + string(rune(0x3400+(round*16+g)%6000))
					if !syntax.IdInRange(rune(0x3400 + (round*16+g)%6000)) {
						id = "乙"
					}
					// ... and uses one of the facilities every execution shares with the others
					// (predefined methods and types, library functions, built-in methods)
					shared := [][2]string{
						{"", "令随 = （取随机数）\n"},
						{"", "令随 = （取随机数） + （取随机数） + （取随机数）\n"},
						{"导入《@JSON》\n", "令随 = （解析JSON：“{\"a\":[1,2]}”）\n令随二 = （生成JSON：随）\n"},
						{"", "令随 = （新建异常：“m”）之内容\n"},
						{"", "令随 = 【3，1，2】之逆序\n令随二 = “文本”之长度\n"},
						{"", "令随 = 0\n以值遍历【1，2，3】：\n    随 = 随 + （取随机数）\n"},
					}[(round+g/2)%6]
					payload, _ := json.Marshal(map[string]string{"SourceCode": shared[0] + "输入甲\n" + shared[1] + "令" + id + " = 数值 + 甲\n令丙 = “{#." + fmt.Sprint((round*16+g)%300) + "}” % 【" + id + "】\n输出【“" + tok + "”，" + id + "，丙】#1", "VarInput": "甲 = " + fmt.Sprint(g)})
					req := httptest.NewRequest("POST", "http://zn.test/", bytes.NewReader(payload))
					rec := httptest.NewRecorder()
					pg.ServeHTTP(rec, req)
					b, _ := io.ReadAll(rec.Body)
					body = string(b)
				} else {
					req := httptest.NewRequest("GET", "http://zn.test/x?t="+tok, nil)
					rec := httptest.NewRecorder()
					hh.ServeHTTP(rec, req)
					b, _ := io.ReadAll(rec.Body)
					body = string(b)
				}
				if body != tok {
					errs[g] = fmt.Sprintf("request with token %q was answered %q", tok, body)
				}
			}(g)
		}
		wg.Wait()
		var fails []h.Failure
		for _, e := range errs {
			if e != "" {
				fails = append(fails, h.Failure{Sig: "concurrent/wrong-response", Msg: e})
				break
			}
		}
		h.R.Case(t, "concurrent", fmt.Sprint("round-", round, "-", n), map[string]int{"round": round, "goroutines": n}, []string{"concurrent-round"}, true, fails)
	}
}

func checkReExecution(mainSrc string) []h.Failure {
	z := exec.NewInterpreter("verif").SetExternalLibs(libs()).LoadScript([]rune(mainSrc))
	var first string
	var fails []h.Failure
	for i := 0; i < 3; i++ {
		var res result
		var val r.Element
		var err error
		var kind, msg, site string
		out := h.Capture(func() {
			kind, msg, site = h.Guard(func() { val, err = z.Execute(r.ElementMap{}) })
		})
		switch {
		case kind != "":
			res.Kind, res.Error = kind, msg+" @"+site
		case err != nil:
			res.Kind, res.Error = "error", exec.DisplayError(err)
		default:
			o := &h.Outcome{}
			h.FillValue(o, val)
			res.Kind, res.Type, res.Text = o.Kind, o.ValType, o.ValText
		}
		if out != "" {
			res.Trace = strings.Split(strings.TrimSuffix(out, "\n"), "\n")
		}
		got := normalise(res)
		if i == 0 {
			first = got
		} else if got != first {
			fails = append(fails, h.Failure{Sig: "reexecution/outcome-differs", Msg: fmt.Sprintf("program loaded once with LoadScript:\n%s\nexecution 1: %s\nexecution %d: %s", mainSrc, first, i+1, got)})
			break
		}
	}
	return fails
}

// TestReExecution - ONE loaded script (or file) executed several times: every execution starts
// from the same program text and state, so all of them give the same outcome
func TestReExecution(t *testing.T) {
	extra := []string{
		"输出“a`TAB`b`CRLF`c`SP`d`BK`e”",
		"输出【“x`U+4E2D`y”，“左`」`右”，“`LF``LF`”】",
		"令甲 = “`U+1F600`” + “尾”\n（显示：甲）\n输出甲之长度",
		"注：「含`CR`的注释」\n输出“完`TAB`”",
	}
	progs := append(append([]string{}, probes...), extra...)
	for _, src := range progs {
		mainSrc, _, isFile := splitFileProg(src)
		if isFile {
			continue // (file programs are re-read from disk for every execution)
		}
		if strings.Contains(src, "取随机数") {
			continue
		}
		fails := checkReExecution(mainSrc)
		h.R.Case(t, "reexecution", src, map[string]string{"src": src}, []string{"loaded-once-executed-thrice"}, true, fails)
	}
	h.R.Exhaustive("reexecution", fmt.Sprintf("%d programs, each loaded once and executed three times", len(progs)))
}

func TestCorpus(t *testing.T) { h.RunCorpus(t, "c16", replay) }
