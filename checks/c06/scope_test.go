// C06 - names obey block scoping; constants and inputs cannot be reassigned
package c06

import (
	"encoding/json"
	"fmt"
	"strings"
	"testing"

	zerr "github.com/DemoHn/Zn/pkg/error"
	r "github.com/DemoHn/Zn/pkg/runtime"
	"github.com/DemoHn/Zn/pkg/value"
	"pgregory.net/rapid"

	h "verif/harness"
	"verif/zn"
)

func TestMain(m *testing.M) { h.Main(m, "C06", replay) }

func replay(sub string, raw json.RawMessage) ([]h.Failure, error) {
	switch sub {
	case "scope":
		var ops []scopeOp
		if err := json.Unmarshal(raw, &ops); err != nil {
			return nil, err
		}
		return runScopeOps(ops), nil
	case "program":
		return replayProgram(raw)
	case "listed":
		var c listedCase
		if err := json.Unmarshal(raw, &c); err != nil {
			return nil, err
		}
		return checkListed(c), nil
	}
	return nil, fmt.Errorf("unknown sub-check %q", sub)
}

// ---------------------------------------------------------------------------------------
// (a) symbol table, stateful, through the public API of runtime.Scope

type scopeOp struct {
	Op   string `json:"op"` // begin end declare const set get; deepen = Val empty nested blocks at once
	Name string `json:"name,omitempty"`
	Val  int    `json:"val,omitempty"`
}

type mbind struct {
	val   int
	konst bool
}

func errCode(err error) int {
	if e, ok := err.(*zerr.RuntimeError); ok {
		return e.Code
	}
	if err == nil {
		return 0
	}
	return -1
}

func runScopeOps(ops []scopeOp) []h.Failure {
	var fails []h.Failure
	kind, msg, site := h.Guard(func() {
		sp := r.NewScope()
		model := []map[string]*mbind{{}}
		// a nil entry with runs[i] = k stands for k nested blocks without declarations
		runs := []int{1}
		lookup := func(n string) *mbind {
			for i := len(model) - 1; i >= 0; i-- {
				if b, ok := model[i][n]; ok {
					return b
				}
			}
			return nil
		}
		history := []string{}
		fail := func(sig, why string) {
			fails = append(fails, h.Failure{Sig: "scope/" + sig, Msg: fmt.Sprintf("after %s\n%s", strings.Join(history, "; "), why)})
		}
		for _, op := range ops {
			history = append(history, fmt.Sprintf("%s %s %d", op.Op, op.Name, op.Val))
			switch op.Op {
			case "begin":
				sp.BeginScope()
				model = append(model, map[string]*mbind{})
				runs = append(runs, 1)
			case "deepen":
				if op.Val <= 0 {
					continue
				}
				for i := 0; i < op.Val; i++ {
					sp.BeginScope()
				}
				model = append(model, nil)
				runs = append(runs, op.Val)
			case "end":
				if len(model) == 1 {
					continue
				}
				sp.EndScope()
				if runs[len(runs)-1] > 1 {
					runs[len(runs)-1]--
				} else {
					model = model[:len(model)-1]
					runs = runs[:len(runs)-1]
				}
			case "declare", "const":
				var err error
				if op.Op == "const" {
					err = sp.DeclareConstValue(op.Name, value.NewNumber(float64(op.Val)))
				} else {
					err = sp.DeclareValue(op.Name, value.NewNumber(float64(op.Val)))
				}
				if model[len(model)-1] == nil {
					// the innermost of a run of empty blocks gets its own table
					if runs[len(runs)-1] > 1 {
						runs[len(runs)-1]--
						model = append(model, map[string]*mbind{})
						runs = append(runs, 1)
					} else {
						model[len(model)-1] = map[string]*mbind{}
					}
				}
				cur := model[len(model)-1]
				if _, dup := cur[op.Name]; dup {
					if errCode(err) != zerr.ErrNameRedeclared {
						fail("redeclare-accepted", fmt.Sprintf("declaring %q twice in the same block: expected error 43, got %v", op.Name, err))
						return
					}
				} else {
					if err != nil {
						fail("declare-rejected", fmt.Sprintf("declaring %q in a block that does not have it: %v", op.Name, err))
						return
					}
					cur[op.Name] = &mbind{op.Val, op.Op == "const"}
				}
			case "set":
				err := sp.SetValue(op.Name, value.NewNumber(float64(op.Val)))
				b := lookup(op.Name)
				switch {
				case b == nil:
					if errCode(err) != zerr.ErrNameNotDefined {
						fail("set-unbound", fmt.Sprintf("assigning unbound %q: expected error 42, got %v", op.Name, err))
						return
					}
				case b.konst:
					if errCode(err) != zerr.ErrAssignToConstant {
						fail("set-const-accepted", fmt.Sprintf("assigning constant %q: expected error 44, got %v", op.Name, err))
						return
					}
				default:
					if err != nil {
						fail("set-rejected", fmt.Sprintf("assigning variable %q: %v", op.Name, err))
						return
					}
					b.val = op.Val
				}
			case "get":
			}
			// invariant: every pool name resolves to the model's innermost binding
			for _, n := range poolOf(ops) {
				got := sp.GetValue(n)
				b := lookup(n)
				if b == nil {
					if got != nil {
						fail("stale-binding", fmt.Sprintf("%q should be unbound but resolves to %s", n, got.String()))
						return
					}
					continue
				}
				if got == nil {
					fail("lost-binding", fmt.Sprintf("%q should resolve to %d but is unbound", n, b.val))
					return
				}
				if num, ok := got.(*value.Number); !ok || num.GetValue() != float64(b.val) {
					fail("wrong-binding", fmt.Sprintf("%q should resolve to %d but resolves to %s", n, b.val, got.String()))
					return
				}
			}
		}
	})
	if kind != "" {
		fails = append(fails, h.Failure{Sig: "scope/" + kind + "@" + site, Msg: msg})
	}
	return fails
}

var scopeNames = []string{"a", "b", "c", "d"}

// block depths at which a table of fixed size or a narrow counter would end
var scopeDepths = []int{64, 100, 128, 256, 512, 1000, 1024, 2048, 4096, 8192, 10000, 16384, 32768, 65536, 100000}

// poolOf - the names whose resolution is compared after every step: the standard pool, every
// name the history uses and, for each of those, its hash twins (zn.HashTwins) - whether or
// not the history ever binds them
func poolOf(ops []scopeOp) []string {
	seen := map[string]bool{}
	var out []string
	add := func(n string) {
		if n != "" && !seen[n] {
			seen[n] = true
			out = append(out, n)
		}
	}
	for _, n := range scopeNames {
		add(n)
	}
	for _, op := range ops {
		add(op.Name)
		for _, tw := range zn.HashTwins {
			if tw[1] == op.Name {
				add(tw[2])
			}
			if tw[2] == op.Name {
				add(tw[1])
			}
		}
	}
	return out
}

func TestScopeMachine(t *testing.T) {
	rapid.Check(t, func(t *rapid.T) {
		n := rapid.IntRange(1, 40).Draw(t, "n")
		// half of the histories use, next to two ordinary names, two DIFFERENT names with the
		// same value under a commonplace hash function
		names := scopeNames
		twins := ""
		if rapid.Bool().Draw(t, "twins") {
			tw := rapid.SampledFrom(zn.HashTwins).Draw(t, "twin-pair")
			names = []string{"a", "b", tw[1], tw[2]}
			twins = "names-with-equal-" + tw[0]
		}
		var ops []scopeOp
		depth := 0
		val := 0
		// one history in five works at a block depth next to a power of two or ten (recursion
		// reaches such depths): the blocks opened before the first operation hold nothing
		deep := ""
		if rapid.IntRange(0, 4).Draw(t, "deep") == 0 {
			base := rapid.SampledFrom(scopeDepths).Draw(t, "depth")
			d := base + rapid.IntRange(-3, 2).Draw(t, "off")
			ops = append(ops, scopeOp{Op: "deepen", Val: d})
			depth = d
			deep = fmt.Sprintf("starts-at-depth-about-%d", base)
		}
		shadow2, rejectedThenRead := false, false
		declDepth := map[string][]int{}
		pendingReject := false
		for i := 0; i < n; i++ {
			k := rapid.SampledFrom([]string{"begin", "begin", "end", "declare", "declare", "const", "set", "set", "get"}).Draw(t, "op")
			if k == "end" && depth == 0 {
				k = "begin"
			}
			op := scopeOp{Op: k}
			switch k {
			case "begin":
				depth++
			case "end":
				for nme, ds := range declDepth {
					for len(ds) > 0 && ds[len(ds)-1] >= depth {
						ds = ds[:len(ds)-1]
					}
					declDepth[nme] = ds
				}
				depth--
			case "get":
				if pendingReject {
					rejectedThenRead = true
				}
			default:
				op.Name = rapid.SampledFrom(names).Draw(t, "name")
				val++
				op.Val = val
				if k == "declare" || k == "const" {
					ds := declDepth[op.Name]
					if len(ds) > 0 && ds[len(ds)-1] == depth {
						pendingReject = true
					} else {
						declDepth[op.Name] = append(ds, depth)
						if len(declDepth[op.Name]) >= 3 {
							shadow2 = true
						}
					}
				}
				if k == "set" {
					pendingReject = true // may or may not be rejected; a later get observes it
				}
			}
			ops = append(ops, op)
		}
		key, _ := json.Marshal(ops)
		var labels []string
		if shadow2 {
			labels = append(labels, "shadow-across-2-levels")
		}
		if rejectedThenRead {
			labels = append(labels, "possibly-rejected-then-read")
		}
		if twins != "" {
			labels = append(labels, twins)
		}
		if deep != "" {
			labels = append(labels, deep)
		}
		h.R.Case(t, "scope", string(key), ops, labels, shadow2 || rejectedThenRead, runScopeOps(ops))
	})
}

func TestCorpus(t *testing.T) { h.RunCorpus(t, "c06", replay) }
