#!/bin/bash
# Run a check against ANOTHER checkout of DemoHn/Zn (e.g. a scratch worktree holding a seeded
# change) without touching /repo: a temporary copy of /verif is pointed at it.
#   tools/altcheck.sh <repo-dir> <CNN> [quick|thorough] [run,run,...]
set -e -o pipefail
REPO="$1"; PROP="$2"; TIER="${3:-quick}"; ONLY="${4:+--only $4}"
ALT=$(mktemp -d /tmp/verif-alt-XXXXXX)
trap 'rm -rf "$ALT"' EXIT
rsync -a --exclude .out --exclude bin --exclude .git --exclude replays /verif/ "$ALT"/
sed -i "s#=> /repo#=> $REPO#" "$ALT/go.mod" "$ALT/pm/go.mod"
cd "$ALT"
VERIF_REPO="$REPO" ./check "$PROP" --tier "$TIER" $ONLY 2>&1 | sed "s#$ALT#/verif#g"
