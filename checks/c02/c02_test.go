// C02 - branches, loops and 输出 follow the documented control flow
package c02

import (
	"encoding/json"
	"fmt"
	"strings"
	"testing"

	"pgregory.net/rapid"

	h "verif/harness"
	"verif/zn"
)

func TestMain(m *testing.M) { h.Main(m, "C02", replay) }

// saved - replayable case: source text plus the documented expectation
type saved struct {
	Src       string   `json:"src"`
	WantTrace []string `json:"want_trace"`
	WantErr   bool     `json:"want_err"`
	WantKnown bool     `json:"want_value_known"`
	WantShow  string   `json:"want_show,omitempty"`
	WantType  string   `json:"want_type,omitempty"`
	Steps     int64    `json:"ref_steps"`
}

func typeOf(v zn.Value) string {
	switch v.(type) {
	case float64:
		return "number"
	case bool:
		return "bool"
	case string:
		return "string"
	case zn.NullV:
		return "null"
	case *zn.ListV:
		return "array"
	case *zn.DictV:
		return "hashmap"
	}
	return "other"
}

func mkSaved(src string, ref *zn.Result) saved {
	s := saved{Src: src, WantTrace: ref.Out, WantErr: ref.Err != nil, Steps: ref.Steps}
	if ref.Err == nil && ref.ValKnown {
		s.WantKnown = true
		s.WantShow = zn.Show(ref.Val)
		s.WantType = typeOf(ref.Val)
	}
	return s
}

func replay(sub string, raw json.RawMessage) ([]h.Failure, error) {
	var s saved
	if err := json.Unmarshal(raw, &s); err != nil {
		return nil, err
	}
	return judge(&s), nil
}

func judge(s *saved) []h.Failure {
	o := h.Run(s.Src, h.Opts{EvalTicks: 20*s.Steps + 1000})
	ctx := "program:\n" + s.Src
	switch o.Kind {
	case h.KPanic:
		return []h.Failure{{Sig: "flow/go-panic@" + o.PanicSite, Msg: ctx + "\nGo panic: " + o.PanicMsg}}
	case h.KBudget:
		return []h.Failure{{Sig: "flow/does-not-terminate", Msg: fmt.Sprintf("%s\nthe reference terminates after %d steps; the interpreter exceeded %d ticks\ndisplayed so far: %v", ctx, s.Steps, 20*s.Steps+1000, head(o.Trace, 12))}}
	case h.KNil:
		return []h.Failure{{Sig: "flow/nil-result", Msg: ctx + "\nresult is a nil element"}}
	}
	if strings.Join(o.Trace, "\n") != strings.Join(s.WantTrace, "\n") {
		return []h.Failure{{Sig: "flow/trace-mismatch@" + divergence(s.WantTrace, o.Trace), Msg: fmt.Sprintf("%s\ndocumented display trace: %v\ninterpreter display trace: %v\noutcome: %s", ctx, s.WantTrace, o.Trace, o.Short())}}
	}
	if s.WantErr != (o.Kind == h.KError) {
		return []h.Failure{{Sig: "flow/error-ness", Msg: fmt.Sprintf("%s\ndocumented error=%v; interpreter: %s", ctx, s.WantErr, o.Short())}}
	}
	if s.WantKnown && (o.ValType != s.WantType || o.ValText != s.WantShow) {
		return []h.Failure{{Sig: "flow/wrong-result", Msg: fmt.Sprintf("%s\ndocumented result %s %q; interpreter: %s", ctx, s.WantType, s.WantShow, o.Short())}}
	}
	return nil
}

func head(xs []string, n int) []string {
	if len(xs) > n {
		return xs[:n]
	}
	return xs
}

// divergence - coarse classification of the first difference (part of the signature)
func divergence(want, got []string) string {
	i := 0
	for i < len(want) && i < len(got) && want[i] == got[i] {
		i++
	}
	switch {
	case i == len(want) && i < len(got):
		return "extra-output"
	case i == len(got) && i < len(want):
		return "missing-output"
	}
	return "different-output"
}

// ---------------------------------------------------------------------------------------
// generator

type gen struct {
	t                  *rapid.T
	marker             int
	fresh              int
	funcs              []string // callable method names
	labels             map[string]bool
	transferInLoopDeep bool
	multiTrue          bool
	trailSemi          bool
}

func (g *gen) pick(n int, w string) int { return rapid.IntRange(0, n-1).Draw(g.t, w) }

func (g *gen) mark() zn.Stmt {
	g.marker++
	return &zn.ExprStmt{E: &zn.Call{Name: "显示", Args: []zn.Expr{&zn.Str{V: fmt.Sprintf("s%d", g.marker)}}}}
}

func (g *gen) name(prefix string) string {
	g.fresh++
	return fmt.Sprintf("%s%d", prefix, g.fresh)
}

func numE(f float64) zn.Expr { return &zn.Num{Val: f} }

type env struct {
	ints      []string // readable integer variables
	loop      string   // "", "while", "each"
	depth     int      // block nesting depth
	loopDepth int
	inFunc    bool
}

func (g *gen) intExpr(e env) zn.Expr {
	if len(e.ints) > 0 && g.pick(2, "usevar") == 0 {
		return &zn.Var{Name: e.ints[g.pick(len(e.ints), "ivar")]}
	}
	return numE(float64(g.pick(5, "ilit")))
}

func (g *gen) cond(e env) zn.Expr {
	switch g.pick(9, "cond") {
	case 0:
		return &zn.BoolLit{V: true}
	case 1:
		return &zn.BoolLit{V: false}
	case 2: // non-boolean condition => documented error
		g.labels["non-bool-cond"] = true
		return []zn.Expr{numE(1), &zn.Str{V: "真"}, &zn.NullLit{}, numE(0)}[g.pick(4, "nb")]
	default:
		op := []string{"<", ">", "==", "/=", "<=", ">="}[g.pick(6, "cop")]
		return &zn.Bin{Op: op, L: g.observed(g.intExpr(e)), R: g.intExpr(e)}
	}
}

// observed - half of the time the operand goes through 测, which displays a line: every
// evaluation of a condition (and only an evaluation) then shows in the trace
func (g *gen) observed(x zn.Expr) zn.Expr {
	if g.pick(2, "observe") == 0 {
		return x
	}
	g.marker++
	g.labels["observed-condition"] = true
	return &zn.Call{Name: "测", Args: []zn.Expr{&zn.Str{V: fmt.Sprintf("c%d", g.marker)}, x}}
}

func (g *gen) block(e env, budget int) []zn.Stmt {
	n := 1 + g.pick(3, "blocklen")
	var out []zn.Stmt
	out = append(out, g.mark())
	for i := 0; i < n; i++ {
		out = append(out, g.stmt(e, budget)...)
		// a marker after every statement - except, sometimes, after the last one, so that a
		// nested statement can be the LAST statement of its block (dangling 再如/否则 shapes)
		if i < n-1 || g.pick(2, "tailmark") == 0 {
			out = append(out, g.mark())
		}
	}
	return out
}

func (g *gen) stmt(e env, budget int) []zn.Stmt {
	kinds := []string{"display", "let", "if", "if", "while", "each", "each", "call"}
	if e.loop != "" {
		kinds = append(kinds, "break", "continue", "break", "continue")
	}
	kinds = append(kinds, "return")
	if budget <= 0 {
		kinds = []string{"display", "let"}
		if e.loop != "" {
			kinds = append(kinds, "break", "continue")
		}
		kinds = append(kinds, "return")
	}
	k := kinds[g.pick(len(kinds), "kind")]
	inner := e
	inner.depth++
	switch k {
	case "display":
		if len(e.ints) > 0 {
			return []zn.Stmt{&zn.ExprStmt{E: &zn.Call{Name: "显示", Args: []zn.Expr{&zn.Str{V: "v"}, &zn.Var{Name: e.ints[g.pick(len(e.ints), "dv")]}}}}}
		}
		return []zn.Stmt{g.mark()}
	case "let":
		return []zn.Stmt{&zn.Let{Names: []string{g.name("L")}, E: g.intExpr(e)}}
	case "if":
		nb := 1 + g.pick(3, "nbranch")
		s := &zn.If{}
		trues := 0
		for i := 0; i < nb; i++ {
			c := g.cond(e)
			if b, ok := c.(*zn.BoolLit); ok && b.V {
				trues++
			}
			s.Conds = append(s.Conds, c)
			s.Blocks = append(s.Blocks, g.block(inner, budget-1))
		}
		if trues > 1 {
			g.multiTrue = true
		}
		if g.pick(2, "else") == 0 {
			s.Else = g.block(inner, budget-1)
		}
		return []zn.Stmt{s}
	case "while":
		cnt := g.name("I")
		limit := 1 + g.pick(3, "limit")
		inner.loop = "while"
		inner.loopDepth++
		inner.ints = append(append([]string{}, e.ints...), cnt)
		body := []zn.Stmt{
			&zn.ExprStmt{E: &zn.Assign{Target: &zn.Var{Name: cnt}, E: &zn.Bin{Op: "+", L: &zn.Var{Name: cnt}, R: numE(1)}}},
		}
		body = append(body, g.block(inner, budget-1)...)
		g.labels["while"] = true
		obsd := g.observed(&zn.Var{Name: cnt})
		if call, ok := obsd.(*zn.Call); ok && g.pick(2, "cond-yield") == 0 {
			// the condition binds a name with 得到 on every test: it belongs to that pass
			call.Yield = fmt.Sprintf("得%d", g.marker)
			body = append([]zn.Stmt{&zn.ExprStmt{E: &zn.Call{Name: "显示", Args: []zn.Expr{&zn.Str{V: "yielded"}, &zn.Var{Name: call.Yield}}}}}, body...)
			g.labels["condition-binds-a-name-on-every-test"] = true
		}
		return []zn.Stmt{
			&zn.Let{Names: []string{cnt}, E: numE(0)},
			&zn.While{Cond: &zn.Bin{Op: "<", L: obsd, R: numE(float64(limit))}, Body: body},
		}
	case "each":
		inner.loop = "each"
		inner.loopDepth++
		var coll zn.Expr
		isDict := g.pick(2, "dict") == 0
		n := g.pick(4, "ncoll")
		if isDict {
			d := &zn.DictLit{}
			keys := []string{"k1", "乙", "a", "k1", "z"}
			for i := 0; i < n; i++ {
				d.Keys = append(d.Keys, keys[g.pick(len(keys), "key")])
				d.Vals = append(d.Vals, numE(float64(10+g.pick(5, "dv"))))
			}
			coll = d
			g.labels["each-dict"] = true
		} else {
			l := &zn.ListLit{}
			for i := 0; i < n; i++ {
				l.Items = append(l.Items, numE(float64(20+g.pick(5, "lv"))))
			}
			coll = l
			g.labels["each-list"] = true
		}
		nn := g.pick(3, "nnames")
		// the body of a loop over a dictionary VARIABLE may remove the entry being visited or
		// add a new one: every entry present when the loop starts is still visited exactly once
		var pre []zn.Stmt
		mutate := ""
		if isDict && n >= 2 && g.pick(3, "mutating") == 0 {
			nn = 2
			dn := g.name("D")
			pre = []zn.Stmt{&zn.Let{Names: []string{dn}, E: coll}}
			coll = &zn.Var{Name: dn}
			mutate = dn
		}
		// ... and so may the body of a loop over a list VARIABLE change that list (grow it at
		// either end, shrink it, overwrite items): the loop visits the items the list held when
		// it began, each one once, in order
		mutateList := ""
		if !isDict && n >= 1 && g.pick(3, "mutating-list") == 0 {
			ln := g.name("M")
			pre = []zn.Stmt{&zn.Let{Names: []string{ln}, E: coll}}
			if g.pick(3, "spare-capacity") == 0 {
				// (the same items reached by another route: one more item, taken off again)
				l := coll.(*zn.ListLit)
				pre = []zn.Stmt{&zn.Let{Names: []string{ln}, E: &zn.ListLit{Items: append(append([]zn.Expr{}, l.Items...), numE(77))}},
					&zn.ExprStmt{E: &zn.MCall{Root: &zn.Var{Name: ln}, Chain: []zn.Call{{Name: "右移"}}}}}
			}
			coll = &zn.Var{Name: ln}
			mutateList = ln
		}
		fe := &zn.ForEach{E: coll}
		var shown []zn.Expr
		for i := 0; i < nn; i++ {
			v := g.name("V")
			fe.Names = append(fe.Names, v)
			shown = append(shown, &zn.Var{Name: v})
		}
		if nn >= 1 && !isDict {
			// the value variable of a list holds an integer
			inner.ints = append(append([]string{}, e.ints...), fe.Names[nn-1])
		}
		body := []zn.Stmt{}
		if nn > 0 {
			body = append(body, &zn.ExprStmt{E: &zn.Call{Name: "显示", Args: append([]zn.Expr{&zn.Str{V: "it"}}, shown...)}})
		}
		if nn >= 1 && g.pick(3, "loopvar-inplace") == 0 {
			// a loop variable (index / key or value) changed IN PLACE by the body: it belongs to
			// this pass only - the next pass, and every later loop, gets its own index and item
			lv := fe.Names[g.pick(nn, "lvi")]
			if !(isDict && nn == 2 && lv == fe.Names[0]) { // (dictionary keys are texts)
				body = append(body, &zn.ExprStmt{E: &zn.MCall{Root: &zn.Var{Name: lv}, Chain: []zn.Call{{Name: []string{"自增", "自减"}[g.pick(2, "incdec")], Args: []zn.Expr{numE(float64(1 + g.pick(40, "delta")))}}}}},
					&zn.ExprStmt{E: &zn.Call{Name: "显示", Args: append([]zn.Expr{&zn.Str{V: "changed"}}, shown...)}})
				g.labels["loop-variable-changed-in-place"] = true
			}
		}
		if mutateList != "" {
			lv := &zn.Var{Name: mutateList}
			for i, k := 0, 1+g.pick(3, "nlistmut"); i < k; i++ {
				switch g.pick(6, "listmut") {
				case 0:
					body = append(body, &zn.ExprStmt{E: &zn.MCall{Root: lv, Chain: []zn.Call{{Name: "前增", Args: []zn.Expr{numE(float64(60 + g.pick(9, "pv")))}}}}})
				case 1:
					body = append(body, &zn.ExprStmt{E: &zn.MCall{Root: lv, Chain: []zn.Call{{Name: "后增", Args: []zn.Expr{numE(float64(70 + g.pick(9, "av")))}}}}})
				case 2:
					body = append(body, &zn.ExprStmt{E: &zn.MCall{Root: lv, Chain: []zn.Call{{Name: "左移"}}}})
				case 3:
					body = append(body, &zn.ExprStmt{E: &zn.MCall{Root: lv, Chain: []zn.Call{{Name: "右移"}}}})
				default:
					// overwrite an item that is there whatever happened before (guarded by the length)
					idx := 1 + g.pick(n, "li")
					body = append(body, &zn.If{Conds: []zn.Expr{&zn.Bin{Op: ">=", L: &zn.Member{Root: lv, Name: "长度"}, R: numE(float64(idx))}},
						Blocks: [][]zn.Stmt{{&zn.ExprStmt{E: &zn.Assign{Target: &zn.Index{Root: lv, Idx: numE(float64(idx))}, E: numE(float64(80 + g.pick(9, "ov")))}}}}})
				}
			}
			body = append(body, &zn.ExprStmt{E: &zn.Call{Name: "显示", Args: []zn.Expr{&zn.Str{V: "list-now"}, lv}}})
			g.labels["each-list-changed-by-its-body"] = true
		}
		if mutate != "" {
			if g.pick(2, "mutkind") == 0 {
				body = append(body, &zn.ExprStmt{E: &zn.MCall{Root: &zn.Var{Name: mutate}, Chain: []zn.Call{{Name: "移除", Args: []zn.Expr{&zn.Var{Name: fe.Names[0]}}}}}})
				g.labels["each-dict-removing-visited-entry"] = true
			} else {
				body = append(body, &zn.ExprStmt{E: &zn.MCall{Root: &zn.Var{Name: mutate}, Chain: []zn.Call{{Name: "写入", Args: []zn.Expr{&zn.Str{V: "新"}, numE(1)}}}}})
				g.labels["each-dict-adding-entry"] = true
			}
		}
		fe.Body = append(body, g.block(inner, budget-1)...)
		g.labels[fmt.Sprintf("each-%d-names", nn)] = true
		return append(pre, fe)
	case "break":
		if e.loopDepth >= 1 && e.depth >= 2 {
			g.transferInLoopDeep = true
		}
		return []zn.Stmt{&zn.Break{}}
	case "continue":
		if e.loopDepth >= 1 && e.depth >= 2 {
			g.transferInLoopDeep = true
		}
		return []zn.Stmt{&zn.Continue{}}
	case "return":
		if e.loopDepth >= 1 && e.depth >= 2 {
			g.transferInLoopDeep = true
			g.labels["return-in-loop"] = true
		}
		return []zn.Stmt{&zn.Return{E: numE(float64(100 + g.pick(50, "rv")))}}
	case "call":
		if len(g.funcs) == 0 || e.inFunc {
			return []zn.Stmt{g.mark()}
		}
		f := g.funcs[g.pick(len(g.funcs), "fn")]
		g.labels["call"] = true
		r := g.name("R")
		return []zn.Stmt{
			&zn.Let{Names: []string{r}, E: &zn.Call{Name: f}},
			&zn.ExprStmt{E: &zn.Call{Name: "显示", Args: []zn.Expr{&zn.Str{V: "r"}, &zn.Var{Name: r}}}},
		}
	}
	panic("unreachable")
}

func (g *gen) program() *zn.Program {
	p := &zn.Program{}
	p.Body = append(p.Body, &zn.FuncDef{Name: "测", Params: []string{"标", "值"}, Body: []zn.Stmt{
		&zn.ExprStmt{E: &zn.Call{Name: "显示", Args: []zn.Expr{&zn.Str{V: "test"}, &zn.Var{Name: "标"}, &zn.Var{Name: "值"}}}},
		&zn.Return{E: &zn.Var{Name: "值"}},
	}})
	nf := g.pick(3, "nfuncs")
	maxB := h.Scale(3, 4)
	for i := 0; i < nf; i++ {
		name := fmt.Sprintf("F%d", i+1)
		body := g.block(env{inFunc: true, depth: 1}, 1+g.pick(maxB, "fbudget"))
		body = append(body, &zn.Return{E: numE(float64(900 + i))})
		p.Body = append(p.Body, &zn.FuncDef{Name: name, Body: body})
		g.funcs = append(g.funcs, name)
	}
	p.Body = append(p.Body, g.block(env{depth: 1}, 1+g.pick(maxB, "mbudget"))...)
	// final statement: an expression statement (program value) or not
	if g.pick(2, "finalexpr") == 0 {
		p.Body = append(p.Body, &zn.ExprStmt{E: &zn.Bin{Op: "+", L: numE(float64(g.pick(9, "fe"))), R: numE(1000)}})
		g.labels["final-expression"] = true
		// declarations may stand anywhere in a body (they are hoisted): one AFTER the final
		// expression statement does not change the program's value
		switch g.pick(4, "trailing-decl") {
		case 0:
			p.Body = append(p.Body, &zn.FuncDef{Name: "尾法", Body: []zn.Stmt{&zn.Return{E: numE(5)}}})
			g.labels["declaration-after-final-expression"] = true
		case 1:
			p.Body = append(p.Body, &zn.ClassDef{Name: "尾型", Props: []zn.Prop{{Name: "值", Init: numE(6)}}})
			g.labels["declaration-after-final-expression"] = true
		case 2:
			// a statement separator after the last statement separates it from nothing
			g.trailSemi = true
			g.labels["separator-after-final-expression"] = true
		}
	}
	return p
}

func TestFlow(t *testing.T) {
	rapid.Check(t, func(t *rapid.T) {
		g := &gen{t: t, labels: map[string]bool{}}
		p := g.program()
		src, _ := zn.Render(p, nil)
		if g.trailSemi {
			src = strings.TrimRight(src, "\n") + "；"
		}
		ref := zn.NewInterp().Run(p)
		if ref.Exhausted {
			h.R.Skip("reference budget exhausted (generator produced a too long run)")
			return
		}
		if len(ref.Unspec) > 0 {
			h.R.Skip("flow: " + ref.Unspec[0])
			return
		}
		s := mkSaved(src, ref)
		fails := judge(&s)
		var labels []string
		for l := range g.labels {
			labels = append(labels, l)
		}
		if ref.Err != nil {
			labels = append(labels, "documented-error")
		}
		if g.transferInLoopDeep {
			labels = append(labels, "transfer-in-loop-2-blocks-deep")
		}
		if g.multiTrue {
			labels = append(labels, "multi-true-branch-chain")
		}
		h.R.Case(t, "flow", src, s, labels, g.transferInLoopDeep || g.multiTrue, fails)
	})
}

func TestCorpus(t *testing.T) { h.RunCorpus(t, "c02", replay) }
