#!/bin/bash
# pinned suite in a checkout: suite.sh [dir]
export GOFLAGS=-mod=mod GOPROXY=off GOSUMDB=off GOTOOLCHAIN=local
cd "${1:-/repo}" && go test -vet=off -count=1 ./pkg/... 2>&1 | grep -v "^ok\|no test files" | head -20
echo "suite-done"
