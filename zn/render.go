package zn

import (
	"fmt"
	"math"
	"strconv"
	"strings"
)

// ---------------------------------------------------------------------------------------
// tokens and logical lines

type TokKind int

const (
	TID    TokKind = iota // identifier (name)
	TNum                  // number literal (an identifier token as well)
	TStr                  // text literal including its quotes
	TKw                   // keyword
	TArith                // + - * /   (need surrounding spaces)
	TMod                  // %          (needs a space before it after a name)
	TSym                  // any other punctuation / operator
)

type Tok struct {
	S           string
	K           TokKind
	Twin        string // ASCII twin of a full-width punctuation mark
	BreakAfter  bool   // a line break may follow (， 、 { 【 ： ？ inside an expression)
	BreakBefore bool   // a line break may precede (】 })
	CommaOK     bool   // an optional pause comma may precede this token
	RawBreaks   string // alternative spelling of a text literal with its line breaks written raw
}

// Line - one logical line (a statement head or a simple statement)
type Line struct {
	Indent int
	Toks   []Tok
	Stmt   Stmt // statement that starts on this line (nil for continuation constructs)
	Raw    string
	IsRaw  bool // emit Raw verbatim (comments)
}

// Policy - layout decisions. The zero value is the canonical layout.
// Every variation point asks pick(n, feature): the answer is 0 (canonical) unless the feature
// is enabled; then it is a pure function of the drawn Seed and the position of the question,
// so a rendering is reproducible from (Seed, Features) alone.
type Policy struct {
	Seed     uint64
	Features map[string]bool // enabled layout features; nil with Rich = every feature
	pos      uint64
	Tab      bool   // TAB indentation instead of 4 spaces
	EOL      string // "\n" (default), "\r\n", "\r", "\n\r"
	Rich     bool   // enable variation points at all
	Used     map[string]int
}

// LayoutFeatures - names of all variation points
var LayoutFeatures = []string{"quote-style", "cmp-word", "assign-word", "member-de", "let-word", "prop-word", "pre-line", "inner-break",
	"cont-indent", "comment-indent", "optional-comma", "extra-space", "opt-space", "ascii-twin", "backtick-id", "trail-comment", "final-eol", "raw-linebreak", "inner-blank", "blank-spaces", "stmt-sep", "trail-space", "lead-comment", "mid-comment"}

func (p *Policy) pick(n int, what string) int {
	if p == nil || !p.Rich || n <= 1 {
		return 0
	}
	if p.Features != nil && !p.Features[what] {
		return 0
	}
	// splitmix64 over (seed, position)
	p.pos++
	z := p.Seed + p.pos*0x9E3779B97F4A7C15
	z = (z ^ (z >> 30)) * 0xBF58476D1CE4E5B9
	z = (z ^ (z >> 27)) * 0x94D049BB133111EB
	z ^= z >> 31
	v := int(z % uint64(n))
	if v != 0 {
		if p.Used == nil {
			p.Used = map[string]int{}
		}
		p.Used[what]++
	}
	return v
}

// ---------------------------------------------------------------------------------------
// expression rendering with documented precedence

const (
	lvOr = iota + 1
	lvAnd
	lvCmp
	lvAssign
	lvAdd
	lvMul
	lvMember
	lvBasic
)

func opLevel(op string) int {
	switch op {
	case "或":
		return lvOr
	case "且":
		return lvAnd
	case "==", "/=", ">", "<", ">=", "<=", "为", "不为":
		return lvCmp
	case "+", "-":
		return lvAdd
	case "*", "/", "|", "%":
		return lvMul
	}
	return 0
}

var cmpWords = map[string]string{"==": "等于", "/=": "不等于", ">": "大于", "<": "小于", ">=": "不小于", "<=": "不大于"}

type renderer struct {
	pol   *Policy
	lines []Line
	// mapCtx > 0 while rendering items of a 【】 literal outside any inner { } / （ ）: there
	// the = sign separates key and value, so an assignment must be braced
	mapCtx int
}

func sym(s string) Tok { return Tok{S: s, K: TSym} }
func kw(s string) Tok  { return Tok{S: s, K: TKw} }

func (r *renderer) punct(full string) Tok {
	twins := map[string]string{"，": ",", "：": ":", "；": ";", "？": "?", "！": "!", "【": "[", "】": "]", "（": "(", "）": ")"}
	t := Tok{S: full, K: TSym, Twin: twins[full]}
	switch full {
	case "，", "、", "{", "【", "：", "？":
		t.BreakAfter = true
	case "】", "}":
		t.BreakBefore = true
	}
	return t
}

// FormatNum - default spelling of a double as a Zn numeral (only for finite values)
func FormatNum(f float64) string {
	if math.IsInf(f, 0) || math.IsNaN(f) {
		panic("non-finite number has no literal spelling")
	}
	s := strconv.FormatFloat(f, 'f', -1, 64)
	if len(s) > 24 {
		// use the scientific form with explicit sign: d.ddde+xx -> d.ddd*10^+xx
		s = strconv.FormatFloat(f, 'e', -1, 64)
		i := strings.IndexByte(s, 'e')
		mant, exp := s[:i], s[i+1:]
		return mant + "*10^" + exp
	}
	if f == 0 && math.Signbit(f) {
		return "-0"
	}
	return s
}

func quoteStr(s string) string {
	var b strings.Builder
	b.WriteString("“")
	for _, c := range s {
		switch c {
		case '`':
			b.WriteString("`BK`")
		case '\r':
			b.WriteString("`CR`")
		case '\n':
			b.WriteString("`LF`")
		case '“', '”', '「', '」', '‘', '’', '『', '』', '《', '》':
			b.WriteString("`" + string(c) + "`")
		default:
			b.WriteRune(c)
		}
	}
	b.WriteString("”")
	return b.String()
}

var allKeywords = []string{"令", "为", "以", "其", "或", "且", "之", "的", "设为", "恒为", "新建", "何为", "不为", "如果", "再如", "输出", "如何", "拦截", "导入", "定义", "得到", "输入", "否则", "每当", "遍历", "等于", "大于", "小于", "抛出", "不等于", "不大于", "不小于", "继续循环", "结束循环"}

// CheckName - a generator-side guard: names must not contain keyword text (they would be
// cut apart by the tokeniser) and must not look like numbers
func CheckName(n string) {
	if n == "" {
		panic("empty identifier")
	}
	for _, k := range allKeywords {
		if strings.Contains(n, k) {
			panic("generator bug: identifier " + n + " contains keyword " + k)
		}
	}
	if c := n[0]; c >= '0' && c <= '9' {
		panic("generator bug: identifier " + n + " starts with a digit")
	}
}

func (r *renderer) nameTok(n string) Tok {
	CheckName(n)
	return Tok{S: n, K: TID}
}

func (r *renderer) exprLevel(e Expr) int {
	switch v := e.(type) {
	case *Bin:
		return opLevel(v.Op)
	case *Assign:
		return lvAssign
	case *Index, *Member, *This:
		return lvMember
	case *MCall:
		return 0 // always braced when nested
	}
	return lvBasic
}

// expr - tokens of e; braces are added when e's level is below `min`
func (r *renderer) expr(e Expr, min int) []Tok {
	lv := r.exprLevel(e)
	if _, isAssign := e.(*Assign); isAssign && r.mapCtx > 0 {
		lv = -1
	}
	if lv < min || lv < 0 {
		saved := r.mapCtx
		r.mapCtx = 0
		out := []Tok{r.punct("{")}
		out = append(out, r.expr(e, 0)...)
		out = append(out, r.punct("}"))
		r.mapCtx = saved
		return out
	}
	switch v := e.(type) {
	case *Num:
		lit := v.Lit
		if lit == "" {
			lit = FormatNum(v.Val)
		}
		return []Tok{{S: lit, K: TNum}}
	case *BoolLit:
		if v.V {
			return []Tok{{S: "真", K: TID}}
		}
		return []Tok{{S: "假", K: TID}}
	case *NullLit:
		return []Tok{{S: "空", K: TID}}
	case *Str:
		q := quoteStr(v.V)
		if r.pol.pick(2, "quote-style") == 1 {
			q = "「" + strings.TrimSuffix(strings.TrimPrefix(q, "“"), "”") + "」"
		}
		t := Tok{S: q, K: TStr}
		if strings.ContainsAny(v.V, "\r\n") {
			// multi-line text (manual ch.6): the line breaks written as such instead of escapes
			// (the layout decides; also inside a block header: its block is indented relative to the
			// line the header STARTS on when the header's last line begins inside the text)
			t.RawBreaks = strings.ReplaceAll(strings.ReplaceAll(q, "`LF`", "\n"), "`CR`", "\r")
		}
		return []Tok{t}
	case *Var:
		return []Tok{r.nameTok(v.Name)}
	case *RawStr:
		return []Tok{{S: v.Src, K: TStr}}
	case *Grp:
		saved := r.mapCtx
		r.mapCtx = 0
		out := []Tok{r.punct("{")}
		out = append(out, r.expr(v.E, 0)...)
		r.mapCtx = saved
		return append(out, r.punct("}"))
	case *Bin:
		lv := opLevel(v.Op)
		lmin, rmin := lv, lv+1 // left-associative
		if lv == lvCmp {
			lmin, rmin = lvAssign, lvAssign // non-associative: operands one level up
		}
		out := r.expr(v.L, lmin)
		op := v.Op
		if v.Spell != "" {
			op = v.Spell
		} else if w, ok := cmpWords[op]; ok && r.pol.pick(2, "cmp-word") == 1 {
			op = w
		}
		var t Tok
		switch op {
		case "+", "-", "*", "/":
			t = Tok{S: op, K: TArith}
		case "%":
			t = Tok{S: op, K: TMod}
		case "|", "==", "/=", ">", "<", ">=", "<=":
			t = sym(op)
		default:
			t = kw(op)
		}
		out = append(out, t)
		return append(out, r.expr(v.R, rmin)...)
	case *Assign:
		out := r.expr(v.Target, lvMember)
		if r.pol.pick(2, "assign-word") == 1 {
			out = append(out, kw("设为"))
		} else {
			out = append(out, sym("="))
		}
		return append(out, r.expr(v.E, lvAdd)...)
	case *ListLit:
		out := []Tok{r.punct("【")}
		for i, it := range v.Items {
			if i > 0 {
				c := r.punct("，")
				out = append(out, c)
			}
			r.mapCtx++
			out = append(out, r.expr(it, lvOr)...)
			r.mapCtx--
		}
		return append(out, r.punct("】"))
	case *DictLit:
		out := []Tok{r.punct("【")}
		if len(v.Keys) == 0 {
			out = append(out, sym("="))
		}
		for i := range v.Keys {
			if i > 0 {
				out = append(out, r.punct("，"))
			}
			if i < len(v.Bare) && v.Bare[i] {
				// a bare key: an identifier or a number, whose text is the key
				if _, err := strconv.ParseFloat(v.Keys[i], 64); err == nil {
					out = append(out, Tok{S: v.Keys[i], K: TNum}, sym("="))
				} else {
					out = append(out, r.nameTok(v.Keys[i]), sym("="))
				}
			} else {
				out = append(out, Tok{S: quoteStr(v.Keys[i]), K: TStr}, sym("="))
			}
			// inside 【】 the = sign separates key and value: an assignment value must be braced
			r.mapCtx++
			out = append(out, r.expr(v.Vals[i], lvOr)...)
			r.mapCtx--
		}
		return append(out, r.punct("】"))
	case *Index:
		out := r.expr(v.Root, lvMember)
		out = append(out, sym("#"))
		switch ix := v.Idx.(type) {
		case *Num:
			if ix.Val >= 0 || ix.Lit != "" {
				return append(out, r.expr(ix, lvBasic)...)
			}
		case *Str:
			return append(out, r.expr(ix, lvBasic)...)
		}
		saved := r.mapCtx
		r.mapCtx = 0
		out = append(out, r.punct("{"))
		out = append(out, r.expr(v.Idx, 0)...)
		r.mapCtx = saved
		return append(out, r.punct("}"))
	case *Member:
		out := r.expr(v.Root, lvMember)
		if r.pol.pick(2, "member-de") == 1 {
			out = append(out, kw("的"))
		} else {
			out = append(out, kw("之"))
		}
		return append(out, r.nameTok(v.Name))
	case *This:
		return []Tok{kw("其"), r.nameTok(v.Name)}
	case *Call:
		out := r.callToks(v)
		if v.Yield != "" {
			out = append(out, kw("得到"), r.nameTok(v.Yield))
		}
		return out
	case *New:
		out := []Tok{r.punct("（"), kw("新建"), r.nameTok(v.Class)}
		if len(v.Args) > 0 {
			out = append(out, r.punct("："))
			for i, a := range v.Args {
				if i > 0 {
					out = append(out, r.punct("、"))
				}
				out = append(out, r.argExpr(a)...)
			}
		}
		return append(out, r.punct("）"))
	case *MCall:
		// reached only at min == 0 (statement position or inside braces)
		out := []Tok{kw("以")}
		out = append(out, r.expr(v.Root, lvOr)...)
		for i := range v.Chain {
			if i > 0 {
				out = append(out, r.punct("、"))
			}
			out = append(out, r.callToks(&v.Chain[i])...)
		}
		if v.Yield != "" {
			out = append(out, kw("得到"), r.nameTok(v.Yield))
		}
		return out
	}
	panic(fmt.Sprintf("render: unknown expression %T", e))
}

// braceAssign - inside 【】 the = sign separates key and value, so an assignment there is braced
func braceAssign(e Expr) Expr {
	if _, ok := e.(*Assign); ok {
		return &Grp{E: e}
	}
	return e
}

// argExpr - an argument / list item position: a 以-call must be braced there
func (r *renderer) argExpr(a Expr) []Tok {
	saved := r.mapCtx
	r.mapCtx = 0
	out := r.expr(a, lvOr)
	r.mapCtx = saved
	return out
}

func (r *renderer) callToks(c *Call) []Tok {
	out := []Tok{r.punct("（"), r.nameTok(c.Name)}
	if len(c.Args) > 0 {
		out = append(out, r.punct("："))
		for i, a := range c.Args {
			if i > 0 {
				out = append(out, r.punct("、"))
			}
			out = append(out, r.argExpr(a)...)
		}
	}
	return append(out, r.punct("）"))
}

// ---------------------------------------------------------------------------------------
// statements

func (r *renderer) add(indent int, s Stmt, toks ...Tok) {
	r.lines = append(r.lines, Line{Indent: indent, Toks: toks, Stmt: s})
}

func (r *renderer) nameList(names []string) []Tok {
	var out []Tok
	for i, n := range names {
		if i > 0 {
			out = append(out, r.punct("、"))
		}
		out = append(out, r.nameTok(n))
	}
	return out
}

func (r *renderer) block(indent int, body []Stmt) {
	for _, s := range body {
		r.stmt(indent, s)
	}
}

func (r *renderer) catches(indent int, cs []Catch) {
	for i := range cs {
		r.add(indent, nil, kw("拦截"), r.nameTok(cs[i].Class), r.punct("："))
		r.block(indent+1, cs[i].Body)
	}
}

func (r *renderer) funcBody(indent int, params []string, body []Stmt, cs []Catch) {
	if len(params) > 0 {
		r.add(indent, nil, append([]Tok{kw("输入")}, r.nameList(params)...)...)
	}
	r.block(indent, body)
	r.catches(indent, cs)
}

func (r *renderer) stmt(indent int, s Stmt) {
	switch v := s.(type) {
	case *Let:
		toks := append([]Tok{kw("令")}, r.nameList(v.Names)...)
		switch {
		case v.Const:
			toks = append(toks, kw("恒为"))
		case r.pol.pick(2, "let-word") == 1:
			toks = append(toks, kw("设为"))
		default:
			toks = append(toks, sym("="))
		}
		toks = append(toks, r.expr(v.E, 0)...)
		r.add(indent, s, toks...)
	case *ExprStmt:
		r.add(indent, s, r.expr(v.E, 0)...)
	case *If:
		for i := range v.Conds {
			head := kw("如果")
			if i > 0 {
				head = kw("再如")
			}
			toks := append([]Tok{head}, r.expr(v.Conds[i], 0)...)
			toks = append(toks, r.punct("："))
			if i == 0 {
				r.add(indent, s, toks...)
			} else {
				r.add(indent, &v.Conds[i], toks...) // (line of the i-th 再如: keyed by its condition slot)
			}
			r.block(indent+1, v.Blocks[i])
		}
		if v.Else != nil {
			r.add(indent, nil, kw("否则"), r.punct("："))
			r.block(indent+1, v.Else)
		}
	case *While:
		toks := append([]Tok{kw("每当")}, r.expr(v.Cond, 0)...)
		r.add(indent, s, append(toks, r.punct("："))...)
		r.block(indent+1, v.Body)
	case *ForEach:
		var toks []Tok
		if len(v.Names) > 0 {
			toks = append([]Tok{kw("以")}, r.nameList(v.Names)...)
		}
		toks = append(toks, kw("遍历"))
		toks = append(toks, r.expr(v.E, 0)...)
		r.add(indent, s, append(toks, r.punct("："))...)
		r.block(indent+1, v.Body)
	case *Break:
		r.add(indent, s, kw("结束循环"))
	case *Continue:
		r.add(indent, s, kw("继续循环"))
	case *Return:
		r.add(indent, s, append([]Tok{kw("输出")}, r.expr(v.E, 0)...)...)
	case *Throw:
		toks := []Tok{kw("抛出"), r.nameTok(v.Class), r.punct("：")}
		for i, a := range v.Args {
			if i > 0 {
				toks = append(toks, r.punct("、"))
			}
			toks = append(toks, r.argExpr(a)...)
		}
		r.add(indent, s, append(toks, r.punct("！"))...)
	case *FuncDef:
		r.add(indent, s, kw("如何"), r.nameTok(v.Name), r.punct("？"))
		r.funcBody(indent+1, v.Params, v.Body, v.Catches)
	case *CtorDef:
		r.add(indent, s, kw("如何"), kw("新建"), r.nameTok(v.Class), r.punct("？"))
		r.funcBody(indent+1, v.Params, v.Body, v.Catches)
	case *ClassDef:
		r.add(indent, s, kw("定义"), r.nameTok(v.Name), r.punct("："))
		for i := range v.Props {
			toks := []Tok{kw("其"), r.nameTok(v.Props[i].Name)}
			if r.pol.pick(2, "prop-word") == 1 {
				toks = append(toks, kw("设为"))
			} else {
				toks = append(toks, sym("="))
			}
			r.add(indent+1, &v.Props[i], append(toks, r.expr(v.Props[i].Init, 0)...)...)
		}
		for i := range v.Methods {
			m := &v.Methods[i]
			r.add(indent+1, m, kw("如何"), r.nameTok(m.Name), r.punct("？"))
			r.funcBody(indent+2, m.Params, m.Body, m.Catches)
		}
		for i := range v.Getters {
			m := &v.Getters[i]
			r.add(indent+1, nil, kw("何为"), r.nameTok(m.Name), r.punct("？"))
			r.funcBody(indent+2, m.Params, m.Body, m.Catches)
		}
	case *LetBlock:
		r.add(indent, s, kw("令"), r.punct("："))
		for _, pr := range v.Pairs {
			toks := r.nameList(pr.Names)
			switch {
			case pr.Const:
				toks = append(toks, kw("恒为"))
			case r.pol.pick(2, "let-word") == 1:
				toks = append(toks, kw("设为"))
			default:
				toks = append(toks, sym("="))
			}
			r.add(indent+1, nil, append(toks, r.expr(pr.E, 0)...)...)
		}
	case *Comment:
		r.lines = append(r.lines, Line{Indent: indent, IsRaw: true, Raw: "注：" + v.Text, Stmt: s})
	default:
		panic(fmt.Sprintf("render: unknown statement %T", s))
	}
}

// Lines - logical lines of a program
func Lines(p *Program, pol *Policy) []Line {
	r := &renderer{pol: pol}
	for i := range p.Imports {
		im := p.Imports[i]
		var toks []Tok
		if im.Lib {
			toks = []Tok{kw("导入"), {S: "《" + im.Name + "》", K: TStr}}
		} else {
			toks = []Tok{kw("导入"), {S: "“" + im.Name + "”", K: TStr}}
		}
		if len(im.Items) > 0 {
			toks = append(toks, kw("之"))
			toks = append(toks, r.nameList(im.Items)...)
		}
		r.add(0, &p.Imports[i], toks...) // the line map is keyed by the address of the import
	}
	r.funcBody(0, p.Inputs, p.Body, p.Catches)
	return r.lines
}

// needSpace - is white space required between two adjacent tokens
func needSpace(a, b Tok) bool {
	word := func(t Tok) bool { return t.K == TID || t.K == TNum }
	if a.K == TArith || b.K == TArith {
		return true
	}
	if b.K == TMod && word(a) {
		return true // A%B would be one identifier
	}
	if a.K == TMod && word(b) {
		return false
	}
	if word(a) && word(b) {
		return true
	}
	return false
}

// LineMap - physical line index (0-based) of each statement
type LineMap map[Stmt]int

// Layout - join logical lines into source text
func Layout(lines []Line, pol *Policy) (string, LineMap) {
	eol := "\n"
	unit := "    "
	if pol != nil {
		if pol.EOL != "" {
			eol = pol.EOL
		}
		if pol.Tab {
			unit = "\t"
		}
	}
	lm := LineMap{}
	var b strings.Builder
	phys := 0
	joined := false // this line continues the physical line of the one before it, after a ；
	simple := func(l Line) bool {
		if l.IsRaw || len(l.Toks) == 0 {
			return false
		}
		if last := l.Toks[len(l.Toks)-1].S; last == "：" || last == "？" {
			return false
		}
		switch l.Stmt.(type) {
		case *Let, *ExprStmt, *Import, *Break, *Continue:
			return true
		}
		return false
	}
	for li, ln := range lines {
		if joined {
			joined = false
			if ln.Stmt != nil {
				lm[ln.Stmt] = phys
			}
			goto body
		}
		{
			ind := strings.Repeat(unit, ln.Indent)
			// optional blank lines / comment lines before this line (a comment line may carry any
			// valid indentation: comments are not statements)
			cind := ind
			if k := pol.pick(ln.Indent+3, "comment-indent"); k > 0 {
				cind = strings.Repeat(unit, k-1)
			}
			switch pol.pick(10, "pre-line") {
			case 8, 9:
				// a longer run of lines that hold no token (2..17 of them): blank lines, comment
				// lines, the lines of one block comment
				k := 2 + pol.pick(16, "pre-line")
				if pol.pick(3, "pre-line") == 1 && li > 0 {
					b.WriteString(cind + "/* 注释" + eol)
					for j := 0; j < k-2; j++ {
						b.WriteString("   行" + eol)
					}
					b.WriteString("*/" + eol)
				} else {
					for j := 0; j < k; j++ {
						b.WriteString([]string{"", cind + "// 行", cind + "注：行", ""}[pol.pick(4, "pre-line")] + eol)
					}
				}
				phys += k
			case 6:
				// comments without any text
				b.WriteString(cind + "注：" + eol)
				phys++
			case 7:
				b.WriteString(cind + []string{"//", "注7：", "/**/", "注：“”"}[pol.pick(4, "pre-line")] + eol)
				phys++
			case 1:
				// a blank line - which may hold white space of any kind and amount
				b.WriteString([]string{"", "  ", "\t", " \t ", "       ", "\u3000"}[pol.pick(6, "blank-spaces")])
				b.WriteString(eol)
				phys++
			case 2:
				b.WriteString(cind + "注：说明" + eol)
				phys++
			case 3:
				b.WriteString(cind + "// note" + eol)
				phys++
			case 4:
				if li > 0 {
					b.WriteString(cind + "/* 多行" + eol + "   注释 */" + eol)
					phys += 2
				}
			case 5:
				b.WriteString(cind + "注12：「说明" + eol + "文字」" + eol)
				phys += 2
			}
			if ln.Stmt != nil {
				lm[ln.Stmt] = phys
			}
			b.WriteString(ind)
		}
	body:
		// a bounded comment may stand before the first token of a statement, on its line
		if !ln.IsRaw && len(ln.Toks) > 0 {
			switch pol.pick(10, "lead-comment") {
			case 1:
				b.WriteString("/* 说明 */ ")
			case 2:
				b.WriteString("注：「说明」 ")
			case 3:
				b.WriteString("/**/")
			case 4:
				b.WriteString("注7：“说明”")
			}
		}
		// statements are separated by line breaks or by ；: two simple statements of the same
		// block may share a line
		// (not after a line break inside this statement: whether what follows a ； on a
		// continuation line is indented like that line or like the statement is not stated)
		joinNext := li+1 < len(lines) && simple(ln) && simple(lines[li+1]) && lines[li+1].Indent == ln.Indent && pol.pick(5, "stmt-sep") == 1
		brokeInLine := false
		if ln.IsRaw {
			b.WriteString(ln.Raw)
		} else {
			depth := 0
			// a line that opens a block: the block's indentation is taken relative to the line
			// on which the header ENDS, so continuation lines of a header keep its indentation
			// (whether they may be indented differently is not stated anywhere)
			isHeader := len(ln.Toks) > 0 && (ln.Toks[len(ln.Toks)-1].S == "：" || ln.Toks[len(ln.Toks)-1].S == "？")
			for i, t := range ln.Toks {
				if i > 0 {
					prev := ln.Toks[i-1]
					broke := false
					// line break inside brackets / after separators
					if depth > 0 && (prev.BreakAfter || t.BreakBefore) && pol.pick(4, "inner-break") == 1 {
						extra := 0
						if !isHeader {
							extra = pol.pick(3, "cont-indent")
						}
						b.WriteString(eol)
						phys++
						// blank or comment-only lines may stand between the lines of one
						// bracketed construct (also right before its closing bracket)
						switch pol.pick(6, "inner-blank") {
						case 1:
							b.WriteString(eol)
							phys++
						case 2:
							b.WriteString(strings.Repeat(unit, ln.Indent+extra) + "// 括号内注释" + eol)
							phys++
						case 3:
							b.WriteString(strings.Repeat(unit, ln.Indent+extra) + "注：括号内说明" + eol + eol)
							phys += 2
						}
						b.WriteString(strings.Repeat(unit, ln.Indent+extra))
						broke = true
						brokeInLine = true
					}
					if !broke && commaAllowed(prev, t) && pol.pick(12, "optional-comma") == 1 {
						b.WriteString("，")
						prev = Tok{S: "，", K: TSym}
					}
					// ... and between any two tokens of a line
					if !broke {
						switch pol.pick(24, "mid-comment") {
						case 1:
							b.WriteString(" /* 间 */")
						case 2:
							b.WriteString(" 注：「间」")
						case 3:
							b.WriteString(" /**/")
						}
					}
					if !broke {
						if needSpace(prev, t) {
							b.WriteString(" ")
							if pol.pick(4, "extra-space") == 1 {
								b.WriteString(" ")
							}
						} else if pol.pick(4, "opt-space") == 1 {
							b.WriteString(" ")
						}
					}
				}
				s := t.S
				if t.Twin != "" && pol.pick(3, "ascii-twin") == 1 {
					s = t.Twin
				}
				if t.RawBreaks != "" && pol.pick(2, "raw-linebreak") == 1 {
					s = t.RawBreaks
				}
				if t.K == TID && pol.pick(8, "backtick-id") == 1 && backtickable(t.S) {
					s = "`" + t.S + "`"
				}
				b.WriteString(s)
				if t.K == TStr {
					phys += countLineBreaks(s)
				}
				switch t.S {
				case "（", "【", "{":
					depth++
				case "）", "】", "}":
					depth--
				}
			}
			if joinNext && !brokeInLine {
				b.WriteString([]string{"；", " ； ", "；；", "； ", ";", " ; ", ";；"}[pol.pick(7, "stmt-sep")])
				joined = true
				continue
			}
			// trailing comment
			switch pol.pick(8, "trail-comment") {
			case 1:
				b.WriteString("  // 行尾")
			case 2:
				b.WriteString(" 注：行尾说明")
			case 3:
				b.WriteString(" 注：")
			case 4:
				b.WriteString(" //")
			}
		}
		// white space at the end of a line (after a statement or after its trailing comment)
		b.WriteString([]string{"", "", "", " ", "   ", "\t", " \t"}[pol.pick(7, "trail-space")])
		if li < len(lines)-1 || pol.pick(2, "final-eol") == 1 {
			b.WriteString(eol)
		}
		phys++
	}
	return b.String(), lm
}

// commaAllowed - an optional pause comma may be written between two tokens of a line (manual
// ch.3: spaces and commas only mark separation), but never next to another comma
func commaAllowed(prev, t Tok) bool {
	isComma := func(x Tok) bool { return x.S == "，" || x.S == "," }
	return !isComma(prev) && !isComma(t)
}

// countLineBreaks - physical line breaks inside a token (CR, LF, CRLF and LFCR each count once)
func countLineBreaks(s string) int {
	n := 0
	rs := []rune(s)
	for i := 0; i < len(rs); i++ {
		if rs[i] == '\r' || rs[i] == '\n' {
			n++
			if i+1 < len(rs) && (rs[i+1] == '\r' || rs[i+1] == '\n') && rs[i+1] != rs[i] {
				i++
			}
		}
	}
	return n
}

func backtickable(s string) bool {
	switch s {
	case "真", "假", "空":
		return true
	}
	for _, c := range s {
		if c == '+' || c == '-' || c == '*' || c == '/' || c == '.' || c == '%' {
			continue
		}
	}
	return true
}

// Render - canonical (or policy-driven) source text of a program
func Render(p *Program, pol *Policy) (string, LineMap) {
	return Layout(Lines(p, pol), pol)
}

// RenderExpr - source text of a single expression
func RenderExpr(e Expr) string {
	r := &renderer{}
	toks := r.expr(e, 0)
	src, _ := Layout([]Line{{Toks: toks}}, nil)
	return src
}
