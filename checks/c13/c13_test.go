// C13 - every text value round-trips through a string literal
package c13

import (
	"encoding/json"
	"fmt"
	"regexp"
	"strconv"
	"strings"
	"testing"
	"unicode/utf8"

	zerr "github.com/DemoHn/Zn/pkg/error"
	"github.com/DemoHn/Zn/pkg/syntax"
	"github.com/DemoHn/Zn/pkg/syntax/zh"
	"pgregory.net/rapid"

	h "verif/harness"
)

func TestMain(m *testing.M) { h.Main(m, "C13", replay) }

type rtCase struct {
	Text    string `json:"text"`    // the value
	Literal string `json:"literal"` // its encoding including the outer quotes
	// a second literal (and its value) written as the very next token of the program: a
	// statement that ends in a literal, followed by a statement that begins with one
	After     string `json:"after,omitempty"`
	AfterText string `json:"after_text,omitempty"`
}

type decCase struct {
	Src string `json:"src"` // a literal (opening quote first), possibly unterminated
}

func replay(sub string, raw json.RawMessage) ([]h.Failure, error) {
	switch sub {
	case "roundtrip":
		var c rtCase
		if err := json.Unmarshal(raw, &c); err != nil {
			return nil, err
		}
		return checkRoundTrip(c), nil
	case "decoder":
		var c decCase
		if err := json.Unmarshal(raw, &c); err != nil {
			return nil, err
		}
		f, _ := checkDecoder(c.Src)
		return f, nil
	}
	return nil, fmt.Errorf("unknown sub-check %q", sub)
}

var closers = map[rune]rune{'“': '”', '「': '」', '‘': '’', '『': '』', '《': '》'}
var allQuotes = "“”「」‘’『』《》"

func isQuote(c rune) bool { return strings.ContainsRune(allQuotes, c) }

var named = map[string]string{"CR": "\r", "LF": "\n", "CRLF": "\r\n", "TAB": "\t", "SP": " ", "BK": "`"}
var uplusRe = regexp.MustCompile(`^U\+[0-9A-F]{1,8}$`)

// refDecode - the documented reading of a literal that starts at rs[0] (an opening quote).
// Returns the value, the index after the closing quote, whether a syntax error is expected
// (unterminated), or a reason when the statement does not determine the reading.
func refDecode(rs []rune) (val string, end int, wantErr bool, unspec string) {
	open := rs[0]
	closeq := closers[open]
	depth := 1
	var b strings.Builder
	i := 1
	for i < len(rs) {
		c := rs[i]
		switch {
		case c == '`':
			j := -1
			for k := i + 1; k < len(rs); k++ {
				if rs[k] == '`' {
					j = k
					break
				}
			}
			if j < 0 {
				b.WriteRune('`')
				i++
				continue
			}
			body := string(rs[i+1 : j])
			if rep, ok := named[body]; ok {
				b.WriteString(rep)
				i = j + 1
				continue
			}
			if uplusRe.MatchString(body) {
				// only a valid code point denotes a character; any other number is "other
				// backtick text" and kept literally, like lower-case or over-long digits
				n, err := strconv.ParseUint(body[2:], 16, 64)
				if err == nil && n <= 0x10FFFF && !(n >= 0xD800 && n <= 0xDFFF) {
					b.WriteRune(rune(n))
					i = j + 1
					continue
				}
			}
			if br := []rune(body); len(br) == 1 && isQuote(br[0]) {
				b.WriteRune(br[0])
				i = j + 1
				continue
			}
			// any other back-tick text is kept literally; which back-ticks pair up afterwards
			// is not stated
			for _, x := range body {
				if isQuote(x) {
					return "", 0, false, "failed escape whose text contains a quote"
				}
			}
			for k := j + 1; k < len(rs); k++ {
				if rs[k] == '`' {
					return "", 0, false, "failed escape followed by further back-ticks"
				}
			}
			b.WriteRune('`')
			i++
		case c == open:
			depth++
			b.WriteRune(c)
			i++
		case c == closeq:
			depth--
			if depth == 0 {
				return b.String(), i + 1, false, ""
			}
			b.WriteRune(c)
			i++
		default:
			b.WriteRune(c)
			i++
		}
	}
	return "", 0, true, ""
}

func firstToken(src string) (tk syntax.Token, err error, pm string) {
	kind, msg, _ := h.Guard(func() {
		l := syntax.NewLexer([]rune(src))
		syntax.VerifTicks, syntax.VerifTickBudget = 0, int64(16*len([]rune(src))+256)
		tk, err = zh.NextToken(l)
		syntax.VerifTickBudget = 0
	})
	if kind != "" {
		pm = kind + ": " + msg
	}
	return
}

func checkDecoder(src string) ([]h.Failure, string) {
	rs := []rune(src)
	want, end, wantErr, unspec := refDecode(rs)
	if unspec != "" {
		return nil, unspec
	}
	tk, err, pm := firstToken(src)
	if pm != "" {
		return []h.Failure{{Sig: "decoder/lexer-panic", Msg: fmt.Sprintf("%q: %s", src, pm)}}, ""
	}
	if wantErr {
		if err == nil {
			return []h.Failure{{Sig: "decoder/unterminated-accepted", Msg: fmt.Sprintf("%q is unterminated but yields the literal %q", src, string(tk.Literal))}}, ""
		}
		if se, ok := err.(*zerr.SyntaxError); !ok || se.Code != zerr.ErrIncomleteString {
			return []h.Failure{{Sig: "decoder/unterminated-wrong-error", Msg: fmt.Sprintf("%q: expected the incomplete-string syntax error, got %v", src, err)}}, ""
		}
		return nil, ""
	}
	if err != nil {
		return []h.Failure{{Sig: "decoder/terminated-rejected", Msg: fmt.Sprintf("%q closes at index %d with value %q, but the lexer reports %v", src, end, want, err)}}, ""
	}
	if string(tk.Literal) != want || tk.EndIdx != end {
		return []h.Failure{{Sig: "decoder/wrong-value", Msg: fmt.Sprintf("%q: documented value %q ending at %d; lexer gives %q ending at %d", src, want, end, string(tk.Literal), tk.EndIdx)}}, ""
	}
	return nil, ""
}

var critical = []rune{'“', '”', '「', '」', '‘', '’', '『', '』', '《', '》', '`', '\r', '\n', 'C', 'R', 'L', 'F', 'T', 'A', 'B', 'S', 'P', 'K', 'U', '+', '0', '1'}

func TestDecoderExhaustive(t *testing.T) {
	maxLen := h.Scale(4, 5)
	shard, nsh := h.Shard(), h.NShards()
	k := len(critical)
	var total, nontriv, skipped int64
	buf := make([]rune, 0, maxLen+2)
	for _, open := range []rune{'“', '‘', '《'} {
		for L := 0; L <= maxLen; L++ {
			n := 1
			for i := 0; i < L; i++ {
				n *= k
			}
			for idx := shard; idx < n; idx += nsh {
				buf = buf[:0]
				buf = append(buf, open)
				x := idx
				nt := false
				for i := 0; i < L; i++ {
					c := critical[x%k]
					x /= k
					buf = append(buf, c)
					if c == '`' || c == '\r' || c == '\n' || c == open || c == closers[open] {
						nt = true
					}
				}
				buf = append(buf, closers[open])
				src := string(buf)
				total++
				fails, unspec := checkDecoder(src)
				if unspec != "" {
					skipped++
					continue
				}
				if nt {
					nontriv++
				}
				if len(fails) > 0 || (nt && idx%150001 == 0) {
					h.R.Case(t, "decoder", src, decCase{src}, []string{"exhaustive-sampled"}, nt, fails)
				}
			}
		}
	}
	h.R.AddEvals(total - skipped)
	h.R.AddDistinct(nontriv)
	h.R.Count("decoder-exhaustive-strings", total)
	h.R.Count("decoder-skipped-unspecified", skipped)
	h.R.Exhaustive("decoder", fmt.Sprintf("all strings up to length %d over %d critical symbols between the three opening styles (shard %d/%d)", maxLen, k, shard, nsh))
}

// TestEscapeBodiesExhaustive - every backtick text over the alphabet of the escape names
// (near misses of CR LF CRLF TAB SP BK U+hex included) up to a bounded length, placed in
// the middle of a literal: a real name decodes to its character, anything else stays verbatim
func TestEscapeBodiesExhaustive(t *testing.T) {
	alphabet := []rune("CRLFTABSPKU+09e")
	maxLen := h.Scale(5, 6)
	shard, nsh := h.Shard(), h.NShards()
	k := len(alphabet)
	var total, skipped, named int64
	for L := 0; L <= maxLen; L++ {
		n := 1
		for i := 0; i < L; i++ {
			n *= k
		}
		for idx := shard; idx < n; idx += nsh {
			body := make([]rune, 0, L)
			x := idx
			for i := 0; i < L; i++ {
				body = append(body, alphabet[x%k])
				x /= k
			}
			open := []rune{'“', '‘', '《'}[idx%3]
			src := string(open) + "a`" + string(body) + "`b" + string(closers[open])
			total++
			fails, unspec := checkDecoder(src)
			if unspec != "" {
				skipped++
				continue
			}
			tk, err, _ := firstToken(src)
			isName := err == nil && len(tk.Literal) < L+4
			if isName {
				named++
			}
			if len(fails) > 0 || isName || idx%200003 == 0 {
				labels := []string{"escape-body"}
				if isName {
					labels = append(labels, "decodes-to-a-character")
				}
				h.R.Case(t, "decoder", src, decCase{src}, labels, true, fails)
			}
		}
	}
	h.R.AddEvals(total - skipped)
	h.R.AddDistinct(total - skipped)
	h.R.Count("escape-body-strings", total)
	h.R.Count("escape-bodies-that-decode", named)
	h.R.Exhaustive("escape-body", fmt.Sprintf("all backtick texts up to length %d over the %d symbols of the escape names (shard %d/%d)", maxLen, k, shard, nsh))
}

// ---------------------------------------------------------------------------------------
// (a) round trip

func genText() *rapid.Generator[string] {
	biased := []rune("“”「」‘’『』《》``\r\n\r\n CRLFTABSPKU+0123456789ABCDEFabc，。：（）{}【】甲乙丙😊𝒳é\t \x00\x7f")
	return rapid.Custom(func(t *rapid.T) string {
		n := rapid.IntRange(0, 60).Draw(t, "len")
		if rapid.IntRange(0, 40).Draw(t, "long") == 0 {
			n = rapid.IntRange(200, 5000).Draw(t, "longlen")
		}
		var b strings.Builder
		for i := 0; i < n; i++ {
			if rapid.IntRange(0, 3).Draw(t, "k") > 0 {
				b.WriteRune(rapid.SampledFrom(biased).Draw(t, "b"))
			} else {
				r := rapid.Rune().Draw(t, "r")
				if !utf8.ValidRune(r) {
					r = 'x'
				}
				b.WriteRune(r)
			}
		}
		return b.String()
	})
}

func balanced(text string, open rune) bool {
	depth := 0
	cl := closers[open]
	for _, c := range text {
		if c == open {
			depth++
		} else if c == cl {
			depth--
			if depth < 0 {
				return false
			}
		}
	}
	return depth == 0
}

func encode(t *rapid.T, text string, open rune) (string, []string) {
	var labels []string
	cl := closers[open]
	bare := balanced(text, open) && rapid.Bool().Draw(t, "bare-own")
	if bare && strings.ContainsRune(text, open) {
		labels = append(labels, "nested-balanced-bare")
	}
	rs := []rune(text)
	var b strings.Builder
	b.WriteRune(open)
	for i := 0; i < len(rs); i++ {
		c := rs[i]
		switch {
		case c == 0 && rapid.Bool().Draw(t, "nul-escaped"):
			b.WriteString("`U+0`")
		case c == '`':
			b.WriteString("`BK`")
		case c == open || c == cl:
			if bare {
				b.WriteRune(c)
			} else {
				b.WriteString("`" + string(c) + "`")
			}
		case isQuote(c):
			if rapid.Bool().Draw(t, "wrap-other") {
				b.WriteString("`" + string(c) + "`")
			} else {
				b.WriteRune(c)
			}
		case c == '\r' || c == '\n':
			switch rapid.IntRange(0, 2).Draw(t, "eol") {
			case 0:
				b.WriteRune(c)
			case 1:
				if c == '\r' && i+1 < len(rs) && rs[i+1] == '\n' {
					b.WriteString("`CRLF`")
					i++
				} else if c == '\r' {
					b.WriteString("`CR`")
				} else {
					b.WriteString("`LF`")
				}
			default:
				b.WriteString(uplus(t, c))
			}
		case c == '\t' && rapid.Bool().Draw(t, "tab"):
			b.WriteString("`TAB`")
		case c == ' ' && rapid.IntRange(0, 5).Draw(t, "sp") == 0:
			b.WriteString("`SP`")
		default:
			if rapid.IntRange(0, 12).Draw(t, "uplus") == 0 {
				b.WriteString(uplus(t, c))
			} else {
				b.WriteRune(c)
			}
		}
	}
	b.WriteRune(cl)
	return b.String(), labels
}

// uplus - the `U+hex` escape of c, zero-padded to any of the documented widths (1..8 digits)
func uplus(t *rapid.T, c rune) string {
	w := rapid.IntRange(1, 8).Draw(t, "hexwidth")
	return fmt.Sprintf("`U+%0*X`", w, c)
}

func checkRoundTrip(c rtCase) []h.Failure {
	tk, err, pm := firstToken(c.Literal)
	if pm != "" {
		return []h.Failure{{Sig: "roundtrip/lexer-panic", Msg: fmt.Sprintf("literal %q: %s", c.Literal, pm)}}
	}
	if err != nil {
		return []h.Failure{{Sig: "roundtrip/literal-rejected", Msg: fmt.Sprintf("text %q written as %q is rejected: %v", c.Text, c.Literal, err)}}
	}
	if string(tk.Literal) != c.Text || tk.EndIdx != len([]rune(c.Literal)) {
		return []h.Failure{{Sig: "roundtrip/token-differs", Msg: fmt.Sprintf("text %q written as %q reads back as %q (token ends at %d of %d)", c.Text, c.Literal, string(tk.Literal), tk.EndIdx, len([]rune(c.Literal)))}}
	}
	first := []rune(c.Literal)[0]
	if first == '“' || first == '「' {
		o := h.Run("输出"+c.Literal, h.Opts{})
		if o.Kind != h.KValue || o.ValType != "string" || o.ValText != c.Text {
			return []h.Failure{{Sig: "roundtrip/value-differs", Msg: fmt.Sprintf("program 输出%s: expected the text %q, got %s", c.Literal, c.Text, o.Short())}}
		}
		if c.After != "" {
			// every literal of a program is its own value, also when the next token is
			// another literal
			src := "令甲 = " + c.Literal + "\n" + c.After + "\n令乙 = " + c.After + "\n" + c.Literal + "\n输出【甲，乙】"
			o := h.Run(src, h.Opts{})
			want := "[" + c.Text + "，" + c.AfterText + "]"
			if o.Kind != h.KValue || o.ValText != want {
				return []h.Failure{{Sig: "roundtrip/adjacent-literals-differ", Msg: fmt.Sprintf("program\n%s\nexpected the list of %q and %q, got %s", src, c.Text, c.AfterText, o.Short())}}
			}
		}
	}
	return nil
}

// TestEveryCodePointValue - every Unicode scalar value, alone between the quotes and written as
// `U+hex`, is the VALUE of the program 输出“…” (token, tree node and run-time text all involved)
func TestEveryCodePointValue(t *testing.T) {
	shard, nsh := h.Shard(), h.NShards()
	stride := h.Scale(61, 1)
	var total, nontriv int64
	for cp := rune(shard); cp <= 0x10FFFF; cp += rune(nsh) {
		if cp >= 0xD800 && cp <= 0xDFFF {
			// not a character: the escape is "other backtick text" and stays as written
			if cp&0xFF < 4 || cp&0xFF > 0xFC || stride == 1 {
				esc := fmt.Sprintf("`U+%X`", cp)
				total++
				nontriv++
				c := rtCase{Text: "a" + esc, Literal: "“a" + esc + "”"}
				if fails := checkRoundTrip(c); len(fails) > 0 || cp == 0xD800 {
					h.R.Case(t, "roundtrip", c.Literal, c, []string{"escape-of-invalid-code-point"}, true, fails)
				}
			}
			continue
		}
		if cp >= 0x3100 && stride > 1 && (int(cp)/nsh)%stride != 0 && cp&0xFFFF > 2 && cp&0xFFFF < 0xFFFD {
			continue
		}
		text := string(cp)
		forms := []string{fmt.Sprintf("“`U+%X`”", cp), fmt.Sprintf("「x`U+%04X`」", cp)}
		texts := []string{text, "x" + text}
		if !isQuote(cp) && cp != '`' && cp != '\r' && cp != '\n' {
			forms = append(forms, "“"+text+"”", "「"+text+"é」")
			texts = append(texts, text, text+"é")
		}
		for i, lit := range forms {
			total++
			c := rtCase{Text: texts[i], Literal: lit}
			fails := checkRoundTrip(c)
			nt := cp < 0x20 || cp >= 0x7F
			if nt {
				nontriv++
			}
			if len(fails) > 0 || int(cp)%65521 == 80 {
				h.R.Case(t, "roundtrip", lit, c, []string{"every-code-point"}, nt, fails)
			}
		}
	}
	if shard == 0 {
		for _, n := range []uint64{0x110000, 0x110001, 0x1FFFFF, 0xFFFFFF, 0x7FFFFFFF, 0x80000000, 0xFFFFFFFF} {
			esc := fmt.Sprintf("`U+%X`", n)
			total++
			nontriv++
			c := rtCase{Text: esc + "b", Literal: "「" + esc + "b」"}
			h.R.Case(t, "roundtrip", c.Literal, c, []string{"escape-of-invalid-code-point"}, true, checkRoundTrip(c))
		}
	}
	h.R.AddEvals(total)
	h.R.AddDistinct(nontriv)
	h.R.Count("code-point-literals", total)
	what := "every Unicode scalar value"
	if stride > 1 {
		what = fmt.Sprintf("every Unicode scalar value below U+3100, the first and last three of every plane, and every %dth of the rest", stride)
	}
	h.R.Exhaustive("roundtrip", what+", raw between the quotes (alone and beside another character) and as `U+hex` (shard "+fmt.Sprintf("%d/%d", shard, nsh)+")")
}

func TestRoundTrip(t *testing.T) {
	rapid.Check(t, func(t *rapid.T) {
		text := genText().Draw(t, "text")
		open := rapid.SampledFrom([]rune{'“', '「', '“', '「', '‘', '『', '《'}).Draw(t, "open")
		lit, labels := encode(t, text, open)
		c := rtCase{Text: text, Literal: lit}
		if (open == '“' || open == '「') && rapid.Bool().Draw(t, "adjacent") {
			c.AfterText = genText().Draw(t, "after-text")
			c.After, _ = encode(t, c.AfterText, rapid.SampledFrom([]rune{'“', '「'}).Draw(t, "after-open"))
			labels = append(labels, "adjacent-literal-statements")
		}
		nt := !balanced(text, open) || strings.ContainsAny(text, "\r\n")
		rs := []rune(text)
		for i := 0; i+1 < len(rs); i++ {
			if (rs[i] == '`' && isQuote(rs[i+1])) || (isQuote(rs[i]) && rs[i+1] == '`') {
				nt = true
				labels = append(labels, "backtick-next-to-quote")
				break
			}
		}
		if !balanced(text, open) {
			labels = append(labels, "unbalanced-own-family")
		}
		if strings.ContainsAny(text, "\r\n") {
			labels = append(labels, "line-break")
		}
		if len(rs) >= 200 {
			labels = append(labels, "long-text")
		}
		labels = append(labels, "open-"+string(open))
		h.R.Case(t, "roundtrip", lit, c, labels, nt, checkRoundTrip(c))
	})
}

func TestCorpus(t *testing.T) { h.RunCorpus(t, "c13", replay) }
