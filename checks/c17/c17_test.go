// C17 - source files are decoded losslessly or rejected
package c17

import (
	"bytes"
	"encoding/base64"
	"encoding/json"
	"fmt"
	"os"
	"path/filepath"
	"strings"
	"sync"
	"sync/atomic"
	"syscall"
	"testing"
	"time"
	"unicode/utf8"

	"github.com/DemoHn/Zn/pkg/exec"
	zio "github.com/DemoHn/Zn/pkg/io"
	r "github.com/DemoHn/Zn/pkg/runtime"
	"pgregory.net/rapid"

	h "verif/harness"
)

var tmpDir string

func TestMain(m *testing.M) {
	d, err := os.MkdirTemp("", "verif-c17-*")
	if err != nil {
		panic(err)
	}
	tmpDir = d
	h.AtExit(func() { os.RemoveAll(d) })
	h.Main(m, "C17", replay)
}

type fileCase struct {
	B64    string `json:"bytes_b64"`
	Chunks []int  `json:"chunks,omitempty"` // block sizes for Read(n); empty = ReadAll
	Driver string `json:"driver"`           // file | bytes | chunks | execute
	Note   string `json:"note,omitempty"`
}

func (c fileCase) bytes() []byte {
	b, _ := base64.StdEncoding.DecodeString(c.B64)
	return b
}

func replay(sub string, raw json.RawMessage) ([]h.Failure, error) {
	if sub == "concurrent" {
		// (a schedule cannot be replayed: the rounds are run again)
		for round := 0; round < 300; round++ {
			if fails := concurrentRound(); len(fails) > 0 {
				return fails, nil
			}
		}
		return nil, nil
	}
	if sub == "large" {
		var c largeCase
		if err := json.Unmarshal(raw, &c); err != nil {
			return nil, err
		}
		return checkLarge(c), nil
	}
	var c fileCase
	if err := json.Unmarshal(raw, &c); err != nil {
		return nil, err
	}
	return checkFile(c), nil
}

func mk(b []byte, driver string, chunks []int, note string) fileCase {
	return fileCase{B64: base64.StdEncoding.EncodeToString(b), Driver: driver, Chunks: chunks, Note: note}
}

func writeTemp(b []byte) string {
	p := filepath.Join(tmpDir, fmt.Sprintf("f-%d.zn", os.Getpid()))
	if err := os.WriteFile(p, b, 0o644); err != nil {
		panic(err)
	}
	return p
}

func excerpt(b []byte) string {
	if len(b) <= 48 {
		return fmt.Sprintf("%q", string(b))
	}
	return fmt.Sprintf("%q…%q (%d bytes)", string(b[:24]), string(b[len(b)-24:]), len(b))
}

func checkFile(c fileCase) (fails []h.Failure) {
	b := c.bytes()
	valid := utf8.Valid(b)
	want := []rune(string(b))
	wantNoBOM := want
	if len(want) > 0 && want[0] == 0xFEFF {
		wantNoBOM = want[1:]
	}
	desc := fmt.Sprintf("driver=%s %s input %s", c.Driver, c.Note, excerpt(b))
	kind, msg, site := h.Guard(func() {
		switch c.Driver {
		case "file", "chunks":
			p := writeTemp(b)
			fs, err := zio.NewFileStream(p)
			if err != nil {
				fails = append(fails, h.Failure{Sig: "decode/open-failed", Msg: err.Error()})
				return
			}
			var got []rune
			var rerr error
			if c.Driver == "file" {
				got, rerr = fs.ReadAll()
			} else {
				read := 0
				empties := 0
				for i := 0; empties < 3 && i < len(b)+len(c.Chunks)+8; i++ {
					n := 4096
					if len(c.Chunks) > 0 {
						n = c.Chunks[i%len(c.Chunks)]
					}
					part, err := fs.Read(n)
					if err != nil {
						rerr = err
						break
					}
					read += n
					got = append(got, part...)
					if len(part) == 0 && read >= len(b) {
						empties++
					}
				}
			}
			judge(&fails, desc, valid, wantNoBOM, got, rerr, true)
		case "fifo":
			// the same bytes delivered through a named pipe in several parts (cut at the byte
			// offsets in Chunks, possibly inside a character): a read returns as soon as a part
			// has arrived, i.e. with FEWER bytes than asked for although the source has not ended
			p := filepath.Join(tmpDir, fmt.Sprintf("fifo-%d-%d", os.Getpid(), fifoSeq.Add(1)))
			if err := syscall.Mkfifo(p, 0o600); err != nil {
				fails = append(fails, h.Failure{Sig: "decode/harness-mkfifo", Msg: err.Error()})
				return
			}
			defer os.Remove(p)
			go func() {
				w, err := os.OpenFile(p, os.O_WRONLY, 0)
				if err != nil {
					return
				}
				defer w.Close()
				prev := 0
				for _, cut := range append(append([]int{}, c.Chunks...), len(b)) {
					if cut > len(b) {
						cut = len(b)
					}
					if cut > prev {
						w.Write(b[prev:cut])
						prev = cut
						time.Sleep(3 * time.Millisecond)
					}
				}
			}()
			fs, err := zio.NewFileStream(p)
			if err != nil {
				fails = append(fails, h.Failure{Sig: "decode/open-failed", Msg: err.Error()})
				return
			}
			got, rerr := fs.ReadAll()
			judge(&fails, desc, valid, wantNoBOM, got, rerr, true)
		case "bytes":
			got, rerr := zio.NewByteStream(b).ReadAll()
			if valid && rerr == nil && string(got) == string(want) {
				return // a byte stream may keep a leading BOM
			}
			judge(&fails, desc, valid, wantNoBOM, got, rerr, true)
		case "whole":
			// a valid file whose LAST statement displays 终: whatever odd character stands in it,
			// either the program is rejected or it runs to its end - never a silent prefix of it
			p := writeTemp(b)
			var err error
			out := h.Capture(func() {
				_, err = exec.NewInterpreter("verif").SetExternalLibs(h.Libs()).LoadFile(p).Execute(r.ElementMap{})
			})
			if err != nil {
				return
			}
			lines := strings.Split(strings.TrimSuffix(out, "\n"), "\n")
			if lines[len(lines)-1] != "终" {
				fails = append(fails, h.Failure{Sig: "decode/program-cut-short", Msg: fmt.Sprintf("%s: the file was executed without any error, but its last statement （显示：“终”） never ran; displayed lines: %q (a silently truncated program)", desc, lines)})
			}
		case "execute":
			p := writeTemp(b)
			var val r.Element
			var err error
			h.Capture(func() {
				val, err = exec.NewInterpreter("verif").SetExternalLibs(h.Libs()).LoadFile(p).Execute(r.ElementMap{})
			})
			if valid {
				return // the value of valid programs is the business of other properties
			}
			if err == nil {
				vs := "<nil>"
				if val != nil {
					vs = val.String()
				}
				fails = append(fails, h.Failure{Sig: "decode/invalid-file-executed", Msg: fmt.Sprintf("%s: the file is not valid UTF-8 but was executed and produced %s (a silently truncated or altered program)", desc, vs)})
			}
		}
	})
	if kind != "" {
		fails = append(fails, h.Failure{Sig: "decode/" + kind + "@" + site, Msg: desc + ": " + msg})
	}
	return
}

func judge(fails *[]h.Failure, desc string, valid bool, want, got []rune, rerr error, _ bool) {
	if valid {
		if rerr != nil {
			*fails = append(*fails, h.Failure{Sig: "decode/valid-rejected", Msg: fmt.Sprintf("%s: valid UTF-8 rejected: %v", desc, rerr)})
			return
		}
		if string(got) != string(want) {
			i := 0
			for i < len(got) && i < len(want) && got[i] == want[i] {
				i++
			}
			sig := "decode/lossy"
			if len(got) < len(want) && i == len(got) {
				sig = "decode/truncated"
			}
			*fails = append(*fails, h.Failure{Sig: sig, Msg: fmt.Sprintf("%s: decoded %d characters, expected %d; first difference at character %d", desc, len(got), len(want), i)})
		}
		return
	}
	if rerr == nil {
		*fails = append(*fails, h.Failure{Sig: "decode/invalid-accepted", Msg: fmt.Sprintf("%s: not valid UTF-8, but decoding succeeded with %d characters (silently truncated or altered)", desc, len(got))})
	}
}

// ---------------------------------------------------------------------------------------

var widthChars = map[int]string{1: "a", 2: "é", 3: "你", 4: "😊"}

// every character width straddling every block boundary at every alignment
func TestBoundaries(t *testing.T) {
	maxK := h.Scale(2, 4)
	n := 0
	for k := 1; k <= maxK; k++ {
		for w := 1; w <= 4; w++ {
			for off := -w - 1; off <= 1; off++ {
				p := k*4096 + off
				for _, fill := range []string{"a", "你"} {
					body := strings.Repeat(fill, p/len(fill)) + strings.Repeat("b", p%len(fill))
					for ti, tail := range []string{"尾x", "尾" + strings.Repeat("c", 5000) + "末"} {
						b := []byte(body + widthChars[w] + tail)
						for _, drv := range []string{"file", "bytes"} {
							c := mk(b, drv, nil, fmt.Sprintf("[%d-byte char at offset %d, tail %d]", w, p, ti))
							h.R.Case(t, "boundary", fmt.Sprintf("%d/%d/%d/%s/%s/%d", k, w, off, fill, drv, ti), c, []string{"block-boundary"}, true, checkFile(c))
							n++
						}
					}
				}
			}
		}
	}
	h.R.Exhaustive("boundary", fmt.Sprintf("character widths 1-4 at every alignment around the first %d block boundaries", maxK))
}

var gbkSamples = [][]byte{
	{0xc4, 0xe3, 0xba, 0xc3},                         // 你好
	{0xd6, 0xd0, 0xce, 0xc4, 0xb1, 0xe0, 0xb3, 0xcc}, // 中文编程
	{0xc1, 0xee, 0x41, 0x3d, 0x31},                   // 令A=1
}

func genValid() *rapid.Generator[[]byte] {
	pieces := []string{"a", "令A=1\n", "é", "你好", "😊", "\n", "    ", "输出A\n", "\ufffd", "\ufeff", "注：x\n", "“文本”", "\r\n"}
	return rapid.Custom(func(t *rapid.T) []byte {
		var b bytes.Buffer
		if rapid.IntRange(0, 3).Draw(t, "bom") == 0 {
			b.WriteString("\ufeff")
		}
		n := rapid.IntRange(0, 30).Draw(t, "n")
		for i := 0; i < n; i++ {
			b.WriteString(rapid.SampledFrom(pieces).Draw(t, "p"))
		}
		if rapid.IntRange(0, 3).Draw(t, "big") == 0 {
			// push the interesting part across one or two block boundaries
			pad := rapid.IntRange(4080, 8200).Draw(t, "pad")
			pre := strings.Repeat("填", pad/3) + strings.Repeat("x", pad%3)
			return append([]byte(pre), b.Bytes()...)
		}
		return b.Bytes()
	})
}

func corrupt(t *rapid.T, b []byte) ([]byte, string) {
	pos := 0
	if len(b) > 0 {
		pos = rapid.IntRange(0, len(b)).Draw(t, "cpos")
	}
	kind := rapid.SampledFrom([]string{"lone-continuation", "c0", "ff", "truncate-in-sequence", "overlong", "surrogate", "gbk", "flip-high-bit"}).Draw(t, "ckind")
	ins := func(x ...byte) []byte {
		out := append([]byte{}, b[:pos]...)
		out = append(out, x...)
		return append(out, b[pos:]...)
	}
	switch kind {
	case "lone-continuation":
		return ins(0x80), kind
	case "c0":
		return ins(0xC0), kind
	case "ff":
		return ins(0xFF), kind
	case "overlong":
		return ins(0xC0, 0x80), kind
	case "surrogate":
		return ins(0xED, 0xA0, 0x80), kind
	case "gbk":
		return ins(gbkSamples[rapid.IntRange(0, len(gbkSamples)-1).Draw(t, "g")]...), kind
	case "truncate-in-sequence":
		out := append(append([]byte{}, b...), []byte("你")[:2]...)
		return out, kind
	default:
		if len(b) == 0 {
			return []byte{0xFF}, kind
		}
		out := append([]byte{}, b...)
		if pos >= len(out) {
			pos = len(out) - 1
		}
		out[pos] ^= 0x80
		return out, kind
	}
}

var fifoSeq atomic.Int64

func TestRandomFiles(t *testing.T) {
	rapid.Check(t, func(t *rapid.T) {
		b := genValid().Draw(t, "valid")
		note := "[valid]"
		labels := []string{}
		if rapid.Bool().Draw(t, "corrupt") {
			var k string
			b, k = corrupt(t, b)
			note = "[corruption: " + k + "]"
			labels = append(labels, "corrupt:"+k)
		}
		drv := rapid.SampledFrom([]string{"file", "bytes", "chunks", "chunks", "execute", "file", "bytes", "chunks", "chunks", "execute", "fifo"}).Draw(t, "driver")
		var chunks []int
		if drv == "chunks" {
			chunks = rapid.SliceOfN(rapid.OneOf(rapid.IntRange(1, 9), rapid.IntRange(1, 9000)), 1, 6).Draw(t, "chunks")
		}
		if drv == "fifo" && len(b) > 0 {
			// ascending cut offsets
			n := rapid.IntRange(1, 3).Draw(t, "ncuts")
			at := 0
			for i := 0; i < n && at < len(b); i++ {
				at += rapid.IntRange(1, len(b)-at).Draw(t, "cut")
				chunks = append(chunks, at)
			}
		}
		c := mk(b, drv, chunks, note)
		if !utf8.Valid(b) {
			labels = append(labels, "invalid-utf8")
		} else {
			labels = append(labels, "valid-utf8")
		}
		labels = append(labels, "driver-"+drv)
		firstLineEnd := bytes.IndexByte(b, '\n')
		nt := len(b) > 4096 || (!utf8.Valid(b) && firstLineEnd >= 0 && !utf8.Valid(b[firstLineEnd:]) && utf8.Valid(b[:firstLineEnd]))
		h.R.Case(t, "files", c.B64+drv+fmt.Sprint(chunks), c, labels, nt, checkFile(c))
	})
}

// end to end: a program whose later lines change the result; corruption after the first line
func TestExecuteCorrupted(t *testing.T) {
	progs := []string{"令A=1\n令B=2\n输出A + B\n", "令A=1\n（显示：A）\n输出“完成”\n", "令甲=【1，2】\n输出甲#2\n"}
	bad := [][]byte{{0xFF}, {0x80}, {0xC0, 0x80}, {0xED, 0xA0, 0x80}, {0xc4, 0xe3, 0xba, 0xc3}, []byte("你")[:2]}
	for pi, p := range progs {
		pb := []byte(p)
		for off := 0; off <= len(pb); off++ {
			if !utf8.RuneStart(append(pb, 'x')[off]) {
				continue
			}
			for bi, x := range bad {
				b := append(append(append([]byte{}, pb[:off]...), x...), pb[off:]...)
				if utf8.Valid(b) {
					continue
				}
				c := mk(b, "execute", nil, fmt.Sprintf("[program %d, bad bytes #%d at offset %d]", pi, bi, off))
				nl := bytes.IndexByte(pb, '\n')
				h.R.Case(t, "execute", fmt.Sprintf("%d/%d/%d", pi, off, bi), c, []string{"execute-corrupted"}, off > nl, checkFile(c))
			}
		}
	}
	h.R.Exhaustive("execute", "6 invalid byte sequences inserted at every character offset of 3 programs")
}

// odd but valid characters (controls incl. U+0000, format characters, noncharacters, unusual
// spaces) inserted at every offset before the last statement of small programs
func TestOddCharacters(t *testing.T) {
	progs := []string{
		"令A=1\n（显示：A）\n（显示：“终”）\n",
		"令A = “文本” // 注释\n如果A为“文本”：\n    （显示：A）\n/* 块\n注释 */\n（显示：“终”）\n",
		"如何F？\n    输出1\n\n令表=【1，2】\n注：说明\n（显示：“终”）\n",
	}
	odd := []rune{0x0000, 0x0001, 0x0004, 0x0007, 0x0008, 0x000B, 0x000C, 0x001A, 0x001B, 0x001F, 0x007F, 0x0080, 0x0085, 0x009F,
		0x00A0, 0x00AD, 0x034F, 0x061C, 0x1680, 0x180E, 0x2000, 0x200B, 0x200D, 0x200E, 0x2028, 0x2029, 0x202E, 0x205F, 0x2060,
		0x3000, 0xE000, 0xFDD0, 0xFEFF, 0xFFF9, 0xFFFD, 0xFFFE, 0xFFFF, 0x1FFFF, 0xE0001, 0x10FFFF}
	for pi, p := range progs {
		rs := []rune(p)
		last := strings.LastIndex(p, "（显示：“终”）")
		limit := len([]rune(p[:last]))
		for off := 0; off <= limit; off++ {
			if off > 0 && rs[off-1] == '*' && rs[off] == '/' {
				continue // splits the comment closer: the rest of the file IS a comment then
			}
			for _, x := range odd {
				src := string(rs[:off]) + string(x) + string(rs[off:])
				c := mk([]byte(src), "whole", nil, fmt.Sprintf("[program %d, U+%04X inserted at character %d]", pi, x, off))
				h.R.Case(t, "oddchar", fmt.Sprintf("%d/%d/%x", pi, off, x), c, []string{fmt.Sprintf("odd-character:U+%04X", x)}, x < 0x20 || off > 0, checkFile(c))
			}
		}
	}
	h.R.Exhaustive("oddchar", "40 odd code points (controls incl. U+0000, format characters, noncharacters, unusual spaces) inserted at every character offset before the last statement of 3 programs")
}

// several files decoded at the same time (what concurrent requests of the server do): each
// decode yields the text of ITS file
const concWorkers = 8

var concPaths, concWants []string

func concurrentSetup() {
	if concPaths != nil {
		return
	}
	for w := 0; w < concWorkers; w++ {
		unit := []string{"甲", "乙é", "a", "😊丙", "丁丁丁", "b你", "𝒳", "戊"}[w]
		text := fmt.Sprintf("注：file %d\n", w) + strings.Repeat(unit, 1500+w*733)
		concWants = append(concWants, text)
		p := filepath.Join(tmpDir, fmt.Sprintf("conc-%d-%d.zn", os.Getpid(), w))
		os.WriteFile(p, []byte(text), 0o644)
		concPaths = append(concPaths, p)
	}
}

func concurrentRound() []h.Failure {
	concurrentSetup()
	errs := make([]string, concWorkers)
	var wg sync.WaitGroup
	for w := 0; w < concWorkers; w++ {
		wg.Add(1)
		go func(w int) {
			defer wg.Done()
			fs, err := zio.NewFileStream(concPaths[w])
			if err != nil {
				errs[w] = "open: " + err.Error()
				return
			}
			got, err := fs.ReadAll()
			if err != nil {
				errs[w] = fmt.Sprintf("file %d (valid UTF-8, %d bytes) rejected while %d other files were being decoded: %v", w, len(concWants[w]), concWorkers-1, err)
			} else if string(got) != concWants[w] {
				errs[w] = fmt.Sprintf("file %d decoded to another text (%d characters instead of %d) while %d other files were being decoded", w, len(got), len([]rune(concWants[w])), concWorkers-1)
			}
		}(w)
	}
	wg.Wait()
	for _, e := range errs {
		if e != "" {
			return []h.Failure{{Sig: "decode/concurrent-decodes-interfere", Msg: e}}
		}
	}
	return nil
}

func TestConcurrentDecodes(t *testing.T) {
	rounds := h.Scale(60, 1500)
	for round := 0; round < rounds; round++ {
		fails := concurrentRound()
		h.R.Case(t, "concurrent", fmt.Sprint("round-", round), map[string]int{"round": round, "files": concWorkers}, []string{"concurrent-decodes"}, true, fails)
		if len(fails) > 0 {
			break
		}
	}
}

func TestCorpus(t *testing.T) { h.RunCorpus(t, "c17", replay) }
