package c03

import (
	"encoding/json"
	"fmt"
	"strings"
	"testing"

	"pgregory.net/rapid"

	h "verif/harness"
)

// The documented grammar (manual, BNF.md): ‹执行块› ::= ‹输入语句›* ‹语句块› … - a body may begin
// with ANY NUMBER of input statements. The names of a body written over several 输入 lines
// give the tree of the same names written in one statement.
//
// On the pinned tree a second 输入 line is rejected, and the pinned test
// TestAST_FAIL/"2. multiple 已知 blocks" demands exactly that rejection (error code and
// position): the defect cannot be repaired without editing that test, so it is a KNOWN
// finding (known_findings.jsonl, id F-C03-several-input-statements) - any other way for such
// a program to fail (another tree, a half-built tree, a crash, a hang) is still a violation.

type inputsCase struct {
	Split  string `json:"split"`  // the names over several input statements
	Joined string `json:"joined"` // the same names in one statement
}

func checkInputs(c inputsCase) []h.Failure {
	want, f := parseDump(c.Joined)
	if f != nil {
		f.Msg = "one-statement form:\n" + c.Joined + "\n" + f.Msg
		return []h.Failure{*f}
	}
	got, f := parseDump(c.Split)
	if f != nil {
		if strings.HasPrefix(f.Sig, "tree/valid-program-rejected") {
			return []h.Failure{{Sig: "inputs/several-input-statements-rejected", Msg: fmt.Sprintf("the grammar allows any number of input statements; rejected:\n%s\n%s\n(accepted with the names in one statement:\n%s)", c.Split, f.Msg, c.Joined)}}
		}
		f.Msg = "several input statements:\n" + c.Split + "\n" + f.Msg
		return []h.Failure{*f}
	}
	if got != want {
		return []h.Failure{{Sig: "inputs/several-input-statements-change-the-tree", Msg: fmt.Sprintf("%s\ngives %s\nbut\n%s\ngives %s", c.Split, got, c.Joined, want)}}
	}
	return nil
}

func TestSeveralInputStatements(t *testing.T) {
	rapid.Check(t, func(t *rapid.T) {
		names := rapid.Permutation([]string{"甲", "乙", "丙", "丁", "品名", "SKU", "单价"}).Draw(t, "names")[:rapid.IntRange(2, 6).Draw(t, "n")]
		// cut the names into 2.. groups
		var groups [][]string
		cur := []string{names[0]}
		for _, n := range names[1:] {
			if rapid.Bool().Draw(t, "cut") {
				groups = append(groups, cur)
				cur = nil
			}
			cur = append(cur, n)
		}
		groups = append(groups, cur)
		if len(groups) < 2 {
			groups = [][]string{names[:1], names[1:]}
		}
		inMethod := rapid.Bool().Draw(t, "in-method")
		ind := ""
		head := ""
		tail := "输出" + names[0] + "\n"
		if inMethod {
			ind = rapid.SampledFrom([]string{"    ", "\t"}).Draw(t, "indent")
			head = "如何求和？\n"
			tail = ind + "输出" + names[0] + "\n输出1\n"
		}
		var split strings.Builder
		split.WriteString(head)
		for _, g := range groups {
			split.WriteString(ind + "输入" + strings.Join(g, "、") + "\n")
		}
		split.WriteString(tail)
		c := inputsCase{Split: split.String(), Joined: head + ind + "输入" + strings.Join(names, "、") + "\n" + tail}
		key, _ := json.Marshal(c)
		labels := []string{fmt.Sprintf("input-statements-%d", len(groups))}
		if inMethod {
			labels = append(labels, "inputs-of-a-method")
		}
		h.R.Case(t, "inputs", string(key), c, labels, true, checkInputs(c))
	})
}
