package c06

import (
	"encoding/json"
	"fmt"
	"strings"
	"testing"

	r "github.com/DemoHn/Zn/pkg/runtime"
	"pgregory.net/rapid"

	h "verif/harness"
	"verif/zn"
)

type savedProg struct {
	Src       string   `json:"src"`
	X, Y      float64  `json:"-"`
	WantTrace []string `json:"want_trace"`
	WantErr   bool     `json:"want_err"`
	ErrWhat   string   `json:"err_what,omitempty"`
	Steps     int64    `json:"ref_steps"`
}

func replayProgram(raw json.RawMessage) ([]h.Failure, error) {
	var s savedProg
	if err := json.Unmarshal(raw, &s); err != nil {
		return nil, err
	}
	return judgeProgram(&s), nil
}

func inputs() (map[string]zn.Value, map[string]r.Element) {
	v := map[string]zn.Value{"X": float64(7), "Y": float64(8)}
	e := map[string]r.Element{}
	for k, x := range v {
		e[k] = zn.ToElem(x)
	}
	return v, e
}

func judgeProgram(s *savedProg) []h.Failure {
	_, elems := inputs()
	o := h.Run(s.Src, h.Opts{Inputs: elems, EvalTicks: 20*s.Steps + 1000})
	ctx := "program (inputs X=7 Y=8):\n" + s.Src
	switch o.Kind {
	case h.KPanic:
		return []h.Failure{{Sig: "program/go-panic@" + o.PanicSite, Msg: ctx + "\nGo panic: " + o.PanicMsg}}
	case h.KBudget:
		return []h.Failure{{Sig: "program/does-not-terminate", Msg: ctx + "\n" + o.PanicMsg}}
	case h.KNil:
		return []h.Failure{{Sig: "program/nil-result", Msg: ctx}}
	}
	if strings.Join(o.Trace, "\n") != strings.Join(s.WantTrace, "\n") {
		return []h.Failure{{Sig: "program/trace-mismatch" + firstDiff(s.WantTrace, o.Trace), Msg: fmt.Sprintf("%s\ndocumented trace: %v (error=%v %s)\ninterpreter trace: %v\noutcome: %s", ctx, s.WantTrace, s.WantErr, s.ErrWhat, o.Trace, o.Short())}}
	}
	if s.WantErr != (o.Kind == h.KError) {
		sig := "program/error-expected:" + s.ErrWhat
		if !s.WantErr {
			sig = "program/unexpected-error"
		}
		return []h.Failure{{Sig: sig, Msg: fmt.Sprintf("%s\ndocumented error=%v (%s); interpreter: %s", ctx, s.WantErr, s.ErrWhat, o.Short())}}
	}
	if o.Kind == h.KValue {
		if o.StackLen != 0 {
			return []h.Failure{{Sig: "program/call-stack-not-empty", Msg: fmt.Sprintf("%s\n%d frames left on the call stack after a successful run", ctx, o.StackLen)}}
		}
		for id, d := range o.ScopeDepth {
			if d != 0 {
				return []h.Failure{{Sig: "program/scope-depth-leak", Msg: fmt.Sprintf("%s\nsymbol table of module %d is left at depth %d after a successful run", ctx, id, d)}}
			}
		}
	}
	return nil
}

func firstDiff(want, got []string) string {
	i := 0
	for i < len(want) && i < len(got) && want[i] == got[i] {
		i++
	}
	switch {
	case i < len(want) && i < len(got):
		return "@value"
	case i < len(got):
		return "@extra-output"
	}
	return "@missing-output"
}

// ---------------------------------------------------------------------------------------

type pgen struct {
	t        *rapid.T
	n        int
	labels   map[string]bool
	shadow   bool
	rejected bool
}

func (g *pgen) pick(n int, w string) int { return rapid.IntRange(0, n-1).Draw(g.t, w) }
func (g *pgen) k() zn.Expr               { g.n++; return &zn.Num{Val: float64(g.n)} }

var mainNames = []string{"A", "B", "C"}
var anyNames = []string{"A", "B", "C", "A", "B", "X", "Y", "R", "F1", "K1", "真", "显示", "异常", "丗亲", "僿勀", "一丟", "丁一"} // (the last four: two pairs of zn.HashTwins)

func show(tag string, es ...zn.Expr) zn.Stmt {
	return &zn.ExprStmt{E: &zn.Call{Name: "显示", Args: append([]zn.Expr{&zn.Str{V: tag}}, es...)}}
}

// wild statements for the main body: every name use is decided by the reference
func (g *pgen) mainStmts(depth int, declared map[string]int) []zn.Stmt {
	n := 1 + g.pick(5, "nstmts")
	var out []zn.Stmt
	for i := 0; i < n; i++ {
		switch g.pick(17, "mk") {
		case 15, 16:
			// a loop variable that holds a METHOD and is called by its name in the body; the very
			// same call written again after the loop finds no such name
			lv := []string{"操", "X", "R"}[g.pick(3, "lvn")]
			out = append(out, &zn.ForEach{Names: []string{lv}, E: &zn.ListLit{Items: []zn.Expr{&zn.Var{Name: "F1"}, &zn.Var{Name: "F1"}}}, Body: []zn.Stmt{
				show("lv-call", &zn.Call{Name: lv, Args: []zn.Expr{&zn.Num{Val: 0}}}),
			}})
			if g.pick(2, "lv-after") == 0 {
				out = append(out, show("lv-after", &zn.Call{Name: lv, Args: []zn.Expr{&zn.Num{Val: 0}}}))
				g.labels["call-through-loop-variable-after-its-loop"] = true
			}
			g.labels["call-through-loop-variable"] = true
		case 13, 14:
			// 得到 NESTED inside a larger expression (the right side of an assignment, an argument
			// of a call, a branch condition): the name belongs to the block the statement stands
			// in, like any declaration made there
			yn := []string{"R", "A", "X", "Y"}[g.pick(4, "nyl")]
			call := &zn.Call{Name: "F1", Args: []zn.Expr{&zn.Num{Val: 0}}, Yield: yn}
			switch g.pick(3, "nyform") {
			case 0:
				out = append(out, show("ny", call))
			case 1:
				out = append(out, &zn.ExprStmt{E: &zn.Assign{Target: &zn.Var{Name: mainNames[g.pick(3, "nyt")]}, E: call}})
			default:
				out = append(out, &zn.If{Conds: []zn.Expr{&zn.Bin{Op: ">", L: call, R: &zn.Num{Val: -1000}}}, Blocks: [][]zn.Stmt{{show("nyb", &zn.Var{Name: yn})}}})
			}
			g.labels["yield-nested-in-expression"] = true
		case 12:
			// 得到 after a method call on a VALUE binds a constant as well (R / A may be assigned later)
			out = append(out, &zn.ExprStmt{E: &zn.MCall{Root: &zn.ListLit{Items: []zn.Expr{g.k()}}, Chain: []zn.Call{{Name: "后增", Args: []zn.Expr{g.k()}}}, Yield: []string{"R", "A", "X"}[g.pick(3, "myl")]}})
			g.labels["yield-after-method-call"] = true
		case 0, 1:
			nm := mainNames[g.pick(3, "ln")]
			if g.pick(8, "predef") == 0 {
				nm = anyNames[g.pick(len(anyNames), "an")]
			}
			if declared[nm] > 0 && declared[nm] < depth {
				g.shadow = true
			}
			declared[nm] = depth
			out = append(out, &zn.Let{Names: []string{nm}, E: g.k()})
		case 2:
			nm := mainNames[g.pick(3, "cn")]
			declared[nm] = depth
			out = append(out, &zn.Let{Names: []string{nm}, Const: true, E: g.k()})
		case 3, 4:
			nm := anyNames[g.pick(len(anyNames), "asn")]
			out = append(out, &zn.ExprStmt{E: &zn.Assign{Target: &zn.Var{Name: nm}, E: g.k()}})
			g.rejected = true
		case 5, 6, 7:
			nm := anyNames[g.pick(6, "rd")]
			out = append(out, show("r"+nm, &zn.Var{Name: nm}))
		case 8:
			if depth < 4 {
				inner := map[string]int{}
				for k, v := range declared {
					inner[k] = v
				}
				body := g.mainStmts(depth+1, inner)
				if len(body) == 0 {
					body = []zn.Stmt{show("blk")}
				}
				switch g.pick(3, "blk") {
				case 0:
					out = append(out, &zn.If{Conds: []zn.Expr{&zn.BoolLit{V: true}}, Blocks: [][]zn.Stmt{body}})
				case 1:
					lv := mainNames[g.pick(3, "lv")]
					if g.pick(6, "lvany") == 0 {
						// any name, predefined ones included, may be tried as a loop variable
						lv = anyNames[g.pick(len(anyNames), "lvan")]
						g.labels["loop-variable-any-name"] = true
					}
					out = append(out, &zn.ForEach{Names: []string{lv}, E: &zn.ListLit{Items: []zn.Expr{g.k(), g.k()}}, Body: append([]zn.Stmt{show("it", &zn.Var{Name: lv})}, body...)})
					g.labels["loop-variable"] = true
				case 2:
					out = append(out, &zn.If{Conds: []zn.Expr{&zn.BoolLit{V: false}}, Blocks: [][]zn.Stmt{{show("never")}}, Else: body})
				}
			}
		case 9:
			out = append(out, &zn.ExprStmt{E: &zn.Call{Name: "F1", Args: []zn.Expr{&zn.Num{Val: float64(g.pick(3, "rec"))}}, Yield: []string{"", "R", "A"}[g.pick(3, "yl")]}})
			g.labels["call"] = true
		case 10:
			out = append(out, &zn.Let{Names: []string{mainNames[g.pick(3, "ln2")]}, E: &zn.Call{Name: "F2", Args: []zn.Expr{g.k()}}})
			g.labels["call-with-handled-exception"] = true
		case 11:
			// probe names a callee declared: must be unbound here unless declared here
			out = append(out, show("probeM", &zn.Var{Name: []string{"M", "N", "P"}[g.pick(3, "pm")]}))
			g.labels["probe-callee-name"] = true
		}
	}
	return out
}

// well-scoped method body over its own names (M, N) and its input P
func (g *pgen) funcBody(self string, handled bool) []zn.Stmt {
	body := []zn.Stmt{
		show(self+"-in", &zn.Var{Name: "P"}),
		&zn.Let{Names: []string{"M"}, E: &zn.Bin{Op: "+", L: &zn.Var{Name: "P"}, R: &zn.Num{Val: 100}}},
	}
	if g.pick(2, "inner") == 0 {
		body = append(body, &zn.If{Conds: []zn.Expr{&zn.BoolLit{V: true}}, Blocks: [][]zn.Stmt{{
			&zn.Let{Names: []string{"M"}, E: &zn.Num{Val: 55}}, // shadows the outer M
			&zn.Let{Names: []string{"N"}, Const: true, E: &zn.Num{Val: 66}},
			show(self+"-inner", &zn.Var{Name: "M"}, &zn.Var{Name: "N"}),
		}}})
	}
	// recursion on a decreasing counter
	body = append(body, &zn.If{Conds: []zn.Expr{&zn.Bin{Op: ">", L: &zn.Var{Name: "P"}, R: &zn.Num{Val: 0}}}, Blocks: [][]zn.Stmt{{
		&zn.ExprStmt{E: &zn.Call{Name: self, Args: []zn.Expr{&zn.Bin{Op: "-", L: &zn.Var{Name: "P"}, R: &zn.Num{Val: 1}}}}},
	}}})
	body = append(body, show(self+"-M", &zn.Var{Name: "M"}))
	if handled {
		switch g.pick(7, "fault") {
		case 5, 6:
			// a call with the wrong number of arguments: none of the callee's body runs, the
			// error is handled below, and nothing of the attempted call may remain
			if g.pick(2, "arity-kind") == 0 {
				body = append(body, &zn.ExprStmt{E: &zn.Call{Name: "F1"}})
			} else {
				body = append(body, &zn.Let{Names: []string{"N"}, E: &zn.Call{Name: "F3", Args: []zn.Expr{&zn.Num{Val: 1}, &zn.Num{Val: 2}}}})
			}
			g.labels["handled-arity-mismatch"] = true
		case 4:
			// fault inside a callee without handler: its frame must not outlive the handling
			body = append(body, &zn.ExprStmt{E: &zn.Call{Name: "F3", Args: []zn.Expr{&zn.Var{Name: "P"}}}})
			g.labels["fault-in-nested-call"] = true
		case 0:
			body = append(body, &zn.ExprStmt{E: &zn.Assign{Target: &zn.Var{Name: "P"}, E: &zn.Num{Val: 1}}}) // assign to an input
		case 1:
			body = append(body, &zn.Let{Names: []string{"M"}, E: &zn.Num{Val: 2}}) // redeclare in the same block
		case 2:
			body = append(body, &zn.Throw{Class: "异常", Args: []zn.Expr{&zn.Str{V: "boom"}}})
		case 3:
			body = append(body, show("undefined", &zn.Var{Name: "Q9"}))
		}
		body = append(body, show(self+"-unreachable"))
	}
	body = append(body, &zn.Return{E: &zn.Var{Name: "M"}})
	return body
}

func (g *pgen) program() *zn.Program {
	p := &zn.Program{Inputs: []string{"X", "Y"}}
	p.Body = append(p.Body, &zn.FuncDef{Name: "F1", Params: []string{"P"}, Body: g.funcBody("F1", false)})
	p.Body = append(p.Body, &zn.FuncDef{Name: "F2", Params: []string{"P"}, Body: g.funcBody("F2", true),
		Catches: []zn.Catch{{Class: "异常", Body: []zn.Stmt{show("F2-handler", &zn.Var{Name: "P"}), &zn.Return{E: &zn.Num{Val: -1}}}}}})
	p.Body = append(p.Body, &zn.FuncDef{Name: "F3", Params: []string{"P"}, Body: []zn.Stmt{
		&zn.Let{Names: []string{"N"}, E: &zn.Num{Val: 3}},
		show("F3-in", &zn.Var{Name: "P"}),
		&zn.Return{E: &zn.Bin{Op: "/", L: &zn.Num{Val: 1}, R: &zn.Num{Val: 0}}},
	}})
	p.Body = append(p.Body, &zn.ClassDef{Name: "K1", Props: []zn.Prop{{Name: "V", Init: &zn.Num{Val: 0}}}})
	p.Body = append(p.Body, g.mainStmts(1, map[string]int{})...)
	p.Body = append(p.Body, show("end"))
	if g.pick(3, "handler") > 0 {
		p.Catches = []zn.Catch{{Class: "异常", Body: []zn.Stmt{
			show("handler", &zn.Var{Name: "X"}, &zn.Var{Name: "Y"}),
			show("F1-intact", &zn.Call{Name: "F1", Args: []zn.Expr{&zn.Num{Val: 0}}}),
			show("K1-intact", &zn.New{Class: "K1"}),
			show("predefined-intact", &zn.Var{Name: "真"}),
		}}}
		g.labels["main-handler"] = true
	}
	return p
}

func TestProgram(t *testing.T) {
	rapid.Check(t, func(t *rapid.T) {
		g := &pgen{t: t, labels: map[string]bool{}}
		p := g.program()
		src, _ := zn.Render(p, nil)
		in := zn.NewInterp()
		in.Inputs, _ = inputs()
		ref := in.Run(p)
		if ref.Exhausted {
			h.R.Skip("reference budget")
			return
		}
		if len(ref.Unspec) > 0 {
			h.R.Skip("program: " + ref.Unspec[0])
			return
		}
		s := savedProg{Src: src, WantTrace: ref.Out, WantErr: ref.Err != nil, Steps: ref.Steps}
		if ref.Err != nil {
			s.ErrWhat = ref.Err.What
		}
		fails := judgeProgram(&s)
		var labels []string
		for l := range g.labels {
			labels = append(labels, l)
		}
		if ref.Err != nil {
			labels = append(labels, "ends-in-error:"+ref.Err.What)
		}
		handlerRan := false
		for _, ln := range ref.Out {
			if strings.HasPrefix(ln, "handler") {
				handlerRan = true
			}
		}
		if handlerRan {
			labels = append(labels, "main-handler-ran")
		}
		if g.shadow {
			labels = append(labels, "shadow-across-levels")
		}
		h.R.Case(t, "program", src, s, labels, g.shadow || handlerRan, fails)
	})
}
