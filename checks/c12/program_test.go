package c12

import (
	"encoding/json"
	"fmt"
	"strings"
	"testing"

	"pgregory.net/rapid"

	h "verif/harness"
	"verif/zn"
)

type savedProg struct {
	Src       string   `json:"src"`
	WantTrace []string `json:"want_trace"`
	WantErr   bool     `json:"want_err"`
	ErrWhat   string   `json:"err_what,omitempty"`
	Steps     int64    `json:"ref_steps"`
}

func replayProgram(raw json.RawMessage) ([]h.Failure, error) {
	var s savedProg
	if err := json.Unmarshal(raw, &s); err != nil {
		return nil, err
	}
	return judgeProgram(&s), nil
}

func judgeProgram(s *savedProg) []h.Failure {
	o := h.Run(s.Src, h.Opts{EvalTicks: 20*s.Steps + 2000})
	ctx := "program:\n" + s.Src
	switch o.Kind {
	case h.KPanic:
		return []h.Failure{{Sig: "program/go-panic@" + o.PanicSite, Msg: ctx + "\nGo panic: " + o.PanicMsg}}
	case h.KBudget:
		return []h.Failure{{Sig: "program/does-not-terminate", Msg: ctx}}
	case h.KNil:
		return []h.Failure{{Sig: "program/nil-result", Msg: ctx}}
	}
	if strings.Join(o.Trace, "\n") != strings.Join(s.WantTrace, "\n") {
		i := 0
		for i < len(o.Trace) && i < len(s.WantTrace) && o.Trace[i] == s.WantTrace[i] {
			i++
		}
		at := "end"
		if i < len(s.WantTrace) {
			at = strings.SplitN(s.WantTrace[i], " ", 2)[0]
		}
		return []h.Failure{{Sig: "program/trace-mismatch@" + at, Msg: fmt.Sprintf("%s\ndocumented trace: %v (error=%v %s)\ninterpreter trace: %v\noutcome: %s", ctx, s.WantTrace, s.WantErr, s.ErrWhat, o.Trace, o.Short())}}
	}
	if s.WantErr != (o.Kind == h.KError) {
		return []h.Failure{{Sig: "program/error-ness:" + s.ErrWhat, Msg: fmt.Sprintf("%s\ndocumented error=%v (%s); interpreter: %s", ctx, s.WantErr, s.ErrWhat, o.Short())}}
	}
	return nil
}

func show(tag string, es ...zn.Expr) zn.Stmt {
	return &zn.ExprStmt{E: &zn.Call{Name: "显示", Args: append([]zn.Expr{&zn.Str{V: tag}}, es...)}}
}
func num(f float64) zn.Expr { return &zn.Num{Val: f} }
func v(n string) zn.Expr    { return &zn.Var{Name: n} }

func litOf(val zn.Value) zn.Expr {
	switch x := val.(type) {
	case float64:
		return num(x)
	case string:
		return &zn.Str{V: x}
	case bool:
		return &zn.BoolLit{V: x}
	case zn.NullV:
		return &zn.NullLit{}
	case *zn.ListV:
		l := &zn.ListLit{}
		for _, it := range x.Items {
			l.Items = append(l.Items, litOf(it))
		}
		return l
	case *zn.DictV:
		d := &zn.DictLit{}
		for _, k := range x.Keys {
			d.Keys = append(d.Keys, k)
			d.Vals = append(d.Vals, litOf(x.M[k]))
		}
		return d
	}
	panic("litOf")
}

func mc(root zn.Expr, name string, args ...zn.Expr) zn.Expr {
	return &zn.MCall{Root: root, Chain: []zn.Call{{Name: name, Args: args}}}
}

func TestPrograms(t *testing.T) {
	rapid.Check(t, func(t *rapid.T) {
		pick := func(n int, w string) int { return rapid.IntRange(0, n-1).Draw(t, w) }
		// mostly valid positions, sometimes just outside 1..size
		pos := func(size int, w string) float64 {
			if size > 0 && pick(6, w+"-in") > 0 {
				return float64(1 + pick(size, w))
			}
			return float64(pick(size+3, w) - 1)
		}
		p := &zn.Program{}
		// a list L and a dictionary D
		l0 := &zn.ListLit{}
		for i, n := 0, pick(4, "n0"); i < n; i++ {
			l0.Items = append(l0.Items, litOf(poolValue(pick(8, "lv"))))
		}
		d0 := &zn.DictLit{}
		for i, n := 0, pick(4, "d0"); i < n; i++ {
			d0.Keys = append(d0.Keys, dictKeys[pick(len(dictKeys), "dk")])
			d0.Vals = append(d0.Vals, litOf(poolValue(pick(8, "dv"))))
		}
		p.Body = append(p.Body, &zn.Let{Names: []string{"L"}, E: l0}, &zn.Let{Names: []string{"D"}, E: d0})
		size := len(l0.Items)
		muts := 0
		reads := 0
		nops := 1 + pick(14, "nops")
		for i := 0; i < nops; i++ {
			val := litOf(poolValue(pick(8, "val")))
			switch pick(19, "op") {
			case 0:
				p.Body = append(p.Body, show("get", &zn.Index{Root: v("L"), Idx: num(pos(size, "gi"))}))
			case 1:
				p.Body = append(p.Body, &zn.ExprStmt{E: &zn.Assign{Target: &zn.Index{Root: v("L"), Idx: num(pos(size, "si"))}, E: val}})
				muts++
			case 2:
				p.Body = append(p.Body, &zn.ExprStmt{E: mc(v("L"), "后增", val)})
				size++
				muts++
			case 3:
				p.Body = append(p.Body, &zn.ExprStmt{E: mc(v("L"), "前增", val)})
				size++
				muts++
			case 4:
				p.Body = append(p.Body, show("shift", mc(v("L"), "左移")))
				if size > 0 {
					size--
				}
				muts++
			case 5:
				p.Body = append(p.Body, show("pop", mc(v("L"), "右移")))
				if size > 0 {
					size--
				}
				muts++
			case 6:
				p.Body = append(p.Body, &zn.ExprStmt{E: mc(v("L"), "交换", num(pos(size, "sw1")), num(pos(size, "sw2")))})
				muts++
			case 7:
				p.Body = append(p.Body, show("props", &zn.Member{Root: v("L"), Name: "首项"}, &zn.Member{Root: v("L"), Name: "末项"}, &zn.Member{Root: v("L"), Name: "长度"}, &zn.Member{Root: v("L"), Name: "逆序"}))
			case 8:
				p.Body = append(p.Body, show("contains", mc(v("L"), "包含", val)))
			case 9:
				// iteration with index
				p.Body = append(p.Body, &zn.ForEach{Names: []string{"I", "E"}, E: v("L"), Body: []zn.Stmt{show("it", v("I"), v("E"))}})
			case 10:
				p.Body = append(p.Body, show("dget", &zn.Index{Root: v("D"), Idx: &zn.Str{V: dictKeys[pick(len(dictKeys), "k")]}}))
			case 11, 12:
				p.Body = append(p.Body, &zn.ExprStmt{E: &zn.Assign{Target: &zn.Index{Root: v("D"), Idx: &zn.Str{V: dictKeys[pick(len(dictKeys), "k")]}}, E: val}})
				muts++
			case 13:
				p.Body = append(p.Body, show("del", mc(v("D"), "移除", &zn.Str{V: dictKeys[pick(len(dictKeys), "k")]})))
				muts++
			case 14:
				p.Body = append(p.Body, &zn.ExprStmt{E: mc(v("D"), "写入", &zn.Str{V: dictKeys[pick(len(dictKeys), "k")]}, val)})
				muts++
			case 15:
				p.Body = append(p.Body, &zn.ForEach{Names: []string{"K", "W"}, E: v("D"), Body: []zn.Stmt{show("dit", v("K"), v("W"))}},
					show("dprops", &zn.Member{Root: v("D"), Name: "所有索引"}, &zn.Member{Root: v("D"), Name: "所有值"}, &zn.Member{Root: v("D"), Name: "长度"}))
			case 16:
				p.Body = append(p.Body, &zn.ExprStmt{E: &zn.Assign{Target: &zn.Member{Root: v("L"), Name: []string{"首项", "末项"}[pick(2, "fl")]}, E: val}})
				muts++
			case 17, 18:
				// uses that only READ the collections - comparisons (either side) - leave them as they are: the state shown next is the state before
				p.Body = append(p.Body, &zn.Let{Names: []string{fmt.Sprintf("旁典%d", i), fmt.Sprintf("另典%d", i)}, E: v("D")},
					&zn.Let{Names: []string{fmt.Sprintf("旁表%d", i)}, E: v("L")},
					&zn.ExprStmt{E: &zn.Assign{Target: &zn.Index{Root: v(fmt.Sprintf("另典%d", i)), Idx: &zn.Str{V: dictKeys[pick(len(dictKeys), "ck")]}}, E: val}},
					show("cmp", &zn.Bin{Op: "==", L: v("D"), R: v(fmt.Sprintf("旁典%d", i))}, &zn.Bin{Op: "/=", L: v("D"), R: v(fmt.Sprintf("另典%d", i))},
						&zn.Bin{Op: "为", L: v(fmt.Sprintf("另典%d", i)), R: v("D")}, &zn.Bin{Op: "==", L: v("L"), R: v(fmt.Sprintf("旁表%d", i))},
						&zn.Bin{Op: "==", L: &zn.ListLit{Items: []zn.Expr{v("D")}}, R: &zn.ListLit{Items: []zn.Expr{v(fmt.Sprintf("旁典%d", i))}}}),
					show("copies", v(fmt.Sprintf("旁典%d", i)), v(fmt.Sprintf("另典%d", i)), v(fmt.Sprintf("旁表%d", i))))
				reads++
			}
			p.Body = append(p.Body, show("state", v("L"), v("D")))
		}
		src, _ := zn.Render(p, nil)
		ref := zn.NewInterp().Run(p)
		if ref.Exhausted || len(ref.Unspec) > 0 {
			if len(ref.Unspec) > 0 {
				h.R.Skip("program: " + ref.Unspec[0])
			}
			return
		}
		s := savedProg{Src: src, WantTrace: ref.Out, WantErr: ref.Err != nil, Steps: ref.Steps}
		if ref.Err != nil {
			s.ErrWhat = ref.Err.What
		}
		labels := []string{"program"}
		if reads > 0 {
			labels = append(labels, "read-only-uses-between-changes")
		}
		if ref.Err != nil {
			labels = append(labels, "program-ends-in:"+ref.Err.What)
		}
		h.R.Case(t, "program", src, s, labels, muts >= 3, judgeProgram(&s))
	})
}
