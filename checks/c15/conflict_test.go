package c15

import (
	"encoding/json"
	"fmt"
	"testing"

	"pgregory.net/rapid"

	h "verif/harness"
)

// "Exactly the module's methods and types (all, or the listed ones) become available": a file
// that imports two DIFFERENT modules which both export the name N cannot have both imports
// honoured under that one name - the program is rejected (a redeclaration error). What must
// never happen is that both imports are accepted and N silently keeps denoting the first
// module's definition (the second import's N never became available). Importing the SAME
// module's N through a go-between module is no conflict and is not generated here.

type conflictCase struct {
	First   string `json:"first"`   // import line of the first module (甲)
	Second  string `json:"second"`  // import line of the second module (乙)
	Kind    string `json:"kind"`    // method | type
	Through bool   `json:"through"` // the importer is a module of its own, imported by main
}

func checkConflict(c conflictCase) []h.Failure {
	mods := map[string]string{
		"甲": "如何工具？\n    输出“甲的工具”\n定义型：\n    其名 = “甲的型”\n如何甲独有？\n    输出1\n",
		"乙": "如何工具？\n    输出“乙的工具”\n定义型：\n    其名 = “乙的型”\n如何乙独有？\n    输出2\n",
	}
	use := "（工具）"
	if c.Kind == "type" {
		use = "（新建型）之名"
	}
	importer := c.First + "\n" + c.Second + "\n（显示：“got”、" + use + "）\n如何转？\n    输出" + use + "\n"
	src := importer + "输出“done”\n"
	if c.Through {
		mods["丙"] = importer
		src = "导入“丙”\n（显示：“via”、（转））\n输出“done”\n"
	}
	o := h.Run(src, h.Opts{Modules: mods})
	ctx := fmt.Sprintf("main program:\n%s", src)
	if c.Through {
		ctx += "\n--- module 丙:\n" + importer
	}
	switch o.Kind {
	case h.KPanic, h.KBudget, h.KNil:
		return []h.Failure{{Sig: "conflict/" + o.Kind + "@" + o.PanicSite, Msg: ctx + "\n" + o.PanicMsg}}
	case h.KError:
		return nil
	}
	return []h.Failure{{Sig: "conflict/both-imports-accepted", Msg: fmt.Sprintf("%s\n甲 and 乙 both export the name used here; both imports were accepted, trace %v: one of the two imports did not make its name available", ctx, o.Trace)}}
}

func TestConflictingExports(t *testing.T) {
	rapid.Check(t, func(t *rapid.T) {
		kind := rapid.SampledFrom([]string{"method", "type"}).Draw(t, "kind")
		name := "工具"
		if kind == "type" {
			name = "型"
		}
		line := func(m, w string) string {
			switch rapid.IntRange(0, 2).Draw(t, w) {
			case 0:
				return "导入“" + m + "”"
			case 1:
				return "导入“" + m + "”之" + name
			default:
				return "导入“" + m + "”之" + m + "独有、" + name
			}
		}
		c := conflictCase{Kind: kind, Through: rapid.Bool().Draw(t, "through")}
		if rapid.Bool().Draw(t, "order") {
			c.First, c.Second = line("甲", "l1"), line("乙", "l2")
		} else {
			c.First, c.Second = line("乙", "l1"), line("甲", "l2")
		}
		key, _ := json.Marshal(c)
		h.R.Case(t, "conflict", string(key), c, []string{"two-modules-export-one-name:" + kind}, true, checkConflict(c))
	})
}

// "An imported method behaves as it does inside its own module" also when that module holds
// nothing else: a module whose ONLY definition refers to itself (a recursive method, a type
// whose method creates an object of its own type), imported whole or by name, directly or
// through another module.

type loneCase struct {
	Name string            `json:"name"`
	Src  string            `json:"src"`
	Mods map[string]string `json:"modules"`
	Want string            `json:"want"`
}

var loneCases = []loneCase{
	{"a recursive method is the only definition of its module", "导入“甲”\n输出（阶乘：5）",
		map[string]string{"甲": "如何阶乘？\n    输入N\n    如果N <= 1：\n        输出1\n    输出N * （阶乘：N - 1）\n"}, "120"},
	{"... imported by name", "导入“甲”之阶乘\n输出（阶乘：6）",
		map[string]string{"甲": "如何阶乘？\n    输入N\n    如果N <= 1：\n        输出1\n    输出N * （阶乘：N - 1）\n"}, "720"},
	{"... used by a method of another module that imports it", "导入“乙”\n输出（用：4）",
		map[string]string{"甲": "如何阶乘？\n    输入N\n    如果N <= 1：\n        输出1\n    输出N * （阶乘：N - 1）\n", "乙": "导入“甲”\n如何用？\n    输入N\n    输出（阶乘：N） + 1\n"}, "25"},
	{"a type whose method creates an object of its own type is the only definition of its module", "导入“丙”\n令首 = （新建节点）\n输出以首（生：3）之深",
		map[string]string{"丙": "定义节点：\n    其深 = 0\n    如何生？\n        输入N\n        如果N <= 0：\n            输出此\n        令子 = （新建节点）\n        子之深 = 其深 + 1\n        输出以子（生：N - 1）\n"}, "3"},
	{"two definitions, for comparison", "导入“丁”\n输出（阶乘：5）",
		map[string]string{"丁": "如何阶乘？\n    输入N\n    如果N <= 1：\n        输出1\n    输出N * （阶乘：N - 1）\n如何旁法？\n    输出0\n"}, "120"},
}

func checkLone(c loneCase) []h.Failure {
	o := h.Run(c.Src, h.Opts{Modules: c.Mods})
	desc := fmt.Sprintf("%s\nmain program:\n%s\nmodules: %v", c.Name, c.Src, c.Mods)
	switch o.Kind {
	case h.KPanic, h.KBudget, h.KNil:
		return []h.Failure{{Sig: "lone/" + o.Kind + "@" + o.PanicSite, Msg: desc + "\n" + o.PanicMsg}}
	}
	if o.Kind != h.KValue || o.ValText != c.Want {
		return []h.Failure{{Sig: "lone/imported-definition-cannot-use-itself", Msg: fmt.Sprintf("%s\nexpected %s, got %s", desc, c.Want, o.Short())}}
	}
	return nil
}

func TestLoneDefinitions(t *testing.T) {
	for _, c := range loneCases {
		h.R.Case(t, "lone", c.Name, c, []string{"module-with-one-self-referring-definition"}, true, checkLone(c))
	}
	h.R.Exhaustive("lone", fmt.Sprintf("%d listed programs", len(loneCases)))
}
