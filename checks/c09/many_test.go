package c09

import (
	"encoding/json"
	"fmt"
	"testing"

	"pgregory.net/rapid"

	h "verif/harness"
)

// "After a handled exception execution continues exactly as if the protected body had returned
// normally" also holds the thousandth time: K exceptions, each raised D calls below its handler,
// leave nothing behind that adds up - afterwards a deep recursion and a nested expression still
// give their values, the call stack is empty and every scope closed.

type manyCase struct {
	K     int    `json:"k"`     // handled exceptions
	D     int    `json:"d"`     // calls between handler and raise point
	Raise string `json:"raise"` // statement that raises
	Where string `json:"where"` // handler: "caller" (one handler D calls above) | "every" (every level handles and raises again)
	M     int    `json:"m"`     // depth of the recursion made afterwards
}

func manySrc(c manyCase) string {
	dive := "如何下潜？\n    输入N\n    如果N <= 0：\n        " + c.Raise + "\n    输出{（下潜：N - 1）+ 1} * 1\n"
	if c.Where == "every" {
		dive += "    拦截异常：\n        抛出异常：“再抛”！\n"
	}
	return dive +
		"如何试探？\n    输入N\n    输出（下潜：N）\n    拦截异常：\n        输出-1\n" +
		"如何求和？\n    输入N\n    如果N <= 0：\n        输出0\n    输出N + （求和：N - 1）\n" +
		fmt.Sprintf("令计 = 0\n令次 = 0\n每当次 < %d：\n    次 = 次 + 1\n    计 = 计 + （试探：%d）\n输出【计，（求和：%d），{{{1 + 2} * 3} + 4}，次】", c.K, c.D, c.M)
}

func checkMany(c manyCase) []h.Failure {
	src := manySrc(c)
	o := h.Run(src, h.Opts{EvalTicks: 2000000000, MaxDepth: -1, WantVM: true})
	desc := fmt.Sprintf("%d exceptions, each raised %d calls below its handler (%s; handlers: %s), then a recursion %d deep\nprogram:\n%s", c.K, c.D, c.Raise, c.Where, c.M, src)
	switch o.Kind {
	case h.KPanic, h.KBudget, h.KNil:
		return []h.Failure{{Sig: "many/" + o.Kind + "@" + o.PanicSite, Msg: desc + "\n" + o.PanicMsg}}
	case h.KError:
		return []h.Failure{{Sig: "many/error-after-handled-exceptions", Msg: desc + "\nended with " + o.Short()}}
	}
	want := fmt.Sprintf("[%v，%v，13，%v]", float64(-c.K), float64(c.M*(c.M+1)/2), float64(c.K)) // (numbers display as Go %v of the float64)
	if o.ValText != want {
		return []h.Failure{{Sig: "many/wrong-result", Msg: fmt.Sprintf("%s\nexpected %s, got %s", desc, want, o.Short())}}
	}
	if o.StackLen != 0 {
		return []h.Failure{{Sig: "many/call-stack-not-empty", Msg: fmt.Sprintf("%s\n%d frames left on the call stack", desc, o.StackLen)}}
	}
	for id, d := range o.ScopeDepth {
		if d != 0 {
			return []h.Failure{{Sig: "many/scope-depth-leak", Msg: fmt.Sprintf("%s\nsymbol table of module %d is left at depth %d", desc, id, d)}}
		}
	}
	return nil
}

var manyRaises = []string{"抛出异常：“底”！", "令坏 = 1 / 0", "（显示：无此名）", "令坏 = 【1】#5", "令坏 = （求和：1、2）", "令坏 = 以“abc”（取样：-9、1）", "令坏 = 1 + “文”", "令坏 = “{#.2}” % 【“x”】"}

func TestManyHandledExceptions(t *testing.T) {
	rapid.Check(t, func(t *rapid.T) {
		c := manyCase{Raise: rapid.SampledFrom(manyRaises).Draw(t, "raise"), Where: rapid.SampledFrom([]string{"caller", "caller", "every"}).Draw(t, "where")}
		c.D = rapid.SampledFrom([]int{0, 1, 3, 40, 600, 3000, 20000}).Draw(t, "d")
		total := rapid.IntRange(h.Scale(200000, 400000), h.Scale(400000, 1500000)).Draw(t, "calls")
		c.K = total / (c.D + 2)
		if c.K < 2 {
			c.K = 2
		}
		c.M = rapid.SampledFrom([]int{10, 3000, 30000}).Draw(t, "m")
		key, _ := json.Marshal(c)
		h.R.Case(t, "many", string(key), c, []string{fmt.Sprintf("handled-exceptions-depth-%d", c.D), "handlers-" + c.Where}, c.K*(c.D+1) >= 100000, checkMany(c))
	})
}
