package zn

import (
	"fmt"
	"strings"
)

// ExpectedDump - the canonical S-expression (same format as harness.DumpProgram with empty
// statements dropped) of the tree the grammar prescribes for an abstract program.
func ExpectedDump(p *Program) string {
	var b strings.Builder
	b.WriteString("(prog (imports")
	for _, im := range p.Imports {
		t := 2
		if im.Lib {
			t = 1
		}
		fmt.Fprintf(&b, " (import %d %q", t, im.Name)
		for _, it := range im.Items {
			fmt.Fprintf(&b, " (id %q)", it)
		}
		b.WriteString(")")
	}
	b.WriteString(") ")
	if len(p.Inputs) == 0 && len(p.Body) == 0 && len(p.Catches) == 0 {
		b.WriteString("nil")
	} else {
		dumpExec(&b, p.Inputs, p.Body, p.Catches)
	}
	b.WriteString(")")
	return b.String()
}

func dumpExec(b *strings.Builder, params []string, body []Stmt, catches []Catch) {
	b.WriteString("(exec (inputs")
	for _, n := range params {
		fmt.Fprintf(b, " (id %q)", n)
	}
	b.WriteString(") ")
	dumpBlock(b, body)
	b.WriteString(" (catch")
	for i := range catches {
		fmt.Fprintf(b, " (on (id %q) ", catches[i].Class)
		dumpBlock(b, catches[i].Body)
		b.WriteString(")")
	}
	b.WriteString("))")
}

func dumpBlock(b *strings.Builder, body []Stmt) {
	b.WriteString("(block")
	for _, s := range body {
		if _, isComment := s.(*Comment); isComment {
			continue
		}
		b.WriteString(" ")
		dumpStmt(b, s)
	}
	b.WriteString(")")
}

func dumpFunc(b *strings.Builder, kind int, name string, params []string, body []Stmt, catches []Catch) {
	fmt.Fprintf(b, "(func %d (id %q) ", kind, name)
	dumpExec(b, params, body, catches)
	b.WriteString(")")
}

func dumpPair(b *strings.Builder, l *Let) {
	t := 1
	if l.Const {
		t = 3
	}
	fmt.Fprintf(b, " (pair %d (vars", t)
	for _, n := range l.Names {
		fmt.Fprintf(b, " (id %q)", n)
	}
	b.WriteString(") ")
	dumpExpr(b, l.E)
	b.WriteString(")")
}

func dumpStmt(b *strings.Builder, s Stmt) {
	switch v := s.(type) {
	case *Let:
		b.WriteString("(let")
		dumpPair(b, v)
		b.WriteString(")")
	case *LetBlock:
		b.WriteString("(let")
		for _, pr := range v.Pairs {
			dumpPair(b, pr)
		}
		b.WriteString(")")
	case *ExprStmt:
		dumpExpr(b, v.E)
	case *If:
		b.WriteString("(if ")
		dumpExpr(b, v.Conds[0])
		b.WriteString(" ")
		dumpBlock(b, v.Blocks[0])
		for i := 1; i < len(v.Conds); i++ {
			b.WriteString(" (elif ")
			dumpExpr(b, v.Conds[i])
			b.WriteString(" ")
			dumpBlock(b, v.Blocks[i])
			b.WriteString(")")
		}
		if v.Else != nil {
			b.WriteString(" (else ")
			dumpBlock(b, v.Else)
			b.WriteString(")")
		}
		b.WriteString(")")
	case *While:
		b.WriteString("(while ")
		dumpExpr(b, v.Cond)
		b.WriteString(" ")
		dumpBlock(b, v.Body)
		b.WriteString(")")
	case *ForEach:
		b.WriteString("(iter (names")
		for _, n := range v.Names {
			fmt.Fprintf(b, " (id %q)", n)
		}
		b.WriteString(") ")
		dumpExpr(b, v.E)
		b.WriteString(" ")
		dumpBlock(b, v.Body)
		b.WriteString(")")
	case *Break:
		b.WriteString("(break)")
	case *Continue:
		b.WriteString("(continue)")
	case *Return:
		b.WriteString("(ret ")
		dumpExpr(b, v.E)
		b.WriteString(")")
	case *Throw:
		fmt.Fprintf(b, "(throw (id %q)", v.Class)
		for _, a := range v.Args {
			b.WriteString(" ")
			dumpExpr(b, a)
		}
		b.WriteString(")")
	case *FuncDef:
		dumpFunc(b, 1, v.Name, v.Params, v.Body, v.Catches)
	case *CtorDef:
		dumpFunc(b, 3, v.Class, v.Params, v.Body, v.Catches)
	case *ClassDef:
		fmt.Fprintf(b, "(class (id %q) (props", v.Name)
		for _, p := range v.Props {
			fmt.Fprintf(b, " (prop (id %q) ", p.Name)
			dumpExpr(b, p.Init)
			b.WriteString(")")
		}
		b.WriteString(") (methods")
		for i := range v.Methods {
			m := &v.Methods[i]
			b.WriteString(" ")
			dumpFunc(b, 1, m.Name, m.Params, m.Body, m.Catches)
		}
		b.WriteString(") (getters")
		for i := range v.Getters {
			m := &v.Getters[i]
			b.WriteString(" ")
			dumpFunc(b, 2, m.Name, m.Params, m.Body, m.Catches)
		}
		b.WriteString("))")
	default:
		panic(fmt.Sprintf("expect: unknown statement %T", s))
	}
}

var binNames = map[string]string{"或": "or", "且": "and", "==": "eq", "/=": "neq", ">": "gt", ">=": "gte", "<": "lt", "<=": "lte", "为": "xeq", "不为": "xneq",
	"+": "+", "-": "-", "*": "*", "/": "/", "|": "|", "%": "%"}

func dumpCall(b *strings.Builder, c *Call, withYield bool) {
	fmt.Fprintf(b, "(call (id %q) (args", c.Name)
	for _, a := range c.Args {
		b.WriteString(" ")
		dumpExpr(b, a)
	}
	b.WriteString(")")
	if withYield && c.Yield != "" {
		fmt.Fprintf(b, " (yield (id %q))", c.Yield)
	}
	b.WriteString(")")
}

func dumpExpr(b *strings.Builder, e Expr) {
	switch v := e.(type) {
	case *Num:
		lit := v.Lit
		if lit == "" {
			lit = FormatNum(v.Val)
		}
		fmt.Fprintf(b, "(id %q)", lit)
	case *BoolLit:
		if v.V {
			b.WriteString(`(id "真")`)
		} else {
			b.WriteString(`(id "假")`)
		}
	case *NullLit:
		b.WriteString(`(id "空")`)
	case *Str:
		fmt.Fprintf(b, "(str %q)", v.V)
	case *Var:
		fmt.Fprintf(b, "(id %q)", v.Name)
	case *RawStr:
		fmt.Fprintf(b, "(str %q)", v.Val)
	case *Grp:
		dumpExpr(b, v.E)
	case *Bin:
		b.WriteString("(" + binNames[v.Op] + " ")
		dumpExpr(b, v.L)
		b.WriteString(" ")
		dumpExpr(b, v.R)
		b.WriteString(")")
	case *ListLit:
		b.WriteString("(arr")
		for _, it := range v.Items {
			b.WriteString(" ")
			dumpExpr(b, it)
		}
		b.WriteString(")")
	case *DictLit:
		b.WriteString("(map")
		for i, k := range v.Keys {
			if i < len(v.Bare) && v.Bare[i] {
				fmt.Fprintf(b, " (kv (id %q) ", k)
			} else {
				fmt.Fprintf(b, " (kv (str %q) ", k)
			}
			dumpExpr(b, v.Vals[i])
			b.WriteString(")")
		}
		b.WriteString(")")
	case *Index:
		b.WriteString("(index ")
		dumpExpr(b, v.Root)
		b.WriteString(" ")
		dumpExpr(b, v.Idx)
		b.WriteString(")")
	case *Member:
		b.WriteString("(member ")
		dumpExpr(b, v.Root)
		fmt.Fprintf(b, " (id %q))", v.Name)
	case *This:
		fmt.Fprintf(b, "(this (id %q))", v.Name)
	case *Call:
		dumpCall(b, v, true)
	case *New:
		fmt.Fprintf(b, "(new (id %q)", v.Class)
		for _, a := range v.Args {
			b.WriteString(" ")
			dumpExpr(b, a)
		}
		b.WriteString(")")
	case *MCall:
		b.WriteString("(mcall ")
		dumpExpr(b, v.Root)
		for i := range v.Chain {
			b.WriteString(" ")
			dumpCall(b, &v.Chain[i], false)
		}
		if v.Yield != "" {
			fmt.Fprintf(b, " (yield (id %q))", v.Yield)
		}
		b.WriteString(")")
	case *Assign:
		b.WriteString("(assign ")
		dumpExpr(b, v.Target)
		b.WriteString(" ")
		dumpExpr(b, v.E)
		b.WriteString(")")
	default:
		panic(fmt.Sprintf("expect: unknown expression %T", e))
	}
}
