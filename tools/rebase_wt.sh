#!/bin/bash
# rebase an uncommitted worktree change onto /repo main
wt="$1"; cd "$wt" || exit 1
git add -N . >/dev/null 2>&1
git diff > /tmp/rebase-$$.patch
git ls-files --others --exclude-standard > /tmp/rebase-$$.untracked
git reset -q
git diff > /tmp/rebase-$$.patch
git checkout -q -- .
git checkout -q --detach main
git apply /tmp/rebase-$$.patch && echo "rebased $wt onto $(git log --oneline | head -1 | cut -c1-7)"
rm -f /tmp/rebase-$$.patch /tmp/rebase-$$.untracked
