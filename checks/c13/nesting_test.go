package c13

import (
	"fmt"
	"strings"
	"testing"

	h "verif/harness"
)

// A literal closes only at its own closing quote at nesting depth ZERO - whatever the depth
// reached in between. Pairs of the literal's own family nested d deep (d around every power
// of two a narrow counter could wrap at), balanced / short of closers / with quotes of other
// families and siblings in between; as the first token of a text and as a whole program.

var nestDepths = []int{1, 2, 3, 15, 16, 17, 127, 128, 129, 254, 255, 256, 257, 258, 300, 511, 512, 513, 600, 1023, 1024, 1025, 32767, 32768, 32769, 65535, 65536, 65537, 70000}

func TestDeepQuoteNesting(t *testing.T) {
	opens := []rune{'“', '「', '‘', '『', '《'}
	n := 0
	for _, open := range opens {
		cl := closers[open]
		other, otherCl := '「', '」'
		if open == '「' {
			other, otherCl = '“', '”'
		}
		for _, d := range nestDepths {
			o, c := strings.Repeat(string(open), d), strings.Repeat(string(cl), d)
			srcs := map[string]string{
				"balanced":              string(open) + o + "x" + c + string(cl) + "尾”",
				"one-closer-short":      string(open) + o + "x" + c,
				"only-one-closer":       string(open) + o + "x" + string(cl),
				"other-family-between":  string(open) + o + string(other) + "x" + c + string(otherCl) + string(cl) + "尾",
				"other-family-unclosed": string(open) + o + strings.Repeat(string(other), 3) + c + string(cl) + "尾",
				"siblings":              string(open) + strings.Repeat(string(open)+"a"+string(cl), d) + string(cl) + "尾",
				"staircase":             string(open) + o + "x" + c + o + "y" + c + string(cl) + string(cl),
			}
			for shape, src := range srcs {
				n++
				fails, unspec := checkDecoder(src)
				if unspec != "" {
					continue
				}
				c := decCase{Src: src}
				if d > 300 {
					c = decCase{Src: fmt.Sprintf("<%s, family %c, depth %d>", shape, open, d)} // (kept out of the evidence file)
				}
				h.R.Case(t, "decoder", fmt.Sprintf("nest-%c-%d-%s", open, d, shape), c, []string{"own-family-nesting:" + shape}, d >= 2, fails)
			}
			// as a program: 令A = <literal> then 输出A (the parser takes “ ” and 「 」 literals as expressions)
			if (open == '“' || open == '「') && d <= 1100 {
				n++
				text := o + "x" + c
				h.R.Case(t, "roundtrip", fmt.Sprintf("nest-program-%c-%d", open, d), rtCase{Text: fmt.Sprintf("<depth %d>", d)}, []string{"own-family-nesting:program"}, true,
					checkRoundTrip(rtCase{Text: text, Literal: string(open) + text + string(cl)}))
			}
		}
	}
	h.R.Exhaustive("decoder", fmt.Sprintf("%d literals: 5 quote families x nesting depths %v x 7 shapes", n, nestDepths))
}
