// C04 - unspaced text is tokenised exactly as documented (keywords, names, numbers)
package c04

import (
	"encoding/json"
	"fmt"
	"go/ast"
	"go/parser"
	"go/token"
	"math"
	"math/big"
	"os"
	"regexp"
	"strconv"
	"strings"
	"testing"

	"github.com/DemoHn/Zn/pkg/exec"
	"github.com/DemoHn/Zn/pkg/syntax"
	"github.com/DemoHn/Zn/pkg/syntax/zh"
	"pgregory.net/rapid"

	h "verif/harness"
)

func TestMain(m *testing.M) { h.Main(m, "C04", replay) }

func repoDir() string {
	if d := os.Getenv("VERIF_REPO"); d != "" {
		return d
	}
	return "/repo"
}

// ---------------------------------------------------------------------------------------
// replay dispatch

type strCase struct {
	S string `json:"s"`
}

type cpCase struct {
	CP int `json:"cp"`
}

func replay(sub string, raw json.RawMessage) ([]h.Failure, error) {
	switch sub {
	case "segment", "constructed":
		var c strCase
		if err := json.Unmarshal(raw, &c); err != nil {
			return nil, err
		}
		f, _ := checkSegment(c.S)
		return f, nil
	case "position":
		var c posCase
		if err := json.Unmarshal(raw, &c); err != nil {
			return nil, err
		}
		return checkNamePosition(c), nil
	case "number":
		var c strCase
		if err := json.Unmarshal(raw, &c); err != nil {
			return nil, err
		}
		return checkNumber(c.S), nil
	case "alphabet":
		var c cpCase
		if err := json.Unmarshal(raw, &c); err != nil {
			return nil, err
		}
		tab, err := loadIDTable()
		if err != nil {
			return nil, err
		}
		return checkCodePoint(rune(c.CP), tab), nil
	}
	return nil, fmt.Errorf("unknown sub-check %q", sub)
}

// ---------------------------------------------------------------------------------------
// (c) identifier alphabet

type rng struct{ lo, hi rune }

// loadIDTable - extract the idRange literal from id_range.go with go/parser
func loadIDTable() ([]rng, error) {
	fset := token.NewFileSet()
	f, err := parser.ParseFile(fset, repoDir()+"/pkg/syntax/id_range.go", nil, 0)
	if err != nil {
		return nil, err
	}
	var out []rng
	ast.Inspect(f, func(n ast.Node) bool {
		vs, ok := n.(*ast.ValueSpec)
		if !ok || len(vs.Names) != 1 || vs.Names[0].Name != "idRange" || len(vs.Values) != 1 {
			return true
		}
		cl, ok := vs.Values[0].(*ast.CompositeLit)
		if !ok {
			return true
		}
		for _, e := range cl.Elts {
			pair, ok := e.(*ast.CompositeLit)
			if !ok || len(pair.Elts) != 2 {
				continue
			}
			var v [2]int64
			for i, x := range pair.Elts {
				bl, ok := x.(*ast.BasicLit)
				if !ok {
					continue
				}
				n, _ := strconv.ParseInt(bl.Value, 0, 64)
				v[i] = n
			}
			out = append(out, rng{rune(v[0]), rune(v[1])})
		}
		return false
	})
	if len(out) < 50 {
		return nil, fmt.Errorf("idRange table not found (%d entries)", len(out))
	}
	return out, nil
}

func inTable(c rune, tab []rng) bool {
	for _, r := range tab {
		if c >= r.lo && c <= r.hi {
			return true
		}
	}
	return false
}

var idContinue = []rune{'.', '*', '/', '%'}

// characters with a lexical role of their own (manual ch.1: punctuation, operators, quotes,
// back-tick, white space, line breaks, the single-character keywords); `a<c>a` is not a
// membership probe for them
var specialChars = func() map[rune]bool {
	m := map[rune]bool{}
	for _, c := range "，,、：:；;？?！!【[】]（(）){}" + "&@#=<>|" + "《》「」“”『』‘’" + "`" + "令为以其或且之的" {
		m[c] = true
	}
	for _, c := range []rune{0, '\r', '\n', 0x9, 0xB, 0xC, 0x20, 0xA0, 0x2000, 0x2001, 0x2002, 0x2003, 0x2004, 0x2005, 0x2006, 0x2007, 0x2008, 0x2009, 0x200A, 0x200B, 0x202F, 0x205F, 0x3000} {
		m[c] = true
	}
	return m
}()

func lexAll(s string) (toks []syntax.Token, err error, panicMsg string) {
	kind, msg, _ := h.Guard(func() {
		l := syntax.NewLexer([]rune(s))
		for i := 0; i < len(s)+4; i++ {
			var tk syntax.Token
			tk, err = zh.NextToken(l)
			if err != nil {
				return
			}
			if tk.Type == zh.TypeEOF {
				return
			}
			toks = append(toks, tk)
		}
	})
	if kind != "" {
		panicMsg = kind + ": " + msg
	}
	return
}

func checkCodePoint(c rune, tab []rng) []h.Failure {
	var fails []h.Failure
	want := inTable(c, tab)
	got := syntax.IdInRange(c)
	if got != want {
		fails = append(fails, h.Failure{Sig: "alphabet/lookup-mismatch", Msg: fmt.Sprintf("U+%04X: IdInRange=%v, linear scan of idRange table=%v", c, got, want)})
	}
	if specialChars[c] || (c >= 0xD800 && c <= 0xDFFF) {
		return fails
	}
	// through the lexer: a<c>a is one identifier token iff c is in the alphabet
	src := "a" + string(c) + "a"
	toks, err, pm := lexAll(src)
	isCont := false
	for _, x := range idContinue {
		if x == c {
			isCont = true
		}
	}
	accept := err == nil && pm == "" && len(toks) == 1 && toks[0].Type == zh.TypeIdentifier && string(toks[0].Literal) == src
	if pm != "" {
		fails = append(fails, h.Failure{Sig: "alphabet/lexer-panic", Msg: fmt.Sprintf("U+%04X: %s", c, pm)})
	} else if accept != (want || isCont) {
		fails = append(fails, h.Failure{Sig: "alphabet/lexer-mismatch", Msg: fmt.Sprintf("U+%04X: lexer accepts a<c>a as one identifier=%v (err=%v, %d tokens) but table membership=%v", c, accept, err, len(toks), want)})
	}
	return fails
}

func TestAlphabet(t *testing.T) {
	tab, err := loadIDTable()
	if err != nil {
		t.Fatal(err)
	}
	// table sanity: sorted and disjoint (precondition of any binary search over it)
	for i := 1; i < len(tab); i++ {
		if tab[i].lo <= tab[i-1].hi || tab[i].lo > tab[i].hi {
			h.R.Case(t, "alphabet", fmt.Sprintf("table-%d", i), map[string]any{"entry": i}, nil, false,
				[]h.Failure{{Sig: "alphabet/table-unsorted", Msg: fmt.Sprintf("idRange[%d]={%#x,%#x} after {%#x,%#x}", i, tab[i].lo, tab[i].hi, tab[i-1].lo, tab[i-1].hi)}})
		}
	}
	nt := int64(0)
	for c := rune(-2); c <= 0x110001; c++ {
		fails := checkCodePoint(c, tab)
		// non-trivial: code points adjacent to a table boundary, or inside the table
		boundary := inTable(c, tab) != inTable(c-1, tab) || inTable(c, tab) != inTable(c+1, tab)
		var labels []string
		if boundary {
			labels = append(labels, "table-boundary")
			nt++
		}
		if inTable(c, tab) {
			labels = append(labels, "in-table")
		}
		h.R.Case(t, "alphabet", strconv.Itoa(int(c)), cpCase{int(c)}, labels, boundary, fails)
	}
	h.R.Exhaustive("alphabet", "all code points -2..0x110001")
	h.R.Extra("alphabet_table_entries", len(tab))
}

// ---------------------------------------------------------------------------------------
// (b) numeric form

var numRe = regexp.MustCompile(`^([-+]?)([0-9]+)(?:\.([0-9]+))?(?:(?:[eE]([-+][0-9]+))|(?:\*(?:10)?\^([-+]?[0-9]+)))?$`)
// (several leading signs in front of a digit are the manual's own example of a malformed number)
var startsLikeNumber = regexp.MustCompile(`^[-+]*[0-9]`)

// refNumber - correctly rounded double of the decimal, via exact rational arithmetic
func refNumber(s string) (float64, bool) {
	m := numRe.FindStringSubmatch(s)
	if m == nil {
		return 0, false
	}
	digits := m[2] + m[3]
	mant, _ := new(big.Int).SetString(digits, 10)
	exp := int64(0)
	es := m[4]
	if es == "" {
		es = m[5]
	}
	if es != "" {
		e, ok := new(big.Int).SetString(es, 10)
		if !ok {
			return 0, false
		}
		if !e.IsInt64() || e.Int64() > 1<<40 || e.Int64() < -(1<<40) {
			// astronomically large exponent: decided arithmetically
			if mant.Sign() == 0 {
				exp = 0
			} else if e.Sign() > 0 {
				exp = 1 << 40
			} else {
				exp = -(1 << 40)
			}
		} else {
			exp = e.Int64()
		}
	}
	exp -= int64(len(m[3]))
	var f float64
	switch {
	case mant.Sign() == 0:
		f = 0
	case exp > 400+0:
		// mant >= 1, so value >= 10^exp > max double
		f = math.Inf(1)
	case exp < -(int64(len(digits)) + 400):
		f = 0
	default:
		r := new(big.Rat).SetInt(mant)
		p := new(big.Int).Exp(big.NewInt(10), big.NewInt(abs64(exp)), nil)
		if exp >= 0 {
			r.Mul(r, new(big.Rat).SetInt(p))
		} else {
			r.Quo(r, new(big.Rat).SetInt(p))
		}
		f, _ = r.Float64()
	}
	if m[1] == "-" {
		f = -f
	}
	return f, true
}

func abs64(x int64) int64 {
	if x < 0 {
		return -x
	}
	return x
}

func checkNumber(s string) []h.Failure {
	id := &syntax.ID{}
	id.SetLiteral([]rune(s))
	var it interface{ GetLiteral() string }
	var err error
	kind, msg, site := h.Guard(func() {
		it, err = exec.MatchIDType(id)
	})
	if kind != "" {
		return []h.Failure{{Sig: "number/" + kind + "@" + site, Msg: fmt.Sprintf("%q: %s", s, msg)}}
	}
	want, isNum := refNumber(s)
	like := startsLikeNumber.MatchString(s)
	switch {
	case isNum:
		if err != nil {
			return []h.Failure{{Sig: "number/valid-rejected", Msg: fmt.Sprintf("%q has the documented numeric form but is rejected: %v", s, err)}}
		}
		n, ok := it.(interface{ GetValue() float64 })
		if !ok {
			return []h.Failure{{Sig: "number/valid-as-name", Msg: fmt.Sprintf("%q has the documented numeric form but is classified as a name", s)}}
		}
		if math.Float64bits(n.GetValue()) != math.Float64bits(want) {
			return []h.Failure{{Sig: "number/wrong-value", Msg: fmt.Sprintf("%q: value %v (%#x), correctly rounded double is %v (%#x)", s, n.GetValue(), math.Float64bits(n.GetValue()), want, math.Float64bits(want))}}
		}
	case like:
		if err == nil {
			return []h.Failure{{Sig: "number/malformed-accepted", Msg: fmt.Sprintf("%q starts like a number but is not one; it must be rejected, got %T %v", s, it, it)}}
		}
	default:
		if err != nil {
			return []h.Failure{{Sig: "number/name-rejected", Msg: fmt.Sprintf("%q does not start like a number and must be a name; rejected with %v", s, err)}}
		}
		if _, ok := it.(interface{ GetValue() float64 }); ok {
			return []h.Failure{{Sig: "number/name-as-number", Msg: fmt.Sprintf("%q classified as number", s)}}
		}
	}
	return nil
}

var numAlphabet = []byte{'0', '1', '7', '+', '-', '.', 'e', 'E', '*', '^', 'x'}

func TestNumberExhaustive(t *testing.T) {
	maxLen := h.Scale(6, 8)
	shard, nsh := h.Shard(), h.NShards()
	k := len(numAlphabet)
	var total, nontriv int64
	buf := make([]byte, 0, maxLen)
	for L := 0; L <= maxLen; L++ {
		n := 1
		for i := 0; i < L; i++ {
			n *= k
		}
		for idx := shard; idx < n; idx += nsh {
			buf = buf[:0]
			x := idx
			for i := 0; i < L; i++ {
				buf = append(buf, numAlphabet[x%k])
				x /= k
			}
			s := string(buf)
			total++
			fails := checkNumber(s)
			like := startsLikeNumber.MatchString(s)
			if like {
				nontriv++
			}
			if len(fails) > 0 || (like && (idx%200003 == 0)) {
				h.R.Case(t, "number", s, strCase{s}, []string{"exhaustive-sampled"}, like, fails)
			}
		}
	}
	h.R.Count("number-exhaustive-strings", total)
	h.R.AddEvals(total)
	h.R.AddDistinct(nontriv)
	h.R.Exhaustive("number", fmt.Sprintf("all strings over %q up to length %d (shard %d/%d)", string(numAlphabet), maxLen, shard, nsh))
}

func genNumberish() *rapid.Generator[string] {
	digits := rapid.StringMatching(`[0-9]{1,25}`)
	return rapid.Custom(func(t *rapid.T) string {
		var b strings.Builder
		b.WriteString(rapid.SampledFrom([]string{"", "", "-", "+"}).Draw(t, "sign"))
		b.WriteString(digits.Draw(t, "int"))
		if rapid.Bool().Draw(t, "frac") {
			b.WriteString(".")
			b.WriteString(digits.Draw(t, "fd"))
		}
		switch rapid.IntRange(0, 3).Draw(t, "exp") {
		case 1:
			b.WriteString(rapid.SampledFrom([]string{"e", "E"}).Draw(t, "e"))
			b.WriteString(rapid.SampledFrom([]string{"+", "-"}).Draw(t, "es"))
			b.WriteString(rapid.StringMatching(`[0-9]{1,4}`).Draw(t, "ed"))
		case 2:
			b.WriteString(rapid.SampledFrom([]string{"*10^", "*^"}).Draw(t, "star"))
			b.WriteString(rapid.SampledFrom([]string{"", "+", "-"}).Draw(t, "es"))
			b.WriteString(rapid.StringMatching(`[0-9]{1,4}`).Draw(t, "ed"))
		}
		s := b.String()
		// mutate: 0..2 edits with characters of the numeric alphabet
		n := rapid.IntRange(0, 2).Draw(t, "edits")
		rs := []byte(s)
		for i := 0; i < n && len(rs) > 0; i++ {
			pos := rapid.IntRange(0, len(rs)-1).Draw(t, "pos")
			switch rapid.IntRange(0, 2).Draw(t, "op") {
			case 0:
				rs = append(rs[:pos], rs[pos+1:]...)
			case 1:
				c := rapid.SampledFrom([]byte("0123456789+-.eE*^xkg")).Draw(t, "c")
				rs = append(rs[:pos], append([]byte{c}, rs[pos:]...)...)
			case 2:
				rs[pos] = rapid.SampledFrom([]byte("0123456789+-.eE*^xkg")).Draw(t, "c")
			}
		}
		return string(rs)
	})
}

func TestNumberRandom(t *testing.T) {
	rapid.Check(t, func(t *rapid.T) {
		s := genNumberish().Draw(t, "s")
		_, isNum := refNumber(s)
		labels := []string{"random-numeral"}
		if isNum {
			labels = append(labels, "valid-numeral")
		} else if startsLikeNumber.MatchString(s) {
			labels = append(labels, "malformed-numeral")
		}
		h.R.Case(t, "number", s, strCase{s}, labels, len(s) > 6, checkNumber(s))
	})
}

// ---------------------------------------------------------------------------------------
// (a) segmentation

// the manual's keyword table (ch.1) with the token type documented for each word
var keywords = []struct {
	w string
	t uint8
}{
	{"令", zh.TypeDeclareW}, {"为", zh.TypeLogicYesW}, {"以", zh.TypeVarOneW}, {"其", zh.TypeObjThisW},
	{"或", zh.TypeLogicOrW}, {"且", zh.TypeLogicAndW}, {"之", zh.TypeObjDotW}, {"的", zh.TypeObjDotIIW},
	{"设为", zh.TypeAssignW}, {"恒为", zh.TypeAssignConstW}, {"新建", zh.TypeObjNewW}, {"何为", zh.TypeGetterW},
	{"不为", zh.TypeLogicNoW}, {"如果", zh.TypeCondW}, {"再如", zh.TypeCondOtherW}, {"输出", zh.TypeReturnW},
	{"如何", zh.TypeFuncW}, {"拦截", zh.TypeCatchErrorW}, {"导入", zh.TypeImportW}, {"定义", zh.TypeObjDefineW},
	{"得到", zh.TypeGetResultW}, {"输入", zh.TypeInputW}, {"否则", zh.TypeCondElseW}, {"每当", zh.TypeWhileLoopW},
	{"遍历", zh.TypeIteratorW}, {"等于", zh.TypeLogicEqualW}, {"大于", zh.TypeLogicGtW}, {"小于", zh.TypeLogicLtW},
	{"抛出", zh.TypeThrowErrorW}, {"不等于", zh.TypeLogicNotEqW}, {"不大于", zh.TypeLogicLteW}, {"不小于", zh.TypeLogicGteW},
	{"继续循环", zh.TypeContinueW}, {"结束循环", zh.TypeBreakW},
}

func keywordAt(rs []rune, i int) (string, uint8, bool) {
	for _, kw := range keywords {
		w := []rune(kw.w)
		if i+len(w) <= len(rs) && string(rs[i:i+len(w)]) == kw.w {
			return kw.w, kw.t, true
		}
	}
	return "", 0, false
}

type rtok struct {
	Type       uint8
	Lit        string
	Start, End int
}

func (t rtok) String() string {
	return fmt.Sprintf("(%d %q %d-%d)", t.Type, t.Lit, t.Start, t.End)
}

var idTable []rng

func isIDChar(c rune) bool {
	if idTable == nil {
		tab, err := loadIDTable()
		if err != nil {
			panic(err)
		}
		idTable = tab
	}
	return inTable(c, idTable)
}

func isCont(c rune) bool { return c == '.' || c == '*' || c == '/' || c == '%' }

// refSegment - the manual's segmentation rule, written with plain string matching.
// Returns the tokens before the first error, whether an error is expected, and a reason
// when the statement does not determine the outcome (case is then skipped).
func refSegment(s string) (toks []rtok, wantErr bool, unspecified string) {
	rs := []rune(s)
	i := 0
	n := len(rs)
	for {
		for i < n && rs[i] == ' ' {
			i++
		}
		if i >= n {
			return
		}
		c := rs[i]
		next := rune(0)
		if i+1 < n {
			next = rs[i+1]
		}
		// comments
		if c == '/' && next == '/' {
			toks = append(toks, rtok{zh.TypeComment, "", i, n})
			return
		}
		if c == '/' && next == '*' {
			j := i + 2
			end := n
			for ; j+1 < n; j++ {
				if rs[j] == '*' && rs[j+1] == '/' {
					end = j + 2
					break
				}
			}
			toks = append(toks, rtok{zh.TypeComment, "", i, end})
			i = end
			continue
		}
		// back-ticked identifier
		if c == '`' {
			j := i + 1
			for j < n && rs[j] != '`' {
				if !(isIDChar(rs[j]) || isCont(rs[j])) {
					return toks, true, ""
				}
				j++
			}
			if j >= n {
				return toks, true, "" // unterminated
			}
			if j == i+1 {
				return toks, false, "empty back-tick identifier"
			}
			toks = append(toks, rtok{zh.TypeIdentifier, string(rs[i+1 : j]), i, j + 1})
			i = j + 1
			continue
		}
		if c == '%' {
			toks = append(toks, rtok{zh.TypeModuloMark, "", i, i + 1})
			i++
			continue
		}
		if c == '+' || c == '-' || c == '*' || c == '/' {
			if next == ' ' {
				ty := map[rune]uint8{'+': zh.TypePlus, '-': zh.TypeMinus, '*': zh.TypeMultiply, '/': zh.TypeDivision}[c]
				toks = append(toks, rtok{ty, "", i, i + 1})
				i++
				continue
			}
			if c == '*' || c == '/' {
				return toks, true, "" // cannot start an identifier
			}
		}
		if c == '.' {
			return toks, true, ""
		}
		if _, ty, ok := keywordAt(rs, i); ok {
			w, _, _ := keywordAt(rs, i)
			toks = append(toks, rtok{ty, "", i, i + len([]rune(w))})
			i += len([]rune(w))
			continue
		}
		// identifier: maximal run up to the next keyword / space / comment start
		j := i + 1
		for j < n {
			d := rs[j]
			if d == ' ' {
				break
			}
			if _, _, ok := keywordAt(rs, j); ok {
				break
			}
			if d == '/' && j+1 < n && (rs[j+1] == '/' || rs[j+1] == '*') {
				break
			}
			if d == '`' {
				return toks, false, "back-tick inside an identifier"
			}
			j++
		}
		if rs[j-1] == '/' {
			return toks, true, ""
		}
		toks = append(toks, rtok{zh.TypeIdentifier, string(rs[i:j]), i, j})
		i = j
	}
}

func checkSegment(s string) ([]h.Failure, string) {
	want, wantErr, unspec := refSegment(s)
	if unspec != "" {
		return nil, unspec
	}
	got, err, pm := lexAll(s)
	if pm != "" {
		return []h.Failure{{Sig: "segment/lexer-panic", Msg: fmt.Sprintf("%q: %s", s, pm)}}, ""
	}
	var gots []rtok
	for _, tk := range got {
		lit := ""
		if tk.Type == zh.TypeIdentifier {
			lit = string(tk.Literal)
		}
		gots = append(gots, rtok{tk.Type, lit, tk.StartIdx, tk.EndIdx})
	}
	describe := func() string {
		return fmt.Sprintf("source %q\n  documented segmentation: %v error=%v\n  NextToken sequence:      %v error=%v", s, want, wantErr, gots, err)
	}
	if wantErr != (err != nil) {
		sig := "segment/accepted-invalid"
		if err != nil {
			sig = "segment/rejected-valid"
		}
		return []h.Failure{{Sig: sig, Msg: describe()}}, ""
	}
	// tokens before the error (or all tokens) must agree
	if len(want) != len(gots) {
		return []h.Failure{{Sig: "segment/token-mismatch", Msg: describe()}}, ""
	}
	for i := range want {
		if want[i] != gots[i] {
			return []h.Failure{{Sig: "segment/token-mismatch", Msg: describe()}}, ""
		}
	}
	return nil, ""
}

var plainLetters = []string{"价", "格", "数", "量", "手", "机", "游", "所", "a", "b", "X", "z", "α", "ω", "フ", "ラ", "あ", "한", "글", "注", "0", "1", "2", "5", "9", "_"}
var glyphChars = []string{"令", "为", "以", "其", "或", "且", "之", "的", "设", "恒", "新", "建", "何", "不", "如", "果", "再", "输", "出", "拦", "截", "导", "入", "定", "义", "得", "到", "否", "则", "每", "当", "遍", "历", "等", "于", "大", "小", "抛", "继", "续", "循", "环", "结", "束"}
var fragments = []string{"不大", "结束循", "如如果", "不等于于", "继续循环", "结束循环", "不小于", "不大于", "输入", "输出", "大于", "何为", "不为", "再如", "如何", "继续循", "不等", "等于"}
var opChars = []string{"+", "-", "*", "/", ".", "%", " ", " ", "`"}

func genSegmentString() *rapid.Generator[string] {
	piece := rapid.OneOf(
		rapid.SampledFrom(plainLetters),
		rapid.SampledFrom(plainLetters),
		rapid.SampledFrom(glyphChars),
		rapid.SampledFrom(fragments),
		rapid.SampledFrom(opChars),
		rapid.Map(rapid.IntRange(0, len(keywords)-1), func(i int) string { return keywords[i].w }),
	)
	return rapid.Custom(func(t *rapid.T) string {
		ps := rapid.SliceOfN(piece, 1, 14).Draw(t, "pieces")
		// leading white space is indentation (a different rule, manual ch.1), not token spacing
		s := strings.TrimLeft(strings.Join(ps, ""), " ")
		rs := []rune(s)
		if len(rs) > 40 {
			rs = rs[:40]
		}
		return string(rs)
	})
}

func segLabels(s string) (labels []string, nontrivial bool) {
	rs := []rune(s)
	for i := range rs {
		if w, _, ok := keywordAt(rs, i); ok {
			l := len([]rune(w))
			before := i > 0 && rs[i-1] != ' '
			after := i+l < len(rs) && rs[i+l] != ' '
			if before || after {
				nontrivial = true
			}
			labels = append(labels, fmt.Sprintf("kw-len%d", l))
			break
		}
	}
	if strings.Contains(s, "`") {
		labels = append(labels, "backtick")
	}
	if strings.ContainsAny(s, "+-*/") {
		labels = append(labels, "operator-char")
	}
	return
}

func TestSegmentRandom(t *testing.T) {
	rapid.Check(t, func(t *rapid.T) {
		s := genSegmentString().Draw(t, "s")
		fails, unspec := checkSegment(s)
		if unspec != "" {
			h.R.Skip("segment: " + unspec)
			return
		}
		labels, nt := segLabels(s)
		_, wantErr, _ := refSegment(s)
		if wantErr {
			labels = append(labels, "expected-reject")
		}
		h.R.Case(t, "segment", s, strCase{s}, labels, nt, fails)
	})
}

// constructed: a drawn token sequence concatenated with the minimum spacing the rules
// require must come back unchanged (oracle independent of refSegment)
type ctok struct {
	kind string // kw | id | op | bt
	text string
	typ  uint8
}

func TestSegmentConstructed(t *testing.T) {
	safeLetters := []string{"价", "格", "数", "量", "手", "机", "a", "b", "X", "α", "フ", "あ", "한", "注", "_", "7", "3"}
	rapid.Check(t, func(t *rapid.T) {
		n := rapid.IntRange(1, 9).Draw(t, "n")
		var seq []ctok
		for i := 0; i < n; i++ {
			switch rapid.IntRange(0, 9).Draw(t, "kind") {
			case 0, 1, 2, 3:
				kw := keywords[rapid.IntRange(0, len(keywords)-1).Draw(t, "kw")]
				seq = append(seq, ctok{"kw", kw.w, kw.t})
			case 4, 5, 6:
				parts := rapid.SliceOfN(rapid.SampledFrom(safeLetters), 1, 4).Draw(t, "id")
				id := strings.Join(parts, "")
				// optional inner operator characters, never leading * / nor trailing /
				if rapid.Bool().Draw(t, "inner") {
					id = id + rapid.SampledFrom([]string{"+", "-", "*", "/", ".", "%"}).Draw(t, "ic") + rapid.SampledFrom(safeLetters).Draw(t, "tail")
				}
				seq = append(seq, ctok{"id", id, zh.TypeIdentifier})
			case 7:
				op := rapid.SampledFrom([]string{"+", "-", "*", "/"}).Draw(t, "op")
				ty := map[string]uint8{"+": zh.TypePlus, "-": zh.TypeMinus, "*": zh.TypeMultiply, "/": zh.TypeDivision}[op]
				seq = append(seq, ctok{"op", op, ty})
			case 8:
				seq = append(seq, ctok{"op", "%", zh.TypeModuloMark})
			case 9:
				// back-ticked identifier containing keyword glyphs
				inner := rapid.SampledFrom([]string{"游所为的手机", "不大于", "以", "如果x", "结束循环"}).Draw(t, "bt")
				seq = append(seq, ctok{"bt", inner, zh.TypeIdentifier})
			}
		}
		var b strings.Builder
		var want []rtok
		pos := 0
		tight := 0
		for i, tk := range seq {
			needSpace := false
			if i > 0 {
				prev := seq[i-1]
				switch {
				case prev.kind == "op" && prev.text != "%":
					needSpace = true // + - * / are operators only before a space
				case prev.kind == "id" && (tk.kind == "id" || tk.kind == "op" || tk.kind == "bt"):
					needSpace = true // would extend the identifier (bt: unspecified)
				case prev.kind == "op" && prev.text == "%":
					needSpace = false
				}
				if tk.kind == "op" && tk.text != "%" && prev.kind != "id" {
					// operator directly after keyword/backtick/%: allowed without space
				}
				if !needSpace && rapid.IntRange(0, 3).Draw(t, "sp") == 0 {
					needSpace = true
				} else if !needSpace {
					tight++
				}
			}
			if needSpace {
				b.WriteString(" ")
				pos++
			}
			text := tk.text
			lit := ""
			if tk.kind == "bt" {
				text = "`" + tk.text + "`"
				lit = tk.text
			} else if tk.kind == "id" {
				lit = tk.text
			}
			l := len([]rune(text))
			want = append(want, rtok{tk.typ, lit, pos, pos + l})
			b.WriteString(text)
			pos += l
		}
		// a trailing + - * / needs a following space to be an operator
		if last := seq[len(seq)-1]; last.kind == "op" && last.text != "%" {
			b.WriteString(" ")
		}
		s := b.String()
		got, err, pm := lexAll(s)
		var fails []h.Failure
		var gots []rtok
		for _, tk := range got {
			lit := ""
			if tk.Type == zh.TypeIdentifier {
				lit = string(tk.Literal)
			}
			gots = append(gots, rtok{tk.Type, lit, tk.StartIdx, tk.EndIdx})
		}
		ok := err == nil && pm == "" && len(gots) == len(want)
		if ok {
			for i := range want {
				if want[i] != gots[i] {
					ok = false
				}
			}
		}
		if !ok {
			fails = append(fails, h.Failure{Sig: "constructed/roundtrip-mismatch", Msg: fmt.Sprintf("source %q\n  constructed from: %v\n  NextToken gives:  %v err=%v %s", s, want, gots, err, pm)})
		}
		labels := []string{"constructed"}
		if tight > 0 {
			labels = append(labels, "tight-adjacency")
		}
		h.R.Case(t, "constructed", s, strCase{s}, labels, tight > 0 && len(seq) >= 2, fails)
	})
}

func TestCorpus(t *testing.T) { h.RunCorpus(t, "c04", replay) }
