// C18 - errors point at the line and call chain where they arose
package c18

import (
	"encoding/json"
	"fmt"
	"regexp"
	"strconv"
	"strings"
	"testing"

	"pgregory.net/rapid"

	h "verif/harness"
	"verif/zn"
)

func TestMain(m *testing.M) { h.Main(m, "C18", replay) }

// frame - one expected entry of the call chain (outermost first)
type frame struct {
	Module string `json:"module"` // "" = main module
	Line   int    `json:"line"`   // 1-based physical line
	Text   string `json:"text"`   // the source line (indentation stripped)
}

// AltTail (optional): for a call that never starts its callee's body, a report may end at the
// call statement or add the callee at the line of its declaration - both name the place
type rtCase struct {
	AltTail *frame            `json:"alt_tail,omitempty"`
	Src     string            `json:"src"`
	Modules map[string]string `json:"modules,omitempty"`
	Chain   []frame           `json:"chain"`
	Fault   string            `json:"fault"`
}

type synCase struct {
	Src  string `json:"src"`
	Line int    `json:"line"` // 1-based physical line of the offending character
	Col  int    `json:"col"`  // display column of the caret (width of the characters before it)
	Text string `json:"text"` // quoted line, indentation stripped
	Kind string `json:"kind"`
}

func replay(sub string, raw json.RawMessage) ([]h.Failure, error) {
	switch sub {
	case "runtime":
		var c rtCase
		if err := json.Unmarshal(raw, &c); err != nil {
			return nil, err
		}
		return checkRuntime(c), nil
	case "syntax":
		var c synCase
		if err := json.Unmarshal(raw, &c); err != nil {
			return nil, err
		}
		return checkSyntax(c), nil
	}
	return nil, fmt.Errorf("unknown sub-check %q", sub)
}

// ---------------------------------------------------------------------------------------
// parsing of the rendered error

var (
	headMain = regexp.MustCompile(`^在主模块中，位于第 (\d+) 行发生异常：$`)
	headMod  = regexp.MustCompile(`^在模块“(.+)”中，位于第 (\d+) 行发生异常：$`)
	bodyMain = regexp.MustCompile(`^来自主模块，第 (\d+) 行：$`)
	bodyMod  = regexp.MustCompile(`^来自“(.+)”模块，第 (\d+) 行：$`)
)

// parseChain - location entries of a rendered runtime error, native entries dropped
func parseChain(text string) (chain []frame, ok bool) {
	lines := strings.Split(text, "\n")
	for i := 0; i < len(lines); i++ {
		ln := lines[i]
		var f *frame
		if m := headMain.FindStringSubmatch(ln); m != nil {
			n, _ := strconv.Atoi(m[1])
			f = &frame{Module: "", Line: n}
		} else if m := headMod.FindStringSubmatch(ln); m != nil {
			n, _ := strconv.Atoi(m[2])
			f = &frame{Module: m[1], Line: n}
		} else if m := bodyMain.FindStringSubmatch(ln); m != nil {
			n, _ := strconv.Atoi(m[1])
			f = &frame{Module: "", Line: n}
		} else if m := bodyMod.FindStringSubmatch(ln); m != nil {
			n, _ := strconv.Atoi(m[2])
			f = &frame{Module: m[1], Line: n}
		} else if strings.Contains(ln, "<内置模块>") {
			i++ // its "[ --内部程序-- ]" line
			continue
		}
		if f != nil {
			if i+1 < len(lines) && strings.HasPrefix(lines[i+1], "    ") {
				f.Text = strings.TrimPrefix(lines[i+1], "    ")
				i++
			}
			chain = append(chain, *f)
		}
	}
	return chain, len(chain) > 0
}

func checkRuntime(c rtCase) []h.Failure {
	o := h.Run(c.Src, h.Opts{Modules: c.Modules, EvalTicks: 200000})
	ctx := "program:\n" + numbered(c.Src)
	for n, m := range c.Modules {
		ctx += "\n--- module " + n + ":\n" + numbered(m)
	}
	switch o.Kind {
	case h.KPanic:
		return []h.Failure{{Sig: "runtime/go-panic@" + o.PanicSite, Msg: ctx + "\n" + o.PanicMsg}}
	case h.KBudget, h.KNil:
		return []h.Failure{{Sig: "runtime/" + o.Kind, Msg: ctx}}
	case h.KValue:
		return []h.Failure{{Sig: "runtime/fault-not-reported", Msg: fmt.Sprintf("%s\nthe planted fault (%s) must end the program with an error; got %s", ctx, c.Fault, o.Short())}}
	}
	got, ok := parseChain(o.Display)
	if !ok {
		return []h.Failure{{Sig: "runtime/no-location", Msg: fmt.Sprintf("%s\nthe reported error names no location:\n%s", ctx, o.Display)}}
	}
	want := c.Chain
	if c.AltTail != nil && len(got) == len(want)+1 {
		want = append(append([]frame{}, want...), *c.AltTail)
	}
	describe := func() string {
		return fmt.Sprintf("%s\nfault: %s\nexpected chain (outermost first): %s\nreported:\n%s", ctx, c.Fault, fmtChain(want), o.Display)
	}
	if len(got) != len(want) {
		sig := "runtime/chain-too-long"
		if len(got) < len(want) {
			sig = "runtime/chain-too-short"
		}
		return []h.Failure{{Sig: sig, Msg: describe()}}
	}
	for i := range want {
		if got[i].Module != want[i].Module {
			return []h.Failure{{Sig: "runtime/wrong-module", Msg: describe()}}
		}
		if got[i].Line != want[i].Line {
			sig := "runtime/wrong-call-site-line"
			if i == len(want)-1 {
				sig = "runtime/wrong-fault-line"
			}
			return []h.Failure{{Sig: sig, Msg: describe()}}
		}
		if got[i].Text != want[i].Text {
			return []h.Failure{{Sig: "runtime/wrong-quoted-line", Msg: describe()}}
		}
	}
	return nil
}

func fmtChain(fs []frame) string {
	var parts []string
	for _, f := range fs {
		m := f.Module
		if m == "" {
			m = "main"
		}
		parts = append(parts, fmt.Sprintf("%s:%d %q", m, f.Line, f.Text))
	}
	return strings.Join(parts, " -> ")
}

var eolRe = regexp.MustCompile(`\r\n|\n\r|\r|\n`)

func physLines(src string) []string { return eolRe.Split(src, -1) }

func numbered(src string) string {
	var b strings.Builder
	for i, ln := range physLines(src) {
		fmt.Fprintf(&b, "%3d| %s\n", i+1, ln)
	}
	return b.String()
}

// ---------------------------------------------------------------------------------------
// generator: a call chain across functions / methods / modules with one planted fault

type gen struct {
	t         *rapid.T
	labels    map[string]bool
	n         int
	arityDecl *zn.FuncDef // declaration of the method called with a wrong argument count
	lineKey   zn.Stmt     // the reported line of the planted fault is the line of THIS node (a later line of the statement)
	extraTail zn.Stmt     // one more frame below the planted statement: the callee's, at the line of this statement
}

func (g *gen) pick(n int, w string) int { return rapid.IntRange(0, n-1).Draw(g.t, w) }

func show(es ...zn.Expr) zn.Stmt { return &zn.ExprStmt{E: &zn.Call{Name: "显示", Args: es}} }
func num(f float64) zn.Expr      { return &zn.Num{Val: f} }
func v(n string) zn.Expr         { return &zn.Var{Name: n} }

// filler - statements that shift line numbers: multi-line literals, bracket continuations
// (through the layout policy), comments, completed calls, handled exceptions
func (g *gen) filler(inFunc bool) []zn.Stmt {
	var out []zn.Stmt
	for i, n := 0, g.pick(4, "nfill"); i < n; i++ {
		g.n++
		switch g.pick(11, "fk") {
		case 10:
			// calls ended by a loop signal raised in their own handler
			out = append(out, &zn.ForEach{Names: []string{fmt.Sprintf("跳值%d", g.n)}, E: &zn.ListLit{Items: []zn.Expr{num(1), num(2)}}, Body: []zn.Stmt{&zn.ExprStmt{E: &zn.Call{Name: "跳"}}}})
			g.labels["call-left-by-loop-signal-in-handler-before"] = true
		case 9:
			// a call whose own handler raised again, caught one level further out: all of it
			// has returned before the planted fault
			out = append(out, show(&zn.Call{Name: "外稳", Args: []zn.Expr{num(float64(g.n))}}))
			g.labels["rethrown-and-handled-before"] = true
		case 8:
			// a call ended by 结束循环 travelling to the caller's loop: it has returned
			out = append(out, &zn.While{Cond: &zn.BoolLit{V: true}, Body: []zn.Stmt{&zn.ExprStmt{E: &zn.Call{Name: "停"}}}})
			g.labels["call-left-by-loop-signal-before"] = true
		case 0:
			out = append(out, show(&zn.RawStr{Src: "“第一行\n第二行\n第三行”", Val: "第一行\n第二行\n第三行"}))
			g.labels["multi-line-literal"] = true
		case 1:
			out = append(out, show(&zn.RawStr{Src: "“甲`\n乙”", Val: "甲`\n乙"}))
			g.labels["backtick-before-line-break"] = true
		case 2:
			out = append(out, &zn.Let{Names: []string{fmt.Sprintf("填%d", g.n)}, E: &zn.ListLit{Items: []zn.Expr{num(1), num(2), &zn.DictLit{Keys: []string{"a", "b"}, Vals: []zn.Expr{num(3), num(4)}}}}})
		case 3:
			out = append(out, &zn.Comment{Text: "说明文字"})
		case 4:
			out = append(out, show(&zn.Call{Name: "完成", Args: []zn.Expr{num(float64(g.n))}}))
			g.labels["completed-call-before"] = true
		case 5:
			out = append(out, show(&zn.Call{Name: "稳妥", Args: []zn.Expr{num(float64(g.n))}}))
			g.labels["handled-exception-before"] = true
		case 6:
			out = append(out, &zn.If{Conds: []zn.Expr{&zn.BoolLit{V: true}}, Blocks: [][]zn.Stmt{{show(&zn.Str{V: "宽字符文本"})}}})
		default:
			out = append(out, show(&zn.RawStr{Src: "“行一\r\n行二”", Val: "行一\r\n行二"}))
			g.labels["multi-line-literal"] = true
		}
	}
	return out
}

// faultStmt - the planted fault: pre (declarations it needs), act (the statement the report
// must name) and a description
func (g *gen) faultStmt() ([]zn.Stmt, zn.Stmt, string) {
	g.n++
	cnt := fmt.Sprintf("计%d", g.n)
	div := func(den zn.Expr) zn.Expr {
		return &zn.Bin{Op: ">", L: &zn.Bin{Op: "/", L: num(10), R: &zn.Grp{E: den}}, R: num(0)}
	}
	switch g.pick(24, "fault") {
	case 23, 22:
		// an expression standing as a statement whose top-level operator stands on a later
		// line than its first token (the left operand is bracketed and may be broken over
		// lines): the statement is the line it BEGINS on
		g.labels["fault-in-expression-statement-with-bracketed-left-operand"] = true
		left := &zn.Grp{E: &zn.Bin{Op: "+", L: &zn.Index{Root: &zn.ListLit{Items: []zn.Expr{num(1), num(2), num(3)}}, Idx: num(2)}, R: &zn.Call{Name: "完成", Args: []zn.Expr{num(4)}}}}
		switch g.pick(4, "xop") {
		case 0:
			return nil, &zn.ExprStmt{E: &zn.Bin{Op: "/", L: left, R: num(0)}}, "division by zero, the divisor after a bracketed left operand"
		case 1:
			return nil, &zn.ExprStmt{E: &zn.Bin{Op: "+", L: left, R: &zn.Str{V: "文"}}}, "number + text after a bracketed left operand"
		case 2:
			return nil, &zn.ExprStmt{E: &zn.Bin{Op: ">", L: left, R: &zn.Str{V: "文"}}}, "ordering of a number and a text after a bracketed left operand"
		default:
			return nil, &zn.ExprStmt{E: &zn.Bin{Op: "且", L: &zn.Grp{E: &zn.Bin{Op: "==", L: left, R: num(6)}}, R: num(1)}}, "且 with a number after a bracketed left operand"
		}
	case 21:
		// an object creation standing as a statement of its own, a fault in one of its arguments
		g.labels["fault-in-argument-of-object-creation-statement"] = true
		cn := fmt.Sprintf("造类%d", g.n)
		return []zn.Stmt{&zn.ClassDef{Name: cn, Props: []zn.Prop{{Name: "值", Init: num(0)}}}, &zn.CtorDef{Class: cn, Params: []string{"参"}, Body: []zn.Stmt{&zn.ExprStmt{E: &zn.Assign{Target: &zn.This{Name: "值"}, E: v("参")}}}}},
			&zn.ExprStmt{E: &zn.New{Class: cn, Args: []zn.Expr{&zn.Bin{Op: "/", L: num(1), R: num(0)}}}}, "division by zero in an argument of an object creation that is a statement of its own"
	case 20:
		// ... and a fault inside the constructor it calls: the creation's line is the call site
		g.labels["fault-in-constructor-of-object-creation-statement"] = true
		cn := fmt.Sprintf("构类%d", g.n)
		bad := &zn.Let{Names: []string{"坏构"}, E: &zn.Bin{Op: "/", L: v("参"), R: num(0)}}
		g.extraTail = bad
		return []zn.Stmt{&zn.ClassDef{Name: cn, Props: []zn.Prop{{Name: "值", Init: num(0)}}}, &zn.CtorDef{Class: cn, Params: []string{"参"}, Body: []zn.Stmt{show(&zn.Str{V: "构造中"}), bad}}},
			&zn.ExprStmt{E: &zn.New{Class: cn, Args: []zn.Expr{num(7)}}}, "division by zero inside the constructor called by an object creation that is a statement of its own"
	case 19:
		// the condition of a later 再如 branch fails: reported at the line of THAT branch
		g.labels["fault-in-else-if-condition"] = true
		ifs := &zn.If{Conds: []zn.Expr{&zn.BoolLit{V: false}, &zn.Bin{Op: ">", L: num(1), R: num(2)}, div(num(0))},
			Blocks: [][]zn.Stmt{{show(&zn.Str{V: "到不了"})}, {show(&zn.Str{V: "到不了"})}, {show(&zn.Str{V: "到不了"})}}}
		g.lineKey = &ifs.Conds[2]
		return nil, ifs, "division by zero in the condition of the second 再如 branch"
	case 18:
		// a fault inside a handler, after the handled fault: reported at the handler's line; the
		// handled fault's line is history
		g.labels["fault-inside-handler"] = true
		fn := fmt.Sprintf("内拦%d", g.n)
		bad := &zn.Let{Names: []string{"坏二"}, E: &zn.Index{Root: &zn.ListLit{Items: []zn.Expr{num(1)}}, Idx: num(5)}}
		g.extraTail = bad
		decl := &zn.FuncDef{Name: fn, Params: []string{"参"}, Body: []zn.Stmt{show(&zn.Str{V: "先"}), &zn.Let{Names: []string{"坏一"}, E: &zn.Bin{Op: "/", L: num(1), R: num(0)}}},
			Catches: []zn.Catch{{Class: "异常", Body: []zn.Stmt{show(&zn.Str{V: "处理中"}), bad}}}}
		return []zn.Stmt{decl}, show(&zn.Call{Name: fn, Args: []zn.Expr{num(1)}}), "index error inside the handler of a method (after a handled division by zero)"
	case 17:
		// the statement spans lines (a text with line breaks comes first): it is reported at
		// its first line, whose text ends inside the literal
		g.labels["fault-statement-starts-with-multi-line-text"] = true
		return nil, show(&zn.RawStr{Src: "“头一行\n次行”", Val: "头一行\n次行"}, &zn.Bin{Op: "/", L: num(1), R: num(0)}), "division by zero after a multi-line text in the same statement"
	case 16:
		// a statement that only reads a property
		g.labels["fault-in-property-statement"] = true
		cn, on := fmt.Sprintf("属类%d", g.n), fmt.Sprintf("属物%d", g.n)
		return []zn.Stmt{&zn.ClassDef{Name: cn, Props: []zn.Prop{{Name: "值", Init: num(0)}}}, &zn.Let{Names: []string{on}, E: &zn.New{Class: cn}}},
			&zn.ExprStmt{E: &zn.Member{Root: v(on), Name: "无此属性"}}, "unknown property read by a statement of its own"
	case 15:
		// wrong number of arguments for a method of a class: none of its body runs
		g.labels["fault-argument-count-of-class-method"] = true
		cn, on := fmt.Sprintf("参类%d", g.n), fmt.Sprintf("参物%d", g.n)
		cd := &zn.ClassDef{Name: cn, Props: []zn.Prop{{Name: "值", Init: num(0)}, {Name: "次", Init: num(1)}},
			Methods: []zn.FuncDef{{Name: "先法", Body: []zn.Stmt{&zn.Return{E: num(1)}}}, {Name: "误法", Params: []string{"参甲", "参乙"}, Body: []zn.Stmt{&zn.Return{E: v("参甲")}}}}}
		g.arityDecl = &cd.Methods[1]
		return []zn.Stmt{cd, &zn.Let{Names: []string{on}, E: &zn.New{Class: cn}}},
			&zn.ExprStmt{E: &zn.MCall{Root: v(on), Chain: []zn.Call{{Name: "误法", Args: []zn.Expr{num(1)}}}}}, "argument count mismatch for a method of a class"
	case 14:
		// a method the object's class does not define: no call takes place
		g.labels["fault-unknown-method-of-object"] = true
		cn, on := fmt.Sprintf("空类%d", g.n), fmt.Sprintf("空物%d", g.n)
		return []zn.Stmt{&zn.ClassDef{Name: cn, Props: []zn.Prop{{Name: "值", Init: num(0)}}}, &zn.Let{Names: []string{on}, E: &zn.New{Class: cn}}},
			&zn.ExprStmt{E: &zn.MCall{Root: v(on), Chain: []zn.Call{{Name: "无此法", Args: []zn.Expr{num(1)}}}}}, "unknown method of an object"
	case 11:
		// a failing library function: its own frame is built-in code, not a source line
		g.labels["fault-in-library-function"] = true
		return nil, show(&zn.Call{Name: "解析JSON", Args: []zn.Expr{&zn.Str{V: "x"}}}), "failing library function"
	case 12:
		// "calling" a plain variable: no call takes place
		g.labels["fault-call-of-non-method"] = true
		nv := fmt.Sprintf("非法%d", g.n)
		return []zn.Stmt{&zn.Let{Names: []string{nv}, E: num(1)}}, &zn.ExprStmt{E: &zn.Call{Name: nv}}, "call of a name that is not a method"
	case 13:
		// wrong number of arguments: none of the callee's body runs
		g.labels["fault-argument-count"] = true
		fn := fmt.Sprintf("误参%d", g.n)
		g.arityDecl = &zn.FuncDef{Name: fn, Params: []string{"参甲"}, Body: []zn.Stmt{&zn.Return{E: v("参甲")}}}
		return []zn.Stmt{g.arityDecl}, show(&zn.Call{Name: fn, Args: []zn.Expr{num(1), num(2)}}), "argument count mismatch"
	case 0:
		return nil, &zn.Let{Names: []string{"坏"}, E: &zn.Bin{Op: "/", L: num(1), R: num(0)}}, "division by zero"
	case 1:
		return nil, show(v("未知名")), "undefined name"
	case 2:
		return nil, show(&zn.Index{Root: &zn.ListLit{Items: []zn.Expr{num(1)}}, Idx: num(5)}), "index out of range"
	case 3:
		return nil, &zn.Throw{Class: "异常", Args: []zn.Expr{&zn.Str{V: "故障"}}}, "uncaught 抛出"
	case 4:
		return nil, &zn.Return{E: &zn.Bin{Op: "+", L: num(1), R: &zn.Str{V: "文"}}}, "type error in 输出"
	case 5:
		g.labels["fault-in-native-method"] = true
		return nil, show(&zn.MCall{Root: &zn.Str{V: "abc"}, Chain: []zn.Call{{Name: "取样", Args: []zn.Expr{num(-9), num(1)}}}}), "failing built-in method"
	case 6:
		return nil, &zn.ExprStmt{E: &zn.Assign{Target: &zn.Index{Root: v("无此表"), Idx: num(1)}, E: num(2)}}, "assignment to an undefined name"
	case 7, 8:
		// the condition of a 每当 fails when it is tested for the third time: the statement
		// being executed is the loop, not the last statement of its body
		g.labels["fault-in-loop-condition-later-pass"] = true
		body := []zn.Stmt{&zn.ExprStmt{E: &zn.Assign{Target: v(cnt), E: &zn.Bin{Op: "+", L: v(cnt), R: num(1)}}}}
		switch g.pick(4, "wcall") {
		case 0:
			body = append(body, show(&zn.Call{Name: "完成", Args: []zn.Expr{v(cnt)}}))
		case 1:
			// the pass ends through 继续循环 (the statements below it are skipped)
			g.labels["loop-pass-ended-by-continue"] = true
			body = append(body, &zn.If{Conds: []zn.Expr{&zn.BoolLit{V: true}}, Blocks: [][]zn.Stmt{{show(v(cnt)), &zn.Continue{}}}}, show(&zn.Str{V: "跳过"}))
		case 2:
			g.labels["loop-pass-ended-by-continue"] = true
			body = append(body, show(v(cnt)), &zn.Continue{})
		default:
			body = append(body, show(v(cnt)))
		}
		return []zn.Stmt{&zn.Let{Names: []string{cnt}, E: num(0)}}, &zn.While{Cond: div(&zn.Bin{Op: "-", L: num(2), R: v(cnt)}), Body: body}, "division by zero in a 每当 condition (third test)"
	case 9:
		g.labels["fault-in-branch-condition"] = true
		return nil, &zn.If{Conds: []zn.Expr{div(num(0))}, Blocks: [][]zn.Stmt{{show(&zn.Str{V: "到不了"})}}, Else: []zn.Stmt{show(&zn.Str{V: "到不了"})}}, "division by zero in a 如果 condition"
	default:
		g.labels["fault-in-iterated-expression"] = true
		return nil, &zn.ForEach{Names: []string{"值"}, E: &zn.Index{Root: &zn.ListLit{Items: []zn.Expr{num(1)}}, Idx: num(5)}, Body: []zn.Stmt{show(v("值"))}}, "index error in the expression a 遍历 iterates"
	}
}

// wrap - put the active statement inside blocks (branches, loops on their n-th pass): the
// reported line stays the line of the active statement itself
func (g *gen) wrap(act zn.Stmt) zn.Stmt {
	g.n++
	switch g.pick(7, "wrap") {
	case 0:
		g.labels["active-statement-in-branch"] = true
		return &zn.If{Conds: []zn.Expr{&zn.BoolLit{V: false}, &zn.BoolLit{V: true}}, Blocks: [][]zn.Stmt{{show(&zn.Str{V: "不执行"})}, {show(&zn.Str{V: "分支"}), act}}, Else: []zn.Stmt{show(&zn.Str{V: "不执行"})}}
	case 1:
		g.labels["active-statement-in-loop"] = true
		return &zn.While{Cond: &zn.BoolLit{V: true}, Body: []zn.Stmt{show(&zn.Str{V: "循环"}), act, &zn.Break{}}}
	case 2:
		// third pass of a 遍历: earlier passes run other lines of the body
		g.labels["active-statement-in-later-pass"] = true
		return &zn.ForEach{Names: []string{"值"}, E: &zn.ListLit{Items: []zn.Expr{num(1), num(2), num(3)}}, Body: []zn.Stmt{
			&zn.If{Conds: []zn.Expr{&zn.Bin{Op: "==", L: v("值"), R: num(3)}}, Blocks: [][]zn.Stmt{{act}}},
			show(&zn.Str{V: "一轮"}, v("值")),
		}}
	default:
		return act
	}
}

// helper definitions shared by every module
func helpers() []zn.Stmt {
	return []zn.Stmt{
		&zn.FuncDef{Name: "完成", Params: []string{"数"}, Body: []zn.Stmt{&zn.Let{Names: []string{"内"}, E: v("数")}, &zn.Return{E: v("内")}}},
		&zn.FuncDef{Name: "稳妥", Params: []string{"数"}, Body: []zn.Stmt{
			&zn.Let{Names: []string{"内"}, E: &zn.Call{Name: "必败", Args: []zn.Expr{v("数")}}},
			&zn.Return{E: v("内")}},
			Catches: []zn.Catch{{Class: "异常", Body: []zn.Stmt{&zn.Return{E: num(-1)}}}}},
		&zn.FuncDef{Name: "必败", Params: []string{"数"}, Body: []zn.Stmt{&zn.Return{E: &zn.Bin{Op: "/", L: v("数"), R: num(0)}}}},
		&zn.FuncDef{Name: "停", Body: []zn.Stmt{&zn.Break{}}},
		&zn.ClassDef{Name: "别错", Props: []zn.Prop{{Name: "内容", Init: &zn.Str{V: ""}}}},
		&zn.FuncDef{Name: "跳", Body: []zn.Stmt{&zn.Throw{Class: "异常", Args: []zn.Expr{&zn.Str{V: "跳"}}}},
			Catches: []zn.Catch{{Class: "异常", Body: []zn.Stmt{&zn.Continue{}}}}},
		&zn.FuncDef{Name: "重抛", Params: []string{"数"}, Body: []zn.Stmt{&zn.Return{E: &zn.Call{Name: "必败", Args: []zn.Expr{v("数")}}}},
			Catches: []zn.Catch{{Class: "异常", Body: []zn.Stmt{&zn.Throw{Class: "异常", Args: []zn.Expr{&zn.Str{V: "二次"}}}}}}},
		&zn.FuncDef{Name: "外稳", Params: []string{"数"}, Body: []zn.Stmt{&zn.Return{E: &zn.Call{Name: "重抛", Args: []zn.Expr{v("数")}}}},
			Catches: []zn.Catch{{Class: "异常", Body: []zn.Stmt{&zn.Return{E: num(-3)}}}}},
	}
}

// otherHandler - a handler for a class the planted fault does NOT have: the error passes
// through, and the chain below this level must survive that
func otherHandler() []zn.Catch {
	return []zn.Catch{{Class: "别错", Body: []zn.Stmt{&zn.Return{E: num(-2)}}}}
}

type unit struct {
	name string // "" = main
	prog *zn.Program
}

// renderUnits - every unit rendered with its own drawn layout policy; physical line (0-based)
// and text of every statement
func (g *gen) renderUnits(units []*unit, fault string) (rtCase, map[zn.Stmt][2]any) {
	t := g.t
	c := rtCase{Modules: map[string]string{}, Fault: fault}
	lineOf := map[zn.Stmt][2]any{}
	for _, u := range units {
		pol := &zn.Policy{Rich: true, Seed: rapid.Uint64().Draw(t, "seed-"+u.name), Features: map[string]bool{},
			Tab: rapid.Bool().Draw(t, "tab-"+u.name), EOL: rapid.SampledFrom([]string{"\n", "\n", "\r\n", "\r", "\n\r"}).Draw(t, "eol-"+u.name)}
		for _, f := range []string{"pre-line", "comment-indent", "trail-comment", "inner-break", "cont-indent", "opt-space", "extra-space", "final-eol", "quote-style"} {
			if rapid.Bool().Draw(t, "feat-"+f) {
				pol.Features[f] = true
			}
		}
		src, lm := zn.Render(u.prog, pol)
		if u.name == "" {
			c.Src = src
		} else {
			c.Modules[u.name] = src
		}
		pl := physLines(src)
		for st, ln := range lm {
			lineOf[st] = [2]any{ln, strings.TrimLeft(pl[ln], " \t")}
		}
		if pol.EOL != "\n" {
			g.labels["eol-"+strconv.Quote(pol.EOL)] = true
		}
	}
	return c, lineOf
}

// TestDeclarationFaults - faults that arise while a module is being loaded or a type declared:
// in the body of an imported module (chain: the 导入 statements down to the faulty statement)
// and in a property initialiser (the 定义 statement)
func TestDeclarationFaults(t *testing.T) {
	rapid.Check(t, func(t *rapid.T) {
		g := &gen{t: t, labels: map[string]bool{}}
		nmods := rapid.IntRange(0, 2).Draw(t, "nmods") // modules between main and the faulty unit
		names := []string{"", "乙", "丙"}
		units := make([]*unit, nmods+1)
		for i := range units {
			units[i] = &unit{name: names[i], prog: &zn.Program{Imports: []zn.Import{{Name: "@JSON", Lib: true}}}}
			units[i].prog.Body = append(units[i].prog.Body, helpers()...)
		}
		active := make([]zn.Stmt, nmods+1)
		for i := 0; i < nmods; i++ {
			// an import of something harmless before, the import that fails after
			units[i].prog.Imports = append(units[i].prog.Imports, zn.Import{Name: names[i+1]})
			units[i].prog.Body = append(units[i].prog.Body, g.filler(false)...)
		}
		last := units[nmods]
		last.prog.Body = append(last.prog.Body, g.filler(false)...)
		var fault string
		if rapid.Bool().Draw(t, "classfault") {
			cd := &zn.ClassDef{Name: "坏类", Props: []zn.Prop{{Name: "好", Init: num(1)}, {Name: "坏", Init: &zn.Bin{Op: "/", L: num(1), R: num(0)}}}}
			last.prog.Body = append(last.prog.Body, cd)
			active[nmods] = &cd.Props[1] // the line of the property itself, not of the 定义
			fault = "division by zero in a property initialiser"
			g.labels["fault-in-property-initialiser"] = true
		} else {
			pre, act, f := g.faultStmt()
			if g.arityDecl != nil || g.extraTail != nil {
				g.arityDecl, g.extraTail = nil, nil // (their tails need the call-chain bookkeeping of TestRuntimeFaults)
				pre, act, f = nil, &zn.Let{Names: []string{"坏"}, E: &zn.Bin{Op: "/", L: num(1), R: num(0)}}, "division by zero"
			}
			last.prog.Body = append(append(last.prog.Body, pre...), g.wrap(act))
			active[nmods] = act
			fault = f
		}
		if nmods > 0 {
			g.labels["fault-while-importing"] = true
		}
		last.prog.Body = append(last.prog.Body, g.filler(false)...)
		last.prog.Body = append(last.prog.Body, show(&zn.Str{V: "到不了这里"}))
		c, lineOf := g.renderUnits(units, fault)
		for i := 0; i <= nmods; i++ {
			var st zn.Stmt = active[i]
			if i < nmods {
				imps := units[i].prog.Imports
				st = &imps[len(imps)-1]
			}
			if i == nmods && g.lineKey != nil {
				st = g.lineKey
			}
			lt, ok := lineOf[st]
			if !ok {
				t.Fatalf("HARNESS: no line recorded for the active statement of unit %q", units[i].name)
			}
			c.Chain = append(c.Chain, frame{Module: units[i].name, Line: lt[0].(int) + 1, Text: lt[1].(string)})
		}
		var labels []string
		for l := range g.labels {
			labels = append(labels, l)
		}
		key, _ := json.Marshal(c)
		h.R.Case(t, "runtime", string(key), c, labels, true, checkRuntime(c))
	})
}

func TestRuntimeFaults(t *testing.T) {
	rapid.Check(t, func(t *rapid.T) {
		g := &gen{t: t, labels: map[string]bool{}}
		depth := rapid.IntRange(0, 4).Draw(t, "depth") // number of calls between main and the fault
		useMod := rapid.IntRange(0, 2).Draw(t, "usemod") == 0 && depth >= 1
		main := &unit{name: "", prog: &zn.Program{Imports: []zn.Import{{Name: "@JSON", Lib: true}}}}
		mod := &unit{name: "甲", prog: &zn.Program{Imports: []zn.Import{{Name: "@JSON", Lib: true}}}}
		units := []*unit{main}
		if useMod {
			main.prog.Imports = append(main.prog.Imports, zn.Import{Name: "甲"})
			units = append(units, mod)
			mod.prog.Body = append(mod.prog.Body, []zn.Stmt{
				&zn.FuncDef{Name: "完成", Params: []string{"数"}, Body: []zn.Stmt{&zn.Return{E: v("数")}}},
				&zn.FuncDef{Name: "必败", Params: []string{"数"}, Body: []zn.Stmt{&zn.Return{E: &zn.Bin{Op: "/", L: v("数"), R: num(0)}}}},
				&zn.FuncDef{Name: "稳妥", Params: []string{"数"}, Body: []zn.Stmt{&zn.Return{E: &zn.Call{Name: "必败", Args: []zn.Expr{v("数")}}}}, Catches: []zn.Catch{{Class: "异常", Body: []zn.Stmt{&zn.Return{E: num(-1)}}}}},
				&zn.FuncDef{Name: "停", Body: []zn.Stmt{&zn.Break{}}},
				&zn.ClassDef{Name: "别错", Props: []zn.Prop{{Name: "内容", Init: &zn.Str{V: ""}}}},
				&zn.FuncDef{Name: "跳", Body: []zn.Stmt{&zn.Throw{Class: "异常", Args: []zn.Expr{&zn.Str{V: "跳"}}}},
					Catches: []zn.Catch{{Class: "异常", Body: []zn.Stmt{&zn.Continue{}}}}},
				&zn.FuncDef{Name: "重抛", Params: []string{"数"}, Body: []zn.Stmt{&zn.Return{E: &zn.Call{Name: "必败", Args: []zn.Expr{v("数")}}}},
					Catches: []zn.Catch{{Class: "异常", Body: []zn.Stmt{&zn.Throw{Class: "异常", Args: []zn.Expr{&zn.Str{V: "二次"}}}}}}},
				&zn.FuncDef{Name: "外稳", Params: []string{"数"}, Body: []zn.Stmt{&zn.Return{E: &zn.Call{Name: "重抛", Args: []zn.Expr{v("数")}}}},
					Catches: []zn.Catch{{Class: "异常", Body: []zn.Stmt{&zn.Return{E: num(-3)}}}}},
			}...)
		} else {
			main.prog.Body = append(main.prog.Body, helpers()...)
		}
		// level i (1..depth) lives in main or in the module; level 0 is the main program
		home := make([]*unit, depth+1)
		home[0] = main
		for i := 1; i <= depth; i++ {
			home[i] = main
			if useMod && rapid.Bool().Draw(t, "inmod") {
				home[i] = mod
			}
		}
		if useMod && depth >= 1 {
			// main can only call what it imports or defines: the module's functions are imported,
			// and a module function can only call functions of the module
			for i := 1; i <= depth; i++ {
				if home[i-1] == mod {
					home[i] = mod
				}
			}
		}
		active := make([]zn.Stmt, depth+1) // the statement active in each level when the fault hits
		useMethod := make([]bool, depth+1)
		// build bodies from the innermost level outwards
		var fault string
		for i := depth; i >= 0; i-- {
			var body []zn.Stmt
			body = append(body, g.filler(i > 0)...)
			var act zn.Stmt
			if i == depth {
				var pre []zn.Stmt
				pre, act, fault = g.faultStmt()
				body = append(body, pre...)
			} else {
				var call zn.Expr = &zn.Call{Name: fmt.Sprintf("层%d", i+1), Args: []zn.Expr{num(float64(i))}}
				if useMethod[i+1] {
					call = &zn.MCall{Root: &zn.New{Class: fmt.Sprintf("类%d", i+1)}, Chain: []zn.Call{{Name: "跑", Args: []zn.Expr{num(float64(i))}}}}
				}
				if !useMethod[i+1] && g.pick(4, "alias") == 0 {
					// the callee is reached through another name, a variable that holds it: its
					// frame still belongs to the module that declares it
					an := fmt.Sprintf("别名%d", i)
					body = append(body, &zn.Let{Names: []string{an}, E: v(fmt.Sprintf("层%d", i+1))})
					call = &zn.Call{Name: an, Args: []zn.Expr{num(float64(i))}}
					g.labels["callee-called-through-a-variable"] = true
					if home[i+1] != home[i] {
						g.labels["imported-callee-called-through-a-variable"] = true
					}
				}
				switch g.pick(4, "callform") {
				case 0:
					act = &zn.ExprStmt{E: call}
				case 1:
					act = &zn.Let{Names: []string{fmt.Sprintf("果%d", i)}, E: call}
				case 2:
					act = show(&zn.Str{V: "调用结果"}, call)
				default:
					act = &zn.Return{E: call}
				}
			}
			active[i] = act
			body = append(body, g.wrap(act))
			body = append(body, g.filler(i > 0)...)
			body = append(body, show(&zn.Str{V: "到不了这里"}))
			var catches []zn.Catch
			if g.pick(4, "otherhandler") == 0 {
				catches = otherHandler()
				if i < depth {
					g.labels["non-matching-handler-above-fault"] = true
				}
			}
			if i == 0 {
				main.prog.Body = append(main.prog.Body, body...)
				main.prog.Catches = catches
				continue
			}
			useMethod[i] = home[i] == home[i-1] && g.pick(4, "method") == 0
			if useMethod[i] {
				g.labels["method-frame"] = true
				home[i].prog.Body = append(home[i].prog.Body, &zn.ClassDef{Name: fmt.Sprintf("类%d", i), Props: []zn.Prop{{Name: "名", Init: num(0)}},
					Methods: []zn.FuncDef{{Name: "跑", Params: []string{"参"}, Body: body, Catches: catches}}})
			} else {
				home[i].prog.Body = append(home[i].prog.Body, &zn.FuncDef{Name: fmt.Sprintf("层%d", i), Params: []string{"参"}, Body: body, Catches: catches})
			}
		}
		if useMod && len(mod.prog.Body) == 8 {
			g.labels["module-unused"] = true
		}
		// render every unit with its own layout policy
		c, lineOf := g.renderUnits(units, fault)
		if g.arityDecl != nil {
			lt := lineOf[zn.Stmt(g.arityDecl)]
			c.AltTail = &frame{Module: home[depth].name, Line: lt[0].(int) + 1, Text: lt[1].(string)}
		}
		for i := 0; i <= depth; i++ {
			lt := lineOf[active[i]]
			if i == depth && g.lineKey != nil {
				lt = lineOf[g.lineKey]
			}
			c.Chain = append(c.Chain, frame{Module: home[i].name, Line: lt[0].(int) + 1, Text: lt[1].(string)})
		}
		if g.extraTail != nil {
			lt := lineOf[g.extraTail]
			c.Chain = append(c.Chain, frame{Module: home[depth].name, Line: lt[0].(int) + 1, Text: lt[1].(string)})
		}
		var labels []string
		for l := range g.labels {
			labels = append(labels, l)
		}
		labels = append(labels, fmt.Sprintf("depth-%d", depth))
		nt := depth >= 2 || g.labels["non-matching-handler-above-fault"] || g.labels["multi-line-literal"] || g.labels["handled-exception-before"]
		key, _ := json.Marshal(c)
		h.R.Case(t, "runtime", string(key), c, labels, nt, checkRuntime(c))
	})
}

// ---------------------------------------------------------------------------------------
// syntax faults with an unambiguous offending character

func width(s string) int {
	w := 0
	for _, c := range s {
		if c < 0x7f {
			w++
		} else {
			w += 2 // CJK / full-width only (the generator uses no ambiguous-width characters)
		}
	}
	return w
}

func checkSyntax(c synCase) []h.Failure {
	o := h.Run(c.Src, h.Opts{})
	ctx := "source:\n" + numbered(c.Src)
	if o.Kind == h.KPanic || o.Kind == h.KBudget {
		return []h.Failure{{Sig: "syntax/" + o.Kind + "@" + o.PanicSite, Msg: ctx + o.PanicMsg}}
	}
	if o.Kind != h.KError || o.ErrClass != "syntax" {
		return []h.Failure{{Sig: "syntax/not-reported", Msg: fmt.Sprintf("%s\nexpected a syntax error (%s) at line %d, got %s", ctx, c.Kind, c.Line, o.Short())}}
	}
	lines := strings.Split(o.Display, "\n")
	desc := fmt.Sprintf("%s\n%s at line %d, caret column %d, quoted %q\nreported:\n%s", ctx, c.Kind, c.Line, c.Col, c.Text, o.Display)
	m := headMain.FindStringSubmatch(lines[0])
	if m == nil || len(lines) < 3 {
		return []h.Failure{{Sig: "syntax/no-location", Msg: desc}}
	}
	if n, _ := strconv.Atoi(m[1]); n != c.Line {
		return []h.Failure{{Sig: "syntax/wrong-line", Msg: desc}}
	}
	if strings.TrimPrefix(lines[1], "    ") != c.Text {
		return []h.Failure{{Sig: "syntax/wrong-quoted-line", Msg: desc}}
	}
	caret := strings.TrimPrefix(lines[2], "    ")
	if !strings.HasSuffix(caret, "^") || strings.Trim(caret, " ^") != "" || len(caret)-1 != c.Col {
		return []h.Failure{{Sig: "syntax/wrong-caret-column", Msg: desc}}
	}
	return nil
}

func TestSyntaxFaults(t *testing.T) {
	rapid.Check(t, func(t *rapid.T) {
		eol := rapid.SampledFrom([]string{"\n", "\n", "\r\n", "\r"}).Draw(t, "eol")
		tab := rapid.Bool().Draw(t, "tab")
		unit := "    "
		if tab {
			unit = "\t"
		}
		// valid lines before the fault; some are multi-line constructs
		var lines []string // physical lines
		add := func(s ...string) { lines = append(lines, s...) }
		nb := rapid.IntRange(0, 6).Draw(t, "nbefore")
		indent := 0
		for i := 0; i < nb; i++ {
			switch rapid.IntRange(0, 6).Draw(t, "lk") {
			case 0:
				add(strings.Repeat(unit, indent) + fmt.Sprintf("令甲%d = %d", i, i))
			case 1:
				add(strings.Repeat(unit, indent)+"（显示：“第一行", "第二行”）")
			case 2:
				add(strings.Repeat(unit, indent)+"/* 块注释", "   还是注释 */")
			case 3:
				add("")
			case 4:
				add(strings.Repeat(unit, indent)+"令表 = 【1，", strings.Repeat(unit, indent+1)+"2，", strings.Repeat(unit, indent+1)+"3】")
			case 5:
				add(strings.Repeat(unit, indent) + "如果真：")
				indent++
				add(strings.Repeat(unit, indent) + "（显示：“进入”）")
			case 6:
				add(strings.Repeat(unit, indent) + "注：这一行是注释")
			}
		}
		ind := strings.Repeat(unit, indent)
		prefixes := []string{"令乙 = ", "（显示：宽字符变量、", "令总价 = 单价 * ", "输出", "令A = B + ", "", ""}
		prefix := rapid.SampledFrom(prefixes).Draw(t, "prefix")
		c := synCase{}
		switch rapid.IntRange(0, 4).Draw(t, "kind") {
		case 4:
			// a line indented deeper than the statement before it, which opens no block
			c.Kind = "line indented deeper than its block"
			add(ind + "令前 = 0")
			add(ind + unit + "令后 = 2")
			c.Col, c.Text = 0, "令后 = 2"
		case 0:
			c.Kind = "illegal character ~"
			add(ind + prefix + "~1")
			c.Col, c.Text = width(prefix), prefix+"~1"
		case 1:
			c.Kind = "word starting with *"
			add(ind + prefix + "*abc")
			c.Col, c.Text = width(prefix), prefix+"*abc"
		case 2:
			c.Kind = "word ending with /"
			add(ind + prefix + "abc/ 1")
			c.Col, c.Text = width(prefix)+3, prefix+"abc/ 1"
		default:
			// indentation switches kind on this line; reported at the start of the line
			if indent == 0 {
				add("如果真：")
				indent = 1
				add(strings.Repeat(unit, indent) + "（显示：1）")
			}
			other := "\t"
			if tab {
				other = "    "
			}
			c.Kind = "indentation switches between TAB and spaces"
			add(strings.Repeat(other, indent) + "（显示：2）")
			c.Col, c.Text = 0, "（显示：2）"
		}
		c.Line = len(lines)
		if rapid.Bool().Draw(t, "after") {
			add(strings.Repeat(unit, indent) + "（显示：“后面”）")
		}
		c.Src = strings.Join(lines, eol)
		labels := []string{"syntax:" + c.Kind}
		nt := c.Line >= 3 || c.Col > 4
		h.R.Case(t, "syntax", c.Src, c, labels, nt, checkSyntax(c))
	})
}

// TestMissingInput - a program whose 输入 statement names a value the host has not set: what is
// being executed is that statement, wherever in the file it stands (after imports, comments
// over several lines, blank lines)
func TestMissingInput(t *testing.T) {
	rapid.Check(t, func(t *rapid.T) {
		eol := rapid.SampledFrom([]string{"\n", "\n", "\r\n", "\r"}).Draw(t, "eol")
		var lines []string
		for i, n := 0, rapid.IntRange(0, 6).Draw(t, "nbefore"); i < n; i++ {
			switch rapid.IntRange(0, 4).Draw(t, "lk") {
			case 0:
				lines = append(lines, "注：说明")
			case 1:
				lines = append(lines, "")
			case 2:
				lines = append(lines, "/* 多行", "   注释 */")
			case 3:
				lines = append(lines, "// note")
			default:
				lines = append(lines, "注3：「说明", "文字」")
			}
		}
		// imports come first in a program: move them to the front
		var imports []string
		if rapid.Bool().Draw(t, "import") {
			imports = append(imports, "导入《@JSON》")
		}
		lines = append(imports, lines...)
		names := rapid.SampledFrom([]string{"甲", "甲、乙", "宽字符变量、B、C"}).Draw(t, "names")
		lines = append(lines, "输入"+names)
		inputLine := len(lines)
		lines = append(lines, "（显示：“到不了”）", "输出1")
		c := rtCase{Src: strings.Join(lines, eol), Fault: "an input value the host has not set", Chain: []frame{{Module: "", Line: inputLine, Text: "输入" + names}}}
		key, _ := json.Marshal(c)
		h.R.Case(t, "runtime", string(key), c, []string{"fault-missing-input-value"}, inputLine >= 2, checkRuntime(c))
	})
}

func TestCorpus(t *testing.T) { h.RunCorpus(t, "c18", replay) }
