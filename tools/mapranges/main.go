// mapranges - inventory of every `range` over a map in the non-test sources of DemoHn/Zn
// (auxiliary evidence for C11: which range-over-map sites exist, so that a new one is noticed)
package main

import (
	"fmt"
	"go/ast"
	"go/importer"
	"go/parser"
	"go/token"
	"go/types"
	"os"
	"path/filepath"
	"sort"
	"strings"
)

func main() {
	root := "/repo"
	if len(os.Args) > 1 {
		root = os.Args[1]
	}
	os.Chdir(root)
	var dirs []string
	filepath.Walk(".", func(p string, info os.FileInfo, err error) error {
		if err == nil && info.IsDir() && (strings.HasPrefix(p, "pkg") || strings.HasPrefix(p, "stdlib")) {
			dirs = append(dirs, p)
		}
		return nil
	})
	sort.Strings(dirs)
	fset := token.NewFileSet()
	imp := importer.ForCompiler(fset, "source", nil)
	var sites []string
	for _, d := range dirs {
		pkgs, err := parser.ParseDir(fset, d, func(fi os.FileInfo) bool {
			n := fi.Name()
			return !strings.HasSuffix(n, "_test.go") && !strings.Contains(n, "_windows") && !strings.Contains(n, "_darwin") && !strings.HasPrefix(n, "verif_")
		}, 0)
		if err != nil {
			continue
		}
		for _, pkg := range pkgs {
			var files []*ast.File
			for _, f := range pkg.Files {
				files = append(files, f)
			}
			info := &types.Info{Types: map[ast.Expr]types.TypeAndValue{}}
			conf := types.Config{Importer: imp, Error: func(error) {}}
			conf.Check("github.com/DemoHn/Zn/"+d, fset, files, info)
			for _, f := range files {
				ast.Inspect(f, func(n ast.Node) bool {
					rs, ok := n.(*ast.RangeStmt)
					if !ok {
						return true
					}
					if tv, ok := info.Types[rs.X]; ok && tv.Type != nil {
						if _, isMap := tv.Type.Underlying().(*types.Map); isMap {
							pos := fset.Position(rs.Pos())
							sites = append(sites, fmt.Sprintf("%s:%d", pos.Filename, pos.Line))
						}
					}
					return true
				})
			}
		}
	}
	sort.Strings(sites)
	for _, s := range sites {
		fmt.Println(s)
	}
}
