package c12

import (
	"encoding/json"
	"fmt"
	"strings"
	"testing"

	"pgregory.net/rapid"

	h "verif/harness"
)

// 包含 / 寻找 are the item-by-item application of == : for every list (items of any kind -
// plain values, collections, objects, methods, types - in any mixture) and every needle,
// 包含 answers whether some item == needle, 寻找 the position of the first such item. The
// program computes both sides itself; a program in which an item-wise == raises is skipped
// for that needle (nothing is claimed about it).

type findCase struct {
	Items  []string `json:"items"`  // source text of the items
	Needle string   `json:"needle"` // source text of the needle
}

const findPrelude = "定义某型：\n    其值 = 0\n如何某法？\n    输出1\n令物 = （新建某型）\n令另物 = （新建某型）\n"

func findSrc(c findCase) string {
	var b strings.Builder
	b.WriteString(findPrelude)
	b.WriteString("令表 = 【" + strings.Join(c.Items, "，") + "】\n")
	b.WriteString("令针 = " + c.Needle + "\n")
	for i := range c.Items {
		b.WriteString(fmt.Sprintf("（显示：“项”、%d、表#%d == 针）\n", i+1, i+1))
	}
	b.WriteString("（显示：“含”、以表（包含：针））\n（显示：“寻”、以表（寻找：针））\n")
	return b.String()
}

func checkFind(c findCase) []h.Failure {
	src := findSrc(c)
	o := h.Run(src, h.Opts{EvalTicks: 100000})
	ctx := "program:\n" + src
	switch o.Kind {
	case h.KPanic:
		return []h.Failure{{Sig: "find/go-panic@" + o.PanicSite, Msg: ctx + "\nGo panic: " + o.PanicMsg}}
	case h.KBudget, h.KNil:
		return []h.Failure{{Sig: "find/" + o.Kind, Msg: ctx}}
	}
	// item lines
	pos := 0
	n := 0
	for _, ln := range o.Trace {
		if strings.HasPrefix(ln, "项 ") {
			n++
			f := strings.Fields(ln)
			if len(f) == 3 && f[2] == "真" && pos == 0 {
				pos = n
			}
		}
	}
	if n < len(c.Items) {
		// an item-wise == raised: if the FIRST items (up to the raising one) hold no equal
		// item nothing is claimed; if one of them equals the needle, 包含 / 寻找 of the same list
		// never need to look at the raising item - but whether they may is not stated: skipped
		h.R.Skip("an item-wise == raises")
		return nil
	}
	var gotC, gotF string
	for _, ln := range o.Trace {
		if strings.HasPrefix(ln, "含 ") {
			gotC = strings.TrimPrefix(ln, "含 ")
		}
		if strings.HasPrefix(ln, "寻 ") {
			gotF = strings.TrimPrefix(ln, "寻 ")
		}
	}
	wantC := "假"
	if pos > 0 {
		wantC = "真"
	}
	if gotC != wantC {
		return []h.Failure{{Sig: "find/contains-disagrees-with-equality", Msg: fmt.Sprintf("%s\nitem-wise ==: first equal item #%d (0 = none); 包含 must answer %s\ntrace: %v\noutcome: %s", ctx, pos, wantC, o.Trace, o.Short())}}
	}
	if pos > 0 && gotF != fmt.Sprint(pos) {
		return []h.Failure{{Sig: "find/position-disagrees-with-equality", Msg: fmt.Sprintf("%s\nitem-wise ==: first equal item #%d; 寻找 answered %q\ntrace: %v\noutcome: %s", ctx, pos, gotF, o.Trace, o.Short())}}
	}
	if pos == 0 {
		for i := 1; i <= len(c.Items); i++ {
			if gotF == fmt.Sprint(i) {
				return []h.Failure{{Sig: "find/absent-valid-position", Msg: fmt.Sprintf("%s\nno item equals the needle, 寻找 answered the valid position %s\ntrace: %v", ctx, gotF, o.Trace)}}
			}
		}
	}
	return nil
}

var findPlain = []string{"空", "0", "1", "-0", "1.5", "“”", "“物”", "“1”", "真", "假", "【】", "【1】", "【1，2】", "【“a” = 1】", "【“a” = 1，“b” = 【2】】", "【=】"}
var findOther = []string{"物", "另物", "某法", "某型", "显示", "异常"}
var findMixed = []string{"【物】", "【1，物】", "【“k” = 物】", "【某法，1】", "【【物】】"}

func TestFindAgreesWithEquality(t *testing.T) {
	rapid.Check(t, func(t *rapid.T) {
		pick := func(w string) (string, string) {
			switch rapid.IntRange(0, 5).Draw(t, w+"-kind") {
			case 0, 1:
				return rapid.SampledFrom(findOther).Draw(t, w), "other"
			case 2:
				return rapid.SampledFrom(findMixed).Draw(t, w), "mixed"
			default:
				return rapid.SampledFrom(findPlain).Draw(t, w), "plain"
			}
		}
		var c findCase
		kinds := map[string]bool{}
		n := rapid.IntRange(1, 6).Draw(t, "n")
		for i := 0; i < n; i++ {
			it, k := pick(fmt.Sprintf("item%d", i))
			c.Items = append(c.Items, it)
			kinds["item:"+k] = true
		}
		var nk string
		if rapid.Bool().Draw(t, "needle-from-list") {
			c.Needle = c.Items[rapid.IntRange(0, n-1).Draw(t, "ni")]
			nk = "present"
		} else {
			c.Needle, nk = pick("needle")
		}
		labels := []string{"needle:" + nk}
		for k := range kinds {
			labels = append(labels, k)
		}
		// non-trivial: a plain needle behind an item of another kind (or the reverse)
		nt := (kinds["item:other"] || kinds["item:mixed"]) && kinds["item:plain"]
		key, _ := json.Marshal(c)
		h.R.Case(t, "find", string(key), c, labels, nt, checkFind(c))
	})
}
