// Package harness embeds the Zn interpreter the way zinc.go / cmd/zinc do (minus the HTTP
// library, which does not build), captures what `显示` prints, installs the deterministic
// step budgets of the `verif` hooks, converts Go panics into classified outcomes and keeps
// the *VM so that the call stack and scope depths can be inspected after a run.
package harness

import (
	"encoding/json"
	"fmt"
	"math"
	"os"
	"runtime/debug"
	"strings"
	"sync"

	zerr "github.com/DemoHn/Zn/pkg/error"
	"github.com/DemoHn/Zn/pkg/exec"
	r "github.com/DemoHn/Zn/pkg/runtime"
	"github.com/DemoHn/Zn/pkg/syntax"
	"github.com/DemoHn/Zn/pkg/syntax/zh"
	"github.com/DemoHn/Zn/pkg/value"
	libFile "github.com/DemoHn/Zn/stdlib/file"
	libJson "github.com/DemoHn/Zn/stdlib/json"
)

// Kinds of outcome
const (
	KValue  = "value"
	KError  = "zn-error"
	KPanic  = "go-panic"
	KBudget = "budget-exceeded"
	KNil    = "nil-result"
)

// Outcome - everything observable about one execution
type Outcome struct {
	Kind string
	// value
	Val     r.Element `json:"-"`
	ValType string
	ValText string
	NumBits uint64
	// error
	ErrClass string // syntax | runtime | exception | signal | io | semantic | wrapped-syntax | wrapped-runtime | other
	ErrCode  int
	ErrMsg   string
	Cursor   int
	RawErr   error  `json:"-"`
	Display  string // rendered DisplayError text (CLI form)
	// go-panic
	PanicMsg  string
	PanicSite string
	// observations
	Trace      []string
	Ticks      int64
	StackLen   int
	ScopeDepth map[int]int
	VM         *r.VM `json:"-"`
}

// IsErr - the outcome is a Zn error delivered through the normal channel
func (o *Outcome) IsErr() bool { return o.Kind == KError }

// Short - one-line summary
func (o *Outcome) Short() string {
	switch o.Kind {
	case KValue:
		return fmt.Sprintf("value %s %q", o.ValType, o.ValText)
	case KError:
		return fmt.Sprintf("error %s[%d] %q", o.ErrClass, o.ErrCode, o.ErrMsg)
	case KPanic:
		return fmt.Sprintf("GO PANIC %s @%s", o.PanicMsg, o.PanicSite)
	case KBudget:
		return fmt.Sprintf("BUDGET EXCEEDED ticks=%d", o.Ticks)
	}
	return o.Kind
}

// Opts - how to run
type Opts struct {
	Inputs     map[string]r.Element
	Modules    map[string]string // in-memory modules: name -> source
	ParseTicks int64             // 0 => 64*len+256
	EvalTicks  int64             // 0 => DefaultEvalTicks
	MaxDepth   int               // 0 => DefaultMaxDepth
	NoLibs     bool
	WantVM     bool
}

const (
	DefaultEvalTicks = 2_000_000
	DefaultMaxDepth  = 20_000
)

var libs = []*r.Library{libJson.Export(), libFile.Export()}

// Libs - the libraries loaded into every VM
func Libs() []*r.Library { return libs }

// ---------------------------------------------------------------------------------------
// stdout capture

var (
	capMu   sync.Mutex
	capFile *os.File
)

func capInit() {
	if capFile != nil {
		return
	}
	f, err := os.CreateTemp("", "verif-stdout-*")
	if err != nil {
		panic(err)
	}
	os.Remove(f.Name())
	capFile = f
}

// Capture - run fn with os.Stdout redirected to a scratch file and return what was written
func Capture(fn func()) string {
	capMu.Lock()
	defer capMu.Unlock()
	capInit()
	capFile.Truncate(0)
	capFile.Seek(0, 0)
	saved := os.Stdout
	os.Stdout = capFile
	func() {
		defer func() { os.Stdout = saved }()
		fn()
	}()
	n, _ := capFile.Seek(0, 1)
	if n == 0 {
		return ""
	}
	buf := make([]byte, n)
	capFile.ReadAt(buf, 0)
	return string(buf)
}

func splitTrace(s string) []string {
	if s == "" {
		return nil
	}
	s = strings.TrimSuffix(s, "\n")
	return strings.Split(s, "\n")
}

// ---------------------------------------------------------------------------------------
// panic classification

func topZnFrame(stack string) string {
	// first frame of the stack that lies in github.com/DemoHn/Zn
	lines := strings.Split(stack, "\n")
	for _, ln := range lines {
		ln = strings.TrimSpace(ln)
		if strings.HasPrefix(ln, "github.com/DemoHn/Zn/") {
			fn := ln
			if i := strings.LastIndex(fn, "("); i > 0 {
				fn = fn[:i]
			}
			fn = strings.TrimPrefix(fn, "github.com/DemoHn/Zn/")
			// drop closure suffixes such as .func1
			for {
				j := strings.LastIndex(fn, ".func")
				if j < 0 {
					break
				}
				fn = fn[:j]
			}
			return fn
		}
	}
	return "?"
}

// budgetSite - innermost parser production that was spinning when the budget ran out
func budgetSite(stack string) string {
	for _, ln := range strings.Split(stack, "\n") {
		ln = strings.TrimSpace(ln)
		if !strings.HasPrefix(ln, "github.com/DemoHn/Zn/pkg/syntax/zh.") {
			continue
		}
		fn := strings.TrimPrefix(ln, "github.com/DemoHn/Zn/pkg/syntax/zh.")
		if i := strings.Index(fn, "("); i > 0 && !strings.HasPrefix(fn, "(") {
			fn = fn[:i]
		}
		if strings.Contains(fn, "verifTick") || strings.Contains(fn, "tryConsume") || strings.Contains(fn, ").consume") || strings.Contains(fn, "parseItemListBlock") {
			continue
		}
		for {
			j := strings.LastIndex(fn, ".func")
			if j < 0 {
				break
			}
			fn = fn[:j]
		}
		return "parser:" + fn
	}
	return "parser"
}

// topZnFrameSkip - first Zn frame whose function name contains none of the skip words
func topZnFrameSkip(stack string, skip ...string) string {
outer:
	for _, ln := range strings.Split(stack, "\n") {
		ln = strings.TrimSpace(ln)
		if !strings.HasPrefix(ln, "github.com/DemoHn/Zn/") {
			continue
		}
		for _, sk := range skip {
			if strings.Contains(ln, sk) {
				continue outer
			}
		}
		fn := strings.TrimPrefix(ln, "github.com/DemoHn/Zn/")
		if i := strings.LastIndex(fn, "("); i > 0 {
			fn = fn[:i]
		}
		return fn
	}
	return "?"
}

// Guard - run fn; convert panics into (kind, msg, site)
func Guard(fn func()) (kind string, msg string, site string) {
	defer func() {
		if rec := recover(); rec != nil {
			switch v := rec.(type) {
			case zh.VerifBudgetExceeded:
				kind, msg, site = KBudget, fmt.Sprintf("parser ticks=%d", v.Ticks), budgetSite(string(debug.Stack()))
			case syntax.VerifBudgetExceeded:
				kind, msg, site = KBudget, fmt.Sprintf("lexer ticks=%d", v.Ticks), "lexer:"+topZnFrameSkip(string(debug.Stack()), "verifTick", ".Next")
			case exec.VerifBudgetExceeded:
				kind, msg, site = KBudget, fmt.Sprintf("evaluator ticks=%d depth=%d", v.Ticks, v.Depth), "evaluator"
			default:
				kind = KPanic
				msg = fmt.Sprint(rec)
				site = topZnFrame(string(debug.Stack()))
			}
		}
	}()
	fn()
	return "", "", ""
}

// ---------------------------------------------------------------------------------------

func parseBudget(n int, override int64) int64 {
	if override != 0 {
		return override
	}
	return int64(64*n + 256)
}

// ParseResult - result of parsing only
type ParseResult struct {
	Kind      string // value (tree) | zn-error | go-panic | budget-exceeded
	Program   *syntax.Program
	Parser    *syntax.Parser
	Err       error
	PanicMsg  string
	PanicSite string
	Ticks     int64
	LexTicks  int64
	full      []rune // the source with its guard characters behind it
	orig      string
}

// SourceIntact - "" when the source handed to the parser and the characters stored behind it
// are what they were (to be asked after parsing AND after rendering an error)
func (pr *ParseResult) SourceIntact() string {
	n := len(pr.full) - parseGuard
	if string(pr.full[:n]) != pr.orig {
		return "the source text itself was changed"
	}
	for i := n; i < len(pr.full); i++ {
		if pr.full[i] != parseGuardRune {
			return fmt.Sprintf("the character %d place(s) behind the end of the source was overwritten with U+%04X", i-n+1, pr.full[i])
		}
	}
	return ""
}

// Parse - parse source under the parser step budget, never panics
// parseGuard - characters kept behind the end of the source handed to the parser (in the spare
// capacity of the same slice): the front end must leave them, and the source, as they are
const parseGuard = 4
const parseGuardRune = 0x2603

func Parse(src string, ticks int64) *ParseResult {
	base := []rune(src)
	full := make([]rune, len(base)+parseGuard)
	copy(full, base)
	for i := len(base); i < len(full); i++ {
		full[i] = parseGuardRune
	}
	runes := full[:len(base)]
	res := &ParseResult{full: full, orig: src}
	zh.VerifTicks = 0
	zh.VerifTickBudget = parseBudget(len(runes), ticks)
	syntax.VerifTicks = 0
	syntax.VerifTickBudget = int64(16*len(runes) + 256)
	kind, msg, site := Guard(func() {
		p := syntax.NewParser(runes, zh.NewParserZH())
		res.Parser = p
		res.Program, res.Err = p.Parse()
	})
	res.Ticks = zh.VerifTicks
	res.LexTicks = syntax.VerifTicks
	zh.VerifTickBudget = 0
	syntax.VerifTickBudget = 0
	switch {
	case kind != "":
		res.Kind, res.PanicMsg, res.PanicSite = kind, msg, site
	case res.Err != nil:
		res.Kind = KError
	default:
		res.Kind = KValue
	}
	return res
}

// ClassifyErr - fill error fields of an outcome
func ClassifyErr(o *Outcome, err error) {
	o.Kind = KError
	o.RawErr = err
	o.ErrMsg = err.Error()
	switch e := err.(type) {
	case *zerr.SyntaxError:
		o.ErrClass, o.ErrCode, o.Cursor = "syntax", e.Code, e.Cursor
	case *zerr.RuntimeError:
		o.ErrClass, o.ErrCode = "runtime", e.Code
	case *zerr.SemanticError:
		o.ErrClass = "semantic"
	case *zerr.IOError:
		o.ErrClass, o.ErrCode = "io", e.Code
	case *value.Exception:
		o.ErrClass = "exception"
	case *zerr.Signal:
		o.ErrClass = "signal"
		o.ErrCode = int(e.SigType)
		if e.SigType == zerr.SigTypeException {
			if ex, ok := e.Extra.(r.Element); ok {
				o.ErrMsg = ex.String()
			}
		}
	case *exec.SyntaxErrorWrapper:
		o.ErrClass = "wrapped-syntax"
	case *exec.RuntimeErrorWrapper:
		o.ErrClass = "wrapped-runtime"
	default:
		o.ErrClass = "other"
	}
}

// FillValue - fill value fields of an outcome
func FillValue(o *Outcome, v r.Element) {
	if v == nil || isNilElem(v) {
		o.Kind = KNil
		return
	}
	o.Kind = KValue
	o.Val = v
	o.ValType = TypeName(v)
	o.ValText = v.String()
	if n, ok := v.(*value.Number); ok {
		o.NumBits = math.Float64bits(n.GetValue())
	}
}

func isNilElem(v r.Element) bool {
	switch x := v.(type) {
	case *value.Number:
		return x == nil
	case *value.String:
		return x == nil
	case *value.Bool:
		return x == nil
	case *value.Array:
		return x == nil
	case *value.HashMap:
		return x == nil
	case *value.Object:
		return x == nil
	case *value.Null:
		return x == nil
	case *value.Function:
		return x == nil
	case *value.ClassModel:
		return x == nil
	case *value.Exception:
		return x == nil
	}
	return false
}

// TypeName - short type tag of an element
func TypeName(v r.Element) string {
	switch v.(type) {
	case *value.Number:
		return "number"
	case *value.String:
		return "string"
	case *value.Bool:
		return "bool"
	case *value.Array:
		return "array"
	case *value.HashMap:
		return "hashmap"
	case *value.Object:
		return "object"
	case *value.Null:
		return "null"
	case *value.Function:
		return "function"
	case *value.ClassModel:
		return "class"
	case *value.Exception:
		return "exception"
	case *value.GoValue:
		return "govalue"
	}
	return fmt.Sprintf("%T", v)
}

// Run - instrumented execution of a main-module source (same steps as Interpreter.Execute,
// spelled out with the public API so the raw error and the VM stay available).
func Run(src string, opts Opts) *Outcome {
	trackCurrent(src, opts.Modules)
	o := &Outcome{}
	pr := Parse(src, opts.ParseTicks)
	o.Ticks = pr.Ticks
	switch pr.Kind {
	case KPanic, KBudget:
		o.Kind, o.PanicMsg, o.PanicSite = pr.Kind, pr.PanicMsg, pr.PanicSite
		return o
	case KError:
		ClassifyErr(o, pr.Err)
		kind, msg, site := Guard(func() {
			o.Display = exec.DisplayError(exec.WrapSyntaxError(pr.Parser, exec.MODULE_NAME_MAIN, pr.Err))
		})
		if kind != "" {
			o.Kind, o.PanicMsg, o.PanicSite = kind, "DisplayError: "+msg, site
		}
		return o
	}
	return RunProgram(pr.Program, opts)
}

// Finder - in-memory module code finder
func Finder(mainSrc string, modules map[string]string) r.ModuleCodeFinder {
	return func(isMain bool, info r.LibNameInfo) ([]rune, error) {
		if isMain {
			return []rune(mainSrc), nil
		}
		if info.LibType == r.LIB_TYPE_STD {
			return []rune{}, nil
		}
		if s, ok := modules[info.OriginalName]; ok {
			return []rune(s), nil
		}
		return nil, zerr.ModuleNotFound(info.OriginalName)
	}
}

// RunProgram - evaluate a parsed main program
func RunProgram(program *syntax.Program, opts Opts) *Outcome {
	o := &Outcome{}
	vm := r.InitVM(exec.GlobalValues)
	vm.SetModuleCodeFinder(Finder("", opts.Modules))
	if !opts.NoLibs {
		vm.LoadExternalLibs(libs)
	}
	inputs := opts.Inputs
	if inputs == nil {
		inputs = r.ElementMap{}
	}
	exec.VerifTicks = 0
	exec.VerifDepth = 0
	exec.VerifTickBudget = opts.EvalTicks
	if exec.VerifTickBudget == 0 {
		exec.VerifTickBudget = DefaultEvalTicks
	}
	exec.VerifMaxDepth = opts.MaxDepth
	if exec.VerifMaxDepth == 0 {
		exec.VerifMaxDepth = DefaultMaxDepth
	}
	// module sources are parsed during evaluation: give the parser hook a generous budget
	zh.VerifTicks = 0
	zh.VerifTickBudget = 4_000_000
	var val r.Element
	var err error
	var kind, msg, site string
	out := Capture(func() {
		kind, msg, site = Guard(func() {
			val, err = exec.EvalMainModule(vm, program, inputs)
		})
	})
	o.Ticks = exec.VerifTicks
	exec.VerifTickBudget = 0
	exec.VerifMaxDepth = 0
	zh.VerifTickBudget = 0
	o.Trace = splitTrace(out)
	o.StackLen = vm.VerifCallDepth()
	o.ScopeDepth = map[int]int{}
	for id, st := range vm.VerifScopeStats() {
		o.ScopeDepth[id] = st.Depth
	}
	if opts.WantVM {
		o.VM = vm
	}
	switch {
	case kind != "":
		o.Kind, o.PanicMsg, o.PanicSite = kind, msg, site
	case err != nil:
		ClassifyErr(o, err)
		k2, m2, s2 := Guard(func() {
			o.Display = exec.DisplayError(exec.WrapRuntimeError(vm, err))
		})
		if k2 != "" {
			o.Kind, o.PanicMsg, o.PanicSite = k2, "DisplayError: "+m2, s2
		}
	default:
		FillValue(o, val)
	}
	return o
}

// RunCLI - CLI-faithful execution: Interpreter.LoadScript(...).Execute(inputs)
func RunCLI(src string, inputs map[string]r.Element, evalTicks int64) *Outcome {
	trackCurrent(src, nil)
	o := &Outcome{}
	if inputs == nil {
		inputs = r.ElementMap{}
	}
	exec.VerifTicks = 0
	exec.VerifDepth = 0
	exec.VerifTickBudget = evalTicks
	if evalTicks == 0 {
		exec.VerifTickBudget = DefaultEvalTicks
	}
	exec.VerifMaxDepth = DefaultMaxDepth
	zh.VerifTicks = 0
	zh.VerifTickBudget = parseBudget(len([]rune(src)), 0)
	var val r.Element
	var err error
	var kind, msg, site string
	out := Capture(func() {
		kind, msg, site = Guard(func() {
			val, err = exec.NewInterpreter("verif").SetExternalLibs(libs).LoadScript([]rune(src)).Execute(inputs)
		})
	})
	o.Ticks = exec.VerifTicks
	exec.VerifTickBudget = 0
	exec.VerifMaxDepth = 0
	zh.VerifTickBudget = 0
	o.Trace = splitTrace(out)
	switch {
	case kind != "":
		o.Kind, o.PanicMsg, o.PanicSite = kind, msg, site
	case err != nil:
		ClassifyErr(o, err)
		k2, m2, s2 := Guard(func() { o.Display = exec.DisplayError(err) })
		if k2 != "" {
			o.Kind, o.PanicMsg, o.PanicSite = k2, "DisplayError: "+m2, s2
		}
	default:
		FillValue(o, val)
	}
	return o
}

// trackCurrent - when VERIF_TRACK is set, remember the case about to run in a side file so
// that a Go fatal error (stack exhaustion, concurrent map write), which cannot be recovered
// in-process, can be attributed to its input by the driver
func trackCurrent(src string, modules map[string]string) {
	if trackPath == "" {
		return
	}
	doc := map[string]any{"src": src}
	if len(modules) > 0 {
		doc["modules"] = modules
	}
	b, _ := json.Marshal(doc)
	os.WriteFile(trackPath, b, 0o644)
}

// TrackCurrent - the same for checks that call the interpreter directly (note: a description
// of the case about to run)
func TrackCurrent(note string) { trackCurrent(note, nil) }

var trackPath = func() string {
	if os.Getenv("VERIF_TRACK") == "" || os.Getenv("VERIF_OUT") == "" {
		return ""
	}
	return os.Getenv("VERIF_OUT") + "/current-" + os.Getenv("VERIF_SHARD") + "-" + fmt.Sprint(os.Getpid()) + ".json"
}()
