// znrun - run one Zn source file through the harness and print what the checks would see
// (exploration aid):  go run -tags verif ./tools/znrun file.zn
package main

import (
	"fmt"
	"os"

	"github.com/DemoHn/Zn/pkg/exec"
	r "github.com/DemoHn/Zn/pkg/runtime"
	h "verif/harness"
)

func main() {
	// -f file.zn: run the FILE (modules are the files next to it) through LoadFile
	if len(os.Args) == 3 && os.Args[1] == "-f" {
		val, err := exec.NewInterpreter("znrun").SetExternalLibs(h.Libs()).LoadFile(os.Args[2]).Execute(r.ElementMap{})
		if err != nil {
			fmt.Println(exec.DisplayError(err))
			return
		}
		fmt.Println("value:", val.String())
		return
	}
	b, err := os.ReadFile(os.Args[1])
	if err != nil {
		panic(err)
	}
	// further arguments: module files "name=path" (importable as 导入“name”)
	mods := map[string]string{}
	for _, a := range os.Args[2:] {
		for i := 0; i < len(a); i++ {
			if a[i] == '=' {
				mb, err := os.ReadFile(a[i+1:])
				if err != nil {
					panic(err)
				}
				mods[a[:i]] = string(mb)
				break
			}
		}
	}
	o := h.Run(string(b), h.Opts{EvalTicks: 4000000000, MaxDepth: 100000000, Modules: mods})
	for _, l := range o.Trace {
		fmt.Println("| " + l)
	}
	fmt.Println("kind:", o.Kind, "value:", o.ValType, o.ValText)
	if o.Kind == h.KError {
		fmt.Println("error:", o.ErrClass, o.ErrCode, o.ErrMsg)
		fmt.Println(o.Display)
	}
	if o.Kind == h.KPanic {
		fmt.Println("PANIC:", o.PanicMsg, o.PanicSite)
	}
}
