#!/usr/bin/env python3
"""Sensitivity runs: apply one source mutation to a scratch worktree of /repo (under /tmp, removed
afterwards; /repo itself is never modified), run a check against it through tools/altcheck.sh.

  tools/mutant.py CNN [name ...] [--tier quick]      (mutants/CNN.json lists the mutations)

A mutation is {name, file, old, new[, count]}: `old` must occur exactly `count` (default 1)
times in the file.
"""
import json, os, subprocess, sys, time, tempfile, shutil
ROOT = os.path.dirname(os.path.dirname(os.path.abspath(__file__)))
def main():
    args = [a for a in sys.argv[1:] if not a.startswith("--")]
    tier = "quick"
    if "--tier" in sys.argv:
        tier = sys.argv[sys.argv.index("--tier") + 1]
        args = [a for a in args if a != tier]
    prop = args[0].upper()
    names = set(args[1:])
    muts = json.load(open(os.path.join(ROOT, "mutants", prop + ".json")))
    results = []
    wt = tempfile.mkdtemp(prefix="verif-mut-", dir="/tmp")
    os.rmdir(wt)
    subprocess.run(["git", "-C", "/repo", "worktree", "add", "--detach", "-q", wt, "HEAD"], check=True)
    try:
        run_all(muts, names, prop, tier, wt, results)
    finally:
        subprocess.run(["git", "-C", "/repo", "worktree", "remove", "--force", wt])
        shutil.rmtree(wt, ignore_errors=True)
    with open(os.path.join(ROOT, "mutants", "RESULTS.md"), "a") as fh:
        for n, v, dt in results:
            fh.write("| %s | %s | %s | %s | %.1fs |\n" % (prop, n, tier, v, dt))

def run_all(muts, names, prop, tier, wt, results):
    for m in muts:
        if names and m["name"] not in names:
            continue
        path = os.path.join(wt, m["file"])
        src = open(path).read()
        cnt = src.count(m["old"])
        if cnt != m.get("count", 1):
            print("MUTANT %s: pattern occurs %d times in %s (expected %d) - skipped" % (m["name"], cnt, m["file"], m.get("count", 1)))
            results.append((m["name"], "pattern-mismatch", 0))
            continue
        try:
            open(path, "w").write(src.replace(m["old"], m["new"]))
            t0 = time.time()
            p = subprocess.run([os.path.join(ROOT, "tools", "altcheck.sh"), wt, prop, tier], cwd=ROOT, stdout=subprocess.PIPE, stderr=subprocess.STDOUT, text=True)
            dt = time.time() - t0
        finally:
            open(path, "w").write(src)
        sig = [l.strip() for l in p.stdout.splitlines() if l.strip().startswith("sub=")]
        verdict = {0: "SURVIVED", 1: "caught", 2: "inconclusive"}.get(p.returncode, "rc=%d" % p.returncode)
        print("MUTANT %-34s %-12s %5.1fs  %s" % (m["name"], verdict, dt, "; ".join(sig)[:150]))
        if p.returncode == 2:
            print(p.stdout[-1500:])
        results.append((m["name"], verdict, dt))

if __name__ == "__main__":
    main()
