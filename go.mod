module verif

go 1.23

require (
	github.com/DemoHn/Zn v0.0.0
	pgregory.net/rapid v1.3.0
)

replace github.com/DemoHn/Zn => /repo

godebug default=go1.18
