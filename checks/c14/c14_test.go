// C14 - text operations count characters; % formatting follows the directives
package c14

import (
	"encoding/json"
	"fmt"
	"math"
	"regexp"
	"strconv"
	"strings"
	"testing"
	"unicode/utf8"

	r "github.com/DemoHn/Zn/pkg/runtime"
	"github.com/DemoHn/Zn/pkg/value"
	"pgregory.net/rapid"

	h "verif/harness"
	"verif/zn"
)

func TestMain(m *testing.M) { h.Main(m, "C14", replay) }

type sliceCase struct {
	Text string `json:"text"`
	I    int    `json:"i"`
	J    int    `json:"j"`
	Sep  string `json:"sep,omitempty"`
}

type argVal struct {
	T string `json:"t"` // num str bool null list
	B uint64 `json:"bits,omitempty"`
	S string `json:"s,omitempty"`
	V bool   `json:"v,omitempty"`
}

type fmtCase struct {
	Tpl  string   `json:"tpl"`
	Args []argVal `json:"args"`
}

func replay(sub string, raw json.RawMessage) ([]h.Failure, error) {
	switch sub {
	case "chars":
		var c sliceCase
		if err := json.Unmarshal(raw, &c); err != nil {
			return nil, err
		}
		return checkChars(c), nil
	case "history":
		var c histCase
		if err := json.Unmarshal(raw, &c); err != nil {
			return nil, err
		}
		return checkHistory(c), nil
	case "pyfmt":
		var c pyCase
		if err := json.Unmarshal(raw, &c); err != nil {
			return nil, err
		}
		return checkPyFormat(c), nil
	case "display":
		var c displayCase
		if err := json.Unmarshal(raw, &c); err != nil {
			return nil, err
		}
		return checkDisplayForm(c), nil
	case "format":
		var c fmtCase
		if err := json.Unmarshal(raw, &c); err != nil {
			return nil, err
		}
		f, _ := checkFormat(c)
		return f, nil
	}
	return nil, fmt.Errorf("unknown sub-check %q", sub)
}

// ---------------------------------------------------------------------------------------
// (a) characters

func strOf(e r.Element) (string, bool) {
	s, ok := e.(*value.String)
	if !ok {
		return "", false
	}
	return s.GetValue(), true
}

func checkChars(c sliceCase) (fails []h.Failure) {
	runes := []rune(c.Text)
	n := len(runes)
	kind, msg, site := h.Guard(func() {
		s := value.NewString(c.Text)
		ln, err := s.GetProperty("长度")
		if err != nil {
			fails = append(fails, h.Failure{Sig: "chars/length-error", Msg: err.Error()})
			return
		}
		if ok, why := zn.Same(ln, float64(n)); !ok {
			fails = append(fails, h.Failure{Sig: "chars/length", Msg: fmt.Sprintf("text %q has %d characters: %s", c.Text, n, why)})
			return
		}
		ca, err := s.GetProperty("字符组")
		want := &zn.ListV{}
		for _, x := range runes {
			want.Items = append(want.Items, string(x))
		}
		if err != nil {
			fails = append(fails, h.Failure{Sig: "chars/array-error", Msg: err.Error()})
			return
		}
		if ok, why := zn.Same(ca, want); !ok {
			fails = append(fails, h.Failure{Sig: "chars/array", Msg: fmt.Sprintf("字符组 of %q: %s", c.Text, why)})
			return
		}
		// slicing
		got, err := value.NewString(c.Text).ExecMethod("取样", []r.Element{value.NewNumber(float64(c.I)), value.NewNumber(float64(c.J))})
		if c.I >= 1 && c.I <= c.J && c.J <= n {
			wantS := string(runes[c.I-1 : c.J])
			if err != nil {
				fails = append(fails, h.Failure{Sig: "chars/slice-rejected", Msg: fmt.Sprintf("取样(%d,%d) of %q (%d characters) must be %q; got error %v", c.I, c.J, c.Text, n, wantS, err)})
				return
			}
			if gs, ok := strOf(got); !ok || gs != wantS {
				fails = append(fails, h.Failure{Sig: "chars/slice-wrong", Msg: fmt.Sprintf("取样(%d,%d) of %q (%d characters) must be characters %d..%d = %q; got %q", c.I, c.J, c.Text, n, c.I, c.J, wantS, got.String())})
				return
			}
		} else if err == nil {
			// conventions for other index pairs are not stated: a value must still consist of
			// whole characters of the text
			gs, ok := strOf(got)
			if !ok {
				fails = append(fails, h.Failure{Sig: "chars/slice-not-text", Msg: fmt.Sprintf("取样(%d,%d) of %q returned %T", c.I, c.J, c.Text, got)})
				return
			}
			if utf8.ValidString(c.Text) && (!utf8.ValidString(gs) || !strings.Contains(c.Text, gs)) {
				fails = append(fails, h.Failure{Sig: "chars/slice-splits-character", Msg: fmt.Sprintf("取样(%d,%d) of %q returned %q, which is not made of whole characters of the text", c.I, c.J, c.Text, gs)})
				return
			}
		}
		// splitting
		parts, err := value.NewString(c.Text).ExecMethod("分隔", []r.Element{value.NewString(c.Sep)})
		if err != nil {
			fails = append(fails, h.Failure{Sig: "chars/split-error", Msg: err.Error()})
			return
		}
		if c.Sep == "" {
			if n > 0 {
				if ok, why := zn.Same(parts, want); !ok {
					fails = append(fails, h.Failure{Sig: "chars/split-empty-separator", Msg: fmt.Sprintf("分隔(%q, \"\") must equal 字符组: %s", c.Text, why)})
					return
				}
			}
		}
		joined, err := parts.ExecMethod("拼接", []r.Element{value.NewString(c.Sep)})
		if err != nil {
			fails = append(fails, h.Failure{Sig: "chars/join-error", Msg: err.Error()})
			return
		}
		if js, ok := strOf(joined); !ok || js != c.Text {
			fails = append(fails, h.Failure{Sig: "chars/split-join", Msg: fmt.Sprintf("拼接(分隔(%q,%q),%q) = %q", c.Text, c.Sep, c.Sep, joined.String())})
			return
		}
	})
	if kind != "" {
		fails = append(fails, h.Failure{Sig: "chars/" + kind + "@" + site, Msg: fmt.Sprintf("text %q 取样(%d,%d): %s", c.Text, c.I, c.J, msg)})
	}
	return
}

func genText() *rapid.Generator[string] {
	pieces := []string{"a", "b", "Z", " ", "你", "好", "世", "界", "é", "é", "😊", "𝒳", "👨‍👩‍👧", "¥", "ß", "ﬃ", "​", "\t", "0", "，"}
	return rapid.Custom(func(t *rapid.T) string {
		n := rapid.IntRange(0, 12).Draw(t, "n")
		var b strings.Builder
		for i := 0; i < n; i++ {
			b.WriteString(rapid.SampledFrom(pieces).Draw(t, "p"))
		}
		return b.String()
	})
}

func TestCharsRandom(t *testing.T) {
	rapid.Check(t, func(t *rapid.T) {
		text := genText().Draw(t, "text")
		n := len([]rune(text))
		c := sliceCase{Text: text, I: rapid.IntRange(-n-1, n+1).Draw(t, "i"), J: rapid.IntRange(-n-1, n+1).Draw(t, "j")}
		if n > 0 && rapid.IntRange(0, 3).Draw(t, "valid") > 0 {
			c.I = rapid.IntRange(1, n).Draw(t, "vi")
			c.J = rapid.IntRange(c.I, n).Draw(t, "vj")
		}
		if rapid.Bool().Draw(t, "sep") {
			c.Sep = rapid.SampledFrom([]string{"", "a", "你", "😊", " ", "ab", "好世"}).Draw(t, "sepv")
		}
		multi := false
		if c.I >= 1 && c.I <= c.J && c.J <= n {
			for _, x := range []rune(text)[c.I-1 : c.J] {
				if x > 0x7f {
					multi = true
				}
			}
		}
		labels := []string{}
		if multi {
			labels = append(labels, "multibyte-inside-slice")
		}
		if c.I < 1 || c.I > c.J || c.J > n {
			labels = append(labels, "unspecified-index-pair")
		}
		h.R.Case(t, "chars", fmt.Sprintf("%q/%d/%d/%q", text, c.I, c.J, c.Sep), c, labels, multi, checkChars(c))
	})
}

// every index pair of short texts
func TestCharsAllPairs(t *testing.T) {
	texts := []string{"", "a", "你好世界", "a你😊b", "éx", "😊😊", "𝒳yz", "ab", "好"}
	var nt int64
	for _, text := range texts {
		n := len([]rune(text))
		for i := -n - 1; i <= n+1; i++ {
			for j := -n - 1; j <= n+1; j++ {
				c := sliceCase{Text: text, I: i, J: j}
				multi := i >= 1 && i <= j && j <= n && len(string([]rune(text)[i-1:j])) > j-i+1
				if multi {
					nt++
				}
				h.R.Case(t, "chars", fmt.Sprintf("%q/%d/%d/", text, i, j), c, []string{"all-pairs"}, multi, checkChars(c))
			}
		}
	}
	h.R.Exhaustive("chars-pairs", "all index pairs in [-len-1, len+1]^2 of 9 short texts")
}

// ---------------------------------------------------------------------------------------
// (b) formatting

func (a argVal) value() zn.Value {
	switch a.T {
	case "num":
		return math.Float64frombits(a.B)
	case "str":
		return a.S
	case "bool":
		return a.V
	case "null":
		return zn.NullV{}
	default:
		return &zn.ListV{Items: []zn.Value{float64(1), "x"}}
	}
}

var directiveRe = regexp.MustCompile(`^#(\+)?(?:\.([0-9]+))?([E%])?$`)

// refFormat - the documented formatter (manual ch.6). Returns the text, whether an error is
// documented, or a reason when the statement does not determine the outcome.
func refFormat(tpl string, args []zn.Value) (out string, wantErr bool, unspec string) {
	var b strings.Builder
	rs := []rune(tpl)
	k := 0
	type ph struct{ dir string }
	var phs []ph
	// pass 1: structure
	var segs []any
	i := 0
	for i < len(rs) {
		switch rs[i] {
		case '{':
			j := i + 1
			for j < len(rs) && rs[j] != '}' && rs[j] != '{' {
				j++
			}
			if j >= len(rs) || rs[j] == '{' {
				return "", true, "" // unclosed or nested
			}
			phs = append(phs, ph{string(rs[i+1 : j])})
			segs = append(segs, ph{string(rs[i+1 : j])})
			i = j + 1
		case '}':
			return "", true, ""
		default:
			j := i
			for j < len(rs) && rs[j] != '{' && rs[j] != '}' {
				j++
			}
			segs = append(segs, string(rs[i:j]))
			i = j
		}
	}
	if len(phs) != len(args) {
		return "", true, ""
	}
	for _, sg := range segs {
		switch x := sg.(type) {
		case string:
			b.WriteString(x)
		case ph:
			arg := args[k]
			k++
			if x.dir == "" {
				b.WriteString(zn.Show(arg))
				continue
			}
			if !strings.HasPrefix(x.dir, "#") {
				return "", true, ""
			}
			m := directiveRe.FindStringSubmatch(x.dir)
			f, isNum := arg.(float64)
			if m == nil {
				// not one of the documented spellings: either rejected or (for spellings made
				// of the documented parts in another combination) unspecified
				// ... but a directive names ONE rendering: anything after a suffix (a second
				// suffix, digits, a sign, a dot) is malformed under every reading
				if regexp.MustCompile(`^#[+.0-9]*[E%][+.0-9E%]+$`).MatchString(x.dir) {
					return "", true, ""
				}
				if regexp.MustCompile(`^#[+.0-9E%]*$`).MatchString(x.dir) {
					return "", false, "directive spelling the manual neither lists nor excludes: " + x.dir
				}
				return "", true, ""
			}
			if !isNum {
				return "", true, ""
			}
			plus, precS, suffix := m[1] == "+", m[2], m[3]
			if precS == "" && suffix != "" {
				return "", false, "directive without precision: " + x.dir
			}
			if math.IsNaN(f) || math.IsInf(f, 0) {
				return "", false, "rendering of non-finite numbers"
			}
			prec := -1
			if precS != "" {
				p, err := strconv.Atoi(precS)
				if err != nil || p > 30 {
					return "", false, "precision beyond 30"
				}
				prec = p
			}
			var s string
			switch {
			case suffix == "%":
				if math.IsInf(float64(f*100), 0) {
					return "", false, "rendering of non-finite numbers"
				}
				s = strconv.FormatFloat(float64(f*100), 'f', prec, 64) + "%"
			case suffix == "E":
				s = strconv.FormatFloat(f, 'E', prec, 64)
			case prec >= 0:
				s = strconv.FormatFloat(f, 'f', prec, 64)
			default:
				s = strconv.FormatFloat(f, 'g', 6, 64)
			}
			if plus && !strings.HasPrefix(s, "-") {
				s = "+" + s
			}
			b.WriteString(s)
		}
	}
	return b.String(), false, ""
}

func checkFormat(c fmtCase) ([]h.Failure, string) {
	var args []zn.Value
	for _, a := range c.Args {
		args = append(args, a.value())
	}
	o := h.Run("输入T、L\n输出T % L", h.Opts{Inputs: map[string]r.Element{"T": value.NewString(c.Tpl), "L": zn.ToElem(&zn.ListV{Items: args})}})
	desc := fmt.Sprintf("template %q with arguments %s", c.Tpl, zn.Show(&zn.ListV{Items: args}))
	switch o.Kind {
	case h.KPanic:
		return []h.Failure{{Sig: "format/go-panic@" + o.PanicSite, Msg: desc + ": " + o.PanicMsg}}, ""
	case h.KBudget, h.KNil:
		return []h.Failure{{Sig: "format/" + o.Kind, Msg: desc}}, ""
	}
	if o.Kind == h.KValue && strings.Contains(o.ValText, "%!") {
		return []h.Failure{{Sig: "format/go-fmt-noise", Msg: fmt.Sprintf("%s yields %q (Go fmt error marker leaked)", desc, o.ValText)}}, ""
	}
	want, wantErr, unspec := refFormat(c.Tpl, args)
	if unspec != "" {
		return nil, unspec
	}
	if wantErr {
		if o.Kind != h.KError {
			return []h.Failure{{Sig: "format/error-expected", Msg: fmt.Sprintf("%s: the manual documents an error; got %s", desc, o.Short())}}, ""
		}
		return nil, ""
	}
	if o.Kind != h.KValue || o.ValType != "string" {
		return []h.Failure{{Sig: "format/rejected", Msg: fmt.Sprintf("%s must yield %q; got %s", desc, want, o.Short())}}, ""
	}
	if o.ValText != want {
		return []h.Failure{{Sig: "format/wrong-text", Msg: fmt.Sprintf("%s must yield %q; got %q", desc, want, o.ValText)}}, ""
	}
	return nil, ""
}

func genFmtCase(t *rapid.T) (fmtCase, []string) {
	var c fmtCase
	var tpl strings.Builder
	kinds := map[string]bool{}
	n := rapid.IntRange(0, 6).Draw(t, "nseg")
	nph := 0
	for i := 0; i < n; i++ {
		switch rapid.IntRange(0, 11).Draw(t, "seg") {
		case 0, 1, 2:
			tpl.WriteString(rapid.SampledFrom([]string{"a", "数值为", " ", "%", "%d", "#", "100%", "：", "x=", "\n", "😊"}).Draw(t, "lit"))
		case 3, 4:
			tpl.WriteString("{}")
			nph++
			kinds["{}"] = true
		case 5:
			tpl.WriteString("{#}")
			nph++
			kinds["{#}"] = true
		case 6:
			tpl.WriteString(fmt.Sprintf("{#.%d}", rapid.IntRange(0, 30).Draw(t, "p")))
			nph++
			kinds["{#.N}"] = true
		case 7:
			if rapid.Bool().Draw(t, "plusprec") {
				tpl.WriteString(fmt.Sprintf("{#+.%d}", rapid.IntRange(0, 12).Draw(t, "p")))
			} else {
				tpl.WriteString("{#+}")
			}
			nph++
			kinds["{#+}"] = true
		case 8:
			tpl.WriteString(fmt.Sprintf("{#%s.%d%%}", rapid.SampledFrom([]string{"", "+"}).Draw(t, "pl"), rapid.IntRange(0, 12).Draw(t, "p")))
			nph++
			kinds["{#.N%}"] = true
		case 9:
			tpl.WriteString(fmt.Sprintf("{#%s.%dE}", rapid.SampledFrom([]string{"", "+"}).Draw(t, "pl"), rapid.IntRange(0, 12).Draw(t, "p")))
			nph++
			kinds["{#.NE}"] = true
		case 10:
			bad := rapid.SampledFrom([]string{"{", "}", "{{}}", "{x}", "{#.}", "{#.99999999999999999999}", "{#E%}", "{#x}", "{#.2.3}", "{#++}", "{# }", "{#.2EE}", "{#.2E%}", "{#+.1E%}", "{#%E}", "{#.2%E}", "{#%%}", "{#.2E3}", "{#E.2}", "{#.2%+}", "{#E}", "{#%}", "{#.5000}", "{#.2147483648}", "{#.4294967297}", "}{", "{#.-1}"}).Draw(t, "bad")
			tpl.WriteString(bad)
			if strings.Count(bad, "{") == 1 && strings.Count(bad, "}") == 1 && strings.Index(bad, "{") < strings.Index(bad, "}") {
				nph++
			}
			kinds["malformed"] = true
		case 11:
			tpl.WriteString("{}{#}")
			nph += 2
			kinds["{}"] = true
			kinds["{#}"] = true
		}
	}
	c.Tpl = tpl.String()
	// arguments: usually as many as placeholders, mostly numbers
	na := nph
	if rapid.IntRange(0, 9).Draw(t, "miscount") == 0 {
		na = rapid.IntRange(0, nph+2).Draw(t, "na")
		kinds["count-mismatch"] = na != nph
	}
	for i := 0; i < na; i++ {
		switch rapid.IntRange(0, 9).Draw(t, "argkind") {
		case 0:
			c.Args = append(c.Args, argVal{T: "str", S: rapid.SampledFrom([]string{"", "BCD", "张三", "{}", "%s"}).Draw(t, "s")})
		case 1:
			c.Args = append(c.Args, argVal{T: []string{"bool", "null", "list"}[rapid.IntRange(0, 2).Draw(t, "o")], V: true})
		default:
			c.Args = append(c.Args, argVal{T: "num", B: math.Float64bits(zn.GenDouble().Draw(t, "f"))})
		}
	}
	var labels []string
	for k := range kinds {
		labels = append(labels, k)
	}
	return c, labels
}

func TestFormat(t *testing.T) {
	rapid.Check(t, func(t *rapid.T) {
		c, labels := genFmtCase(t)
		fails, unspec := checkFormat(c)
		if unspec != "" {
			h.R.Skip("format: " + strings.SplitN(unspec, ":", 2)[0])
			if len(fails) == 0 {
				return
			}
		}
		nk := 0
		for _, l := range labels {
			if strings.HasPrefix(l, "{") {
				nk++
			}
		}
		key, _ := json.Marshal(c)
		h.R.Case(t, "format", string(key), c, labels, nk >= 2, fails)
	})
}

func TestCorpus(t *testing.T) { h.RunCorpus(t, "c14", replay) }
