// C01 - expressions evaluate to the values the manual defines
package c01

import (
	"encoding/json"
	"fmt"
	"math"
	"sort"
	"strings"
	"testing"

	r "github.com/DemoHn/Zn/pkg/runtime"
	"github.com/DemoHn/Zn/pkg/value"
	"pgregory.net/rapid"

	h "verif/harness"
	"verif/zn"
)

func TestMain(m *testing.M) { h.Main(m, "C01", replay) }

// inVal - JSON form of an input value (doubles as bit patterns so NaN/Inf/-0 survive)
type inVal struct {
	T string `json:"t"` // num | bool | str
	N uint64 `json:"bits,omitempty"`
	B bool   `json:"b,omitempty"`
	S string `json:"s,omitempty"`
	// informational
	Show string `json:"show,omitempty"`
}

func (v inVal) value() zn.Value {
	switch v.T {
	case "num":
		return math.Float64frombits(v.N)
	case "bool":
		return v.B
	}
	return v.S
}

type exprCase struct {
	Src    string           `json:"src"`
	Inputs map[string]inVal `json:"inputs"`
}

func replay(sub string, raw json.RawMessage) ([]h.Failure, error) {
	if sub == "kinds" {
		var c exprCase
		if err := json.Unmarshal(raw, &c); err != nil {
			return nil, err
		}
		out := h.Run(c.Src, h.Opts{})
		want := "假"
		if strings.Contains(c.Src, "/=") || strings.Contains(c.Src, "不为") {
			want = "真"
		}
		if out.Kind != h.KValue || out.ValText != want {
			return []h.Failure{{Sig: "kinds/plain-vs-other-kind", Msg: c.Src + ": " + out.Short()}}, nil
		}
		return nil, nil
	}
	if sub == "identity" {
		var v inVal
		if err := json.Unmarshal(raw, &v); err != nil {
			return nil, err
		}
		return checkIdentity(v), nil
	}
	return replaySaved(raw)
}

// equality is a relation between VALUES: comparing a value with itself (the same variable on
// both sides) gives what comparing it with an equal value held by another variable gives -
// whatever the answer is where the manual leaves it open (not-a-number)
const identityProg = "输入A、B\n令C = A\n令列 = 【A，1】\n令列二 = 列\n令典 = 【“k” = 【A】】\n令典二 = 典\n输出【列 为 列，列 为 【B，1】，列 为 列二，典 == 典，典 == 【“k” = 【B】】，典 == 典二，列 不为 列，列 不为 【B，1】，列 不为 列二，典 /= 典，典 /= 【“k” = 【B】】，典 /= 典二，A 为 A，A 为 B，A 为 C，A == A，A == B，A == C，A /= A，A /= B，A /= C，A 不为 A，A 不为 B，A 不为 C，【A，1】 为 【A，1】，【A，1】 为 【B，1】，【A，1】 为 【C，1】，【“k” = A】 == 【“k” = A】，【“k” = A】 == 【“k” = B】，【“k” = A】 == 【“k” = C】】"

func checkIdentity(v inVal) []h.Failure {
	o := h.Run(identityProg, h.Opts{Inputs: map[string]r.Element{"A": zn.ToElem(v.value()), "B": zn.ToElem(v.value())}})
	desc := fmt.Sprintf("A and B both %s\n%s", v.Show, identityProg)
	if o.Kind != h.KValue {
		return []h.Failure{{Sig: "identity/" + o.Kind, Msg: desc + "\n" + o.Short()}}
	}
	arr, ok := o.Val.(*value.Array)
	if !ok || len(arr.GetValue()) != 30 {
		return []h.Failure{{Sig: "identity/not-a-list", Msg: desc + "\n" + o.Short()}}
	}
	items := arr.GetValue()
	for i := 0; i < 30; i += 3 {
		a, b, c := items[i].String(), items[i+1].String(), items[i+2].String()
		if a != b || a != c {
			return []h.Failure{{Sig: "identity/answer-depends-on-identity", Msg: fmt.Sprintf("%s\ncomparison #%d: with itself %s, with an equal value of another input %s, with a copy %s", desc, i/3+1, a, b, c)}}
		}
	}
	return nil
}

// a plain value and something that is not a plain value (an object, a method, a type) are
// simply unequal, whichever of the two stands on the left
func TestPlainAgainstOtherKinds(t *testing.T) {
	others := []string{"物", "某法", "某型", "显示", "异常"}
	plains := []string{"空", "0", "1.5", "“”", "“物”", "真", "假", "【】", "【1】", "【“a” = 1】"}
	ops := map[string]string{"==": "假", "为": "假", "/=": "真", "不为": "真"}
	n := 0
	for _, o := range others {
		for _, p := range plains {
			for op, want := range ops {
				for _, flip := range []bool{false, true} {
					l, r := o, p
					if flip {
						l, r = p, o
					}
					src := "定义某型：\n    其值 = 0\n如何某法？\n    输出1\n令物 = （新建某型）\n输出" + l + " " + op + " " + r
					out := h.Run(src, h.Opts{})
					var fails []h.Failure
					if out.Kind != h.KValue || out.ValText != want {
						fails = []h.Failure{{Sig: "kinds/plain-vs-other-kind", Msg: fmt.Sprintf("%s %s %s must be %s (values of different kinds are simply unequal); got %s", l, op, r, want, out.Short())}}
					}
					n++
					if len(fails) > 0 || n%97 == 1 {
						h.R.Case(t, "kinds", src, exprCase{Src: src}, []string{"plain-value-against-other-kind"}, true, fails)
					}
				}
			}
		}
	}
	h.R.AddEvals(int64(n))
	h.R.Exhaustive("kinds", fmt.Sprintf("%d comparisons: 5 non-plain values x 10 plain values x 4 operators x both orders", n))
}

func TestEqualityIgnoresIdentity(t *testing.T) {
	rapid.Check(t, func(t *rapid.T) {
		var v inVal
		switch rapid.IntRange(0, 3).Draw(t, "kind") {
		case 0:
			v = inVal{T: "str", S: zn.GenText().Draw(t, "s")}
			v.Show = fmt.Sprintf("the text %q", v.S)
		case 1:
			v = inVal{T: "bool", B: rapid.Bool().Draw(t, "b")}
			v.Show = fmt.Sprint(v.B)
		default:
			f := zn.GenDouble().Draw(t, "f")
			if rapid.IntRange(0, 3).Draw(t, "nan") == 0 {
				f = math.NaN()
			}
			v = inVal{T: "num", N: math.Float64bits(f), Show: fmt.Sprint(f)}
		}
		key, _ := json.Marshal(v)
		f, isNum := v.value().(float64)
		h.R.Case(t, "identity", string(key), v, []string{"equality-of-a-value-with-itself:" + v.T}, isNum && (math.IsNaN(f) || f == 0), checkIdentity(v))
	})
}

const tagFn = "记"

func prelude() *zn.FuncDef {
	return &zn.FuncDef{Name: tagFn, Params: []string{"N", "V"}, Body: []zn.Stmt{
		&zn.ExprStmt{E: &zn.Call{Name: "显示", Args: []zn.Expr{&zn.Var{Name: "N"}}}},
		&zn.Return{E: &zn.Var{Name: "V"}},
	}}
}

// ---------------------------------------------------------------------------------------
// generator

type gctx struct {
	t               *rapid.T
	inputs          map[string]inVal
	numVars         []string
	boolVar         []string
	strVars         []string
	nextTag         int
	ops             map[int]int // precedence level -> count
	nops            int
	tagUnderDecider bool
	innerErr        bool
	selfCmp         bool
	selfNaN         bool
	longChain       int
}

func (g *gctx) pick(n int, what string) int { return rapid.IntRange(0, n-1).Draw(g.t, what) }

func (g *gctx) leaf(want string) zn.Expr {
	switch want {
	case "num":
		switch g.pick(3, "numleaf") {
		case 0:
			return zn.GenNumeral().Draw(g.t, "numeral")
		default:
			return &zn.Var{Name: g.numVars[g.pick(len(g.numVars), "numvar")]}
		}
	case "bool":
		switch g.pick(3, "boolleaf") {
		case 0:
			return &zn.Var{Name: g.boolVar[g.pick(len(g.boolVar), "boolvar")]}
		case 1:
			return &zn.BoolLit{V: true}
		default:
			return &zn.BoolLit{V: false}
		}
	default:
		if g.pick(2, "strleaf") == 0 {
			return &zn.Var{Name: g.strVars[g.pick(len(g.strVars), "strvar")]}
		}
		return &zn.Str{V: zn.GenText().Draw(g.t, "text")}
	}
}

var cmpSpell = map[string][]string{"==": {"==", "等于"}, "/=": {"/=", "不等于"}, ">": {">", "大于"}, "<": {"<", "小于"}, ">=": {">=", "不小于"}, "<=": {"<=", "不大于"}, "为": {"为"}, "不为": {"不为"}}

func (g *gctx) tag(e zn.Expr) zn.Expr {
	g.nextTag++
	return &zn.Call{Name: tagFn, Args: []zn.Expr{&zn.Num{Val: float64(g.nextTag)}, e}}
}

func (g *gctx) expr(depth int, want string, underRight bool) zn.Expr {
	// occasionally ask for the wrong type (ill-typed operand => documented error)
	if g.pick(16, "illtyped") == 0 {
		want = []string{"num", "bool", "str"}[g.pick(3, "othertype")]
	}
	if depth <= 0 || g.pick(5, "stop") == 0 {
		e := g.leaf(want)
		if underRight && g.pick(2, "tagleaf") == 0 {
			return g.tag(e)
		}
		return e
	}
	var e zn.Expr
	switch want {
	case "num":
		op := []string{"+", "-", "*", "/", "|", "%"}[g.pick(6, "arith")]
		e = &zn.Bin{Op: op, L: g.expr(depth-1, "num", underRight), R: g.expr(depth-1, "num", underRight)}
		g.ops[opLevel(op)]++
		g.nops++
	case "bool":
		switch g.pick(4, "boolform") {
		case 0: // ordering / numeric equality
			op := []string{">", "<", ">=", "<=", "==", "/="}[g.pick(6, "cmp")]
			sp := cmpSpell[op]
			e = &zn.Bin{Op: op, Spell: sp[g.pick(len(sp), "spell")], L: g.expr(depth-1, "num", underRight), R: g.expr(depth-1, "num", underRight)}
			g.ops[3]++
			g.nops++
		case 1: // structural equality on any two plain values
			op := []string{"为", "不为", "==", "/="}[g.pick(4, "eq")]
			sp := cmpSpell[op]
			lt := []string{"num", "bool", "str"}[g.pick(3, "lt")]
			rt := lt
			if g.pick(3, "difftype") == 0 {
				rt = []string{"num", "bool", "str"}[g.pick(3, "rt")]
			}
			l := g.expr(depth-1, lt, underRight)
			r := g.expr(depth-1, rt, underRight)
			if g.pick(5, "same-operand") == 0 {
				// a value compared with ITSELF (x 为 x is 假 exactly when x is not-a-number)
				l = g.leaf(lt)
				r = l
				g.selfCmp = true
				if vv, ok := l.(*zn.Var); ok {
					if in := g.inputs[vv.Name]; in.T == "num" && math.IsNaN(math.Float64frombits(in.N)) {
						g.selfNaN = true
					}
				}
			}
			e = &zn.Bin{Op: op, Spell: sp[g.pick(len(sp), "spell")], L: l, R: r}
			g.ops[3]++
			g.nops++
		default:
			op := []string{"且", "或"}[g.pick(2, "logic")]
			l := g.expr(depth-1, "bool", underRight)
			rr := g.expr(depth-1, "bool", true)
			e = &zn.Bin{Op: op, L: l, R: rr}
			g.ops[opLevel(op)]++
			g.nops++
		}
	default:
		e = g.leaf("str")
	}
	if g.pick(8, "redundant-brace") == 0 {
		e = &zn.Grp{E: e}
	}
	if underRight && g.pick(4, "tagnode") == 0 {
		e = g.tag(e)
	}
	return e
}

func opLevel(op string) int {
	switch op {
	case "或":
		return 1
	case "且":
		return 2
	case "+", "-":
		return 5
	case "*", "/", "|", "%":
		return 6
	}
	return 3
}

func mkInputs(t *rapid.T) (map[string]inVal, []string, []string, []string) {
	in := map[string]inVal{}
	nums := []string{"A", "B", "C", "D"}
	bools := []string{"P", "Q"}
	strs := []string{"S", "T"}
	for _, n := range nums {
		f := zn.GenDouble().Draw(t, "in-"+n)
		if rapid.IntRange(0, 11).Draw(t, "nonfinite-"+n) == 0 {
			f = rapid.SampledFrom([]float64{math.NaN(), math.NaN(), math.Inf(1), math.Inf(-1), math.Copysign(0, -1)}).Draw(t, "nf-"+n)
		}
		in[n] = inVal{T: "num", N: math.Float64bits(f), Show: fmt.Sprint(f)}
	}
	for _, n := range bools {
		in[n] = inVal{T: "bool", B: rapid.Bool().Draw(t, "in-"+n)}
	}
	for _, n := range strs {
		in[n] = inVal{T: "str", S: zn.GenText().Draw(t, "in-"+n)}
	}
	return in, nums, bools, strs
}

func buildProgram(e zn.Expr, inputs map[string]inVal) *zn.Program {
	names := make([]string, 0, len(inputs))
	for n := range inputs {
		names = append(names, n)
	}
	sort.Strings(names)
	return &zn.Program{Inputs: names, Body: []zn.Stmt{prelude(), &zn.Return{E: e}}}
}

// ---------------------------------------------------------------------------------------
// oracle

func runBoth(prog *zn.Program, inputs map[string]inVal) (src string, fails []h.Failure, ref *zn.Result, o *h.Outcome) {
	src, _ = zn.Render(prog, nil)
	in := zn.NewInterp()
	in.Inputs = map[string]zn.Value{}
	elems := map[string]r.Element{}
	for n, v := range inputs {
		in.Inputs[n] = v.value()
		elems[n] = zn.ToElem(v.value())
	}
	ref = in.Run(prog)
	o = h.Run(src, h.Opts{Inputs: elems, EvalTicks: 20*ref.Steps + 1000})
	fails = compare(src, inputs, ref, o)
	return
}

func describeInputs(inputs map[string]inVal) string {
	names := make([]string, 0, len(inputs))
	for n := range inputs {
		names = append(names, n)
	}
	sort.Strings(names)
	var parts []string
	for _, n := range names {
		v := inputs[n]
		switch v.T {
		case "num":
			parts = append(parts, fmt.Sprintf("%s=%v", n, math.Float64frombits(v.N)))
		case "bool":
			parts = append(parts, fmt.Sprintf("%s=%v", n, v.B))
		default:
			parts = append(parts, fmt.Sprintf("%s=%q", n, v.S))
		}
	}
	return strings.Join(parts, " ")
}

func compare(src string, inputs map[string]inVal, ref *zn.Result, o *h.Outcome) []h.Failure {
	ctx := fmt.Sprintf("program:\n%s\ninputs: %s", src, describeInputs(inputs))
	switch o.Kind {
	case h.KPanic:
		return []h.Failure{{Sig: "expr/go-panic@" + o.PanicSite, Msg: ctx + "\nGo panic: " + o.PanicMsg}}
	case h.KBudget:
		return []h.Failure{{Sig: "expr/budget-exceeded", Msg: ctx + "\ndid not terminate within budget: " + o.PanicMsg}}
	case h.KNil:
		return []h.Failure{{Sig: "expr/nil-result", Msg: ctx + "\nresult is a nil element"}}
	}
	if ref.Exhausted {
		return nil
	}
	if len(ref.Unspec) > 0 {
		return nil
	}
	if ref.Err != nil {
		if o.Kind != h.KError {
			return []h.Failure{{Sig: "expr/value-instead-of-error:" + ref.Err.What, Msg: fmt.Sprintf("%s\ndocumented outcome: an error (%s); interpreter produced %s", ctx, ref.Err.What, o.Short())}}
		}
		return nil
	}
	if o.Kind == h.KError {
		return []h.Failure{{Sig: "expr/error-instead-of-value", Msg: fmt.Sprintf("%s\ndocumented value: %s; interpreter produced %s", ctx, zn.Show(ref.Val), o.Short())}}
	}
	if ok, why := zn.Same(o.Val, ref.Val); !ok {
		return []h.Failure{{Sig: "expr/wrong-value", Msg: fmt.Sprintf("%s\n%s", ctx, why)}}
	}
	// multiset of displayed tags (operand order is not specified)
	a := append([]string{}, ref.Out...)
	b := append([]string{}, o.Trace...)
	sort.Strings(a)
	sort.Strings(b)
	if strings.Join(a, ",") != strings.Join(b, ",") {
		return []h.Failure{{Sig: "expr/short-circuit-tags", Msg: fmt.Sprintf("%s\noperands evaluated (tags, as multiset): documented %v, interpreter %v", ctx, a, b)}}
	}
	return nil
}

func TestExpr(t *testing.T) {
	maxDepth := h.Scale(6, 9)
	rapid.Check(t, func(t *rapid.T) {
		inputs, nums, bools, strs := mkInputs(t)
		g := &gctx{t: t, inputs: inputs, numVars: nums, boolVar: bools, strVars: strs, ops: map[int]int{}}
		want := []string{"num", "bool", "bool"}[rapid.IntRange(0, 2).Draw(t, "want")]
		depth := rapid.IntRange(1, maxDepth).Draw(t, "depth")
		e := g.expr(depth, want, false)
		if want == "num" && rapid.IntRange(0, 5).Draw(t, "long-chain") == 0 {
			// a long chain of one precedence level (its tree leans left as deep as the chain
			// is long), some operands being tighter-binding groups of their own
			n := rapid.IntRange(2, 70).Draw(t, "chain-len")
			ops := [][]string{{"+", "-"}, {"*", "/", "|"}, {"+", "-", "+", "-", "*"}}[g.pick(3, "chain-level")]
			small := func() zn.Expr {
				if g.pick(4, "chain-var") == 0 {
					return g.leaf("num")
				}
				return &zn.Num{Val: float64(g.pick(9, "chain-num") + 1)}
			}
			e = small()
			for i := 1; i < n; i++ {
				op := ops[g.pick(len(ops), "chain-op")]
				var r zn.Expr = small()
				if g.pick(6, "chain-group") == 0 {
					r = &zn.Bin{Op: "*", L: small(), R: small()}
				}
				e = &zn.Bin{Op: op, L: e, R: r}
				g.ops[opLevel(op)]++
				g.nops++
			}
			g.longChain = n
		}
		prog := buildProgram(e, inputs)
		src, fails, ref, o := runBoth(prog, inputs)
		if len(ref.Unspec) > 0 {
			h.R.Skip("expr: " + ref.Unspec[0])
		}
		labels := []string{}
		if ref.Err != nil {
			labels = append(labels, "documented-error:"+ref.Err.What)
		} else {
			labels = append(labels, "documented-value")
		}
		if len(ref.Out) > 0 {
			labels = append(labels, "tags-evaluated")
		}
		if g.nextTag > len(ref.Out) && ref.Err == nil {
			labels = append(labels, "tag-skipped-by-short-circuit")
		}
		if len(g.ops) >= 2 {
			labels = append(labels, "multi-level")
		}
		if g.longChain >= 17 {
			labels = append(labels, "chain-of-17-or-more-operands")
		}
		if g.selfCmp {
			labels = append(labels, "value-compared-with-itself")
			if g.selfNaN {
				labels = append(labels, "not-a-number-compared-with-itself")
			}
		}
		nt := (g.nops >= 2 && len(g.ops) >= 2) || (g.nextTag > len(ref.Out) && ref.Err == nil) || (ref.Err != nil && g.nops >= 2)
		c := exprCase{Src: src, Inputs: inputs}
		cj := caseJSON(c, ref, o)
		h.R.Case(t, "expr", src+"|"+describeInputs(inputs), cj, labels, nt, fails)
	})
}

// caseJSON - replayable form: source, inputs and the documented expectation
type savedCase struct {
	Src      string           `json:"src"`
	Inputs   map[string]inVal `json:"inputs"`
	WantErr  bool             `json:"want_err"`
	WantShow string           `json:"want_show,omitempty"`
	WantType string           `json:"want_type,omitempty"`
	WantBits uint64           `json:"want_bits,omitempty"`
	WantTags []string         `json:"want_tags,omitempty"`
	Unspec   bool             `json:"unspecified,omitempty"`
}

func caseJSON(c exprCase, ref *zn.Result, o *h.Outcome) savedCase {
	s := savedCase{Src: c.Src, Inputs: c.Inputs, WantErr: ref.Err != nil, Unspec: len(ref.Unspec) > 0 || ref.Exhausted}
	if ref.Err == nil && ref.Val != nil {
		s.WantShow = zn.Show(ref.Val)
		switch v := ref.Val.(type) {
		case float64:
			s.WantType, s.WantBits = "number", math.Float64bits(v)
		case bool:
			s.WantType = "bool"
		case string:
			s.WantType = "string"
		}
		tags := append([]string{}, ref.Out...)
		sort.Strings(tags)
		s.WantTags = tags
	}
	return s
}

func TestCorpus(t *testing.T) { h.RunCorpus(t, "c01", replay) }

func replaySaved(raw json.RawMessage) ([]h.Failure, error) {
	var s savedCase
	if err := json.Unmarshal(raw, &s); err != nil {
		return nil, err
	}
	elems := map[string]r.Element{}
	for n, v := range s.Inputs {
		elems[n] = zn.ToElem(v.value())
	}
	o := h.Run(s.Src, h.Opts{Inputs: elems, EvalTicks: 200000})
	ctx := fmt.Sprintf("program:\n%s\ninputs: %s", s.Src, describeInputs(s.Inputs))
	switch o.Kind {
	case h.KPanic:
		return []h.Failure{{Sig: "expr/go-panic@" + o.PanicSite, Msg: ctx + "\nGo panic: " + o.PanicMsg}}, nil
	case h.KBudget:
		return []h.Failure{{Sig: "expr/budget-exceeded", Msg: ctx}}, nil
	case h.KNil:
		return []h.Failure{{Sig: "expr/nil-result", Msg: ctx}}, nil
	}
	if s.Unspec {
		return nil, nil
	}
	if s.WantErr {
		if o.Kind != h.KError {
			return []h.Failure{{Sig: "expr/value-instead-of-error:", Msg: ctx + "\ndocumented outcome: an error; got " + o.Short()}}, nil
		}
		return nil, nil
	}
	if o.Kind == h.KError {
		return []h.Failure{{Sig: "expr/error-instead-of-value", Msg: ctx + "\ndocumented value " + s.WantShow + "; got " + o.Short()}}, nil
	}
	bad := o.ValType != s.WantType
	if !bad && s.WantType == "number" {
		wf := math.Float64frombits(s.WantBits)
		if !(math.IsNaN(wf) && math.IsNaN(math.Float64frombits(o.NumBits))) && o.NumBits != s.WantBits {
			bad = true
		}
	} else if !bad && o.ValText != s.WantShow {
		bad = true
	}
	if bad {
		return []h.Failure{{Sig: "expr/wrong-value", Msg: fmt.Sprintf("%s\ndocumented %s %s, got %s", ctx, s.WantType, s.WantShow, o.Short())}}, nil
	}
	tags := append([]string{}, o.Trace...)
	sort.Strings(tags)
	if strings.Join(tags, ",") != strings.Join(s.WantTags, ",") {
		return []h.Failure{{Sig: "expr/short-circuit-tags", Msg: fmt.Sprintf("%s\ntags documented %v got %v", ctx, s.WantTags, tags)}}, nil
	}
	return nil, nil
}
