#!/usr/bin/env python3
"""Take over an independently written breaking change from a scratch worktree:
   tools/seed_intake.py <id> <CNN> <worktree> "<what it needs to manifest>"
Verifies (build, existing suite passes with the change, demo fails with / passes without it),
stores seeded/<id>/{patch.diff, demo file, meta.json}. Detection runs are done separately."""
import json, os, subprocess, sys, glob, shutil
ROOT = os.path.dirname(os.path.dirname(os.path.abspath(__file__)))
ENV = dict(os.environ, GOFLAGS="-mod=mod", GOPROXY="off", GOSUMDB="off", GOTOOLCHAIN="local")

def sh(cmd, cwd, **kw):
    return subprocess.run(cmd, cwd=cwd, env=ENV, stdout=subprocess.PIPE, stderr=subprocess.STDOUT, text=True, shell=isinstance(cmd, str), **kw)

def main():
    sid, prop, wt, needs = sys.argv[1:5]
    out = os.path.join(ROOT, "seeded", sid)
    os.makedirs(out, exist_ok=True)
    demos = [f for f in sh("git ls-files --others --exclude-standard", wt).stdout.split() if f.endswith("_test.go")]
    patch = sh("git diff -- . ':(exclude)*_seeded_demo_test.go'", wt).stdout
    if not patch.strip():
        print("no source change in", wt); sys.exit(1)
    open(os.path.join(out, "patch.diff"), "w").write(patch)
    for d in demos:
        shutil.copy(os.path.join(wt, d), os.path.join(out, os.path.basename(d)))
    ran = {}
    ran["build"] = sh("go build ./pkg/exec/ ./pkg/runtime/ ./pkg/value/ ./pkg/syntax/... ./pkg/io/ ./pkg/common/ ./stdlib/json/ ./stdlib/file/ && go build -tags verif ./pkg/...", wt).returncode
    pkgs = sorted(set(os.path.dirname(d) for d in demos))
    run_demo = "go test -vet=off -count=1 -run 'Seeded|seeded|Demo' " + " ".join("./" + p + "/" for p in pkgs)
    tagged = any(p.startswith("pkg/server") for p in pkgs)
    if tagged:
        run_demo = run_demo.replace("go test", "go test -tags verif")
    with_change = sh(run_demo, wt)
    # existing suite with the change, demo files moved aside
    for d in demos:
        os.rename(os.path.join(wt, d), os.path.join(wt, d + ".aside"))
    suite = sh("go test -vet=off -count=1 ./pkg/exec/ ./pkg/io/ ./pkg/runtime/ ./pkg/syntax/... ./pkg/value/", wt)
    for d in demos:
        os.rename(os.path.join(wt, d + ".aside"), os.path.join(wt, d))
    open("/tmp/seed-%s.patch" % sid, "w").write(patch)
    sh("git apply -R /tmp/seed-%s.patch" % sid, wt)
    without = sh(run_demo, wt)
    sh("git apply /tmp/seed-%s.patch" % sid, wt)
    ok = ran["build"] == 0 and suite.returncode == 0 and with_change.returncode != 0 and without.returncode == 0
    meta = {"id": sid, "breaks_property": prop, "needs_to_manifest": needs, "changed_files": sorted(set(l[6:] for l in patch.splitlines() if l.startswith("+++ b/"))),
            "demo": [os.path.basename(d) for d in demos], "demo_cmd": run_demo,
            "confirmed": {"builds (incl. -tags verif)": ran["build"] == 0, "existing suite passes with the change": suite.returncode == 0,
                          "demo fails with the change": with_change.returncode != 0, "demo passes without the change": without.returncode == 0},
            "how_confirmed": "tools/seed_intake.py in the scratch worktree (git apply -R / git apply, demo run both ways, pinned suite of pkg/{exec,io,runtime,syntax,value} run with the change)",
            "caught_by": [], "accepted": ok}
    json.dump(meta, open(os.path.join(out, "meta.json"), "w"), ensure_ascii=False, indent=1)
    print(json.dumps(meta["confirmed"], ensure_ascii=False), "ACCEPTED" if ok else "REJECTED")
    if not ok:
        print(suite.stdout[-800:]); print(with_change.stdout[-500:]); print(without.stdout[-500:])
main()
