// C08 - method calls and objects bind arguments, receivers and results correctly
package c08

import (
	"encoding/json"
	"fmt"
	"strings"
	"testing"

	"pgregory.net/rapid"

	h "verif/harness"
	"verif/zn"
)

func TestMain(m *testing.M) { h.Main(m, "C08", replay) }

type saved struct {
	Src       string   `json:"src"`
	WantTrace []string `json:"want_trace"`
	WantErr   bool     `json:"want_err"`
	ErrWhat   string   `json:"err_what,omitempty"`
	WantKnown bool     `json:"want_value_known"`
	WantShow  string   `json:"want_show,omitempty"`
	Steps     int64    `json:"ref_steps"`
	Depth     int      `json:"max_depth"`
}

func replay(sub string, raw json.RawMessage) ([]h.Failure, error) {
	var s saved
	if err := json.Unmarshal(raw, &s); err != nil {
		return nil, err
	}
	return judge(&s), nil
}

func judge(s *saved) []h.Failure {
	o := h.Run(s.Src, h.Opts{EvalTicks: 20*s.Steps + 2000, MaxDepth: 4*s.Depth + 200})
	ctx := "program:\n" + s.Src
	switch o.Kind {
	case h.KPanic:
		return []h.Failure{{Sig: "call/go-panic@" + o.PanicSite, Msg: ctx + "\nGo panic: " + o.PanicMsg}}
	case h.KBudget:
		return []h.Failure{{Sig: "call/does-not-terminate", Msg: ctx + "\n" + o.PanicMsg}}
	case h.KNil:
		return []h.Failure{{Sig: "call/nil-result", Msg: ctx}}
	}
	if strings.Join(o.Trace, "\n") != strings.Join(s.WantTrace, "\n") {
		return []h.Failure{{Sig: "call/trace-mismatch" + firstDiff(s.WantTrace, o.Trace), Msg: fmt.Sprintf("%s\ndocumented trace: %v (error=%v %s)\ninterpreter trace: %v\noutcome: %s", ctx, tail(s.WantTrace), s.WantErr, s.ErrWhat, tail(o.Trace), o.Short())}}
	}
	if s.WantErr != (o.Kind == h.KError) {
		sig := "call/error-expected:" + s.ErrWhat
		if !s.WantErr {
			sig = "call/unexpected-error"
		}
		return []h.Failure{{Sig: sig, Msg: fmt.Sprintf("%s\ndocumented error=%v (%s); interpreter: %s", ctx, s.WantErr, s.ErrWhat, o.Short())}}
	}
	if o.Kind == h.KValue && s.WantKnown && o.ValText != s.WantShow {
		return []h.Failure{{Sig: "call/wrong-result", Msg: fmt.Sprintf("%s\ndocumented result %q; interpreter: %s", ctx, s.WantShow, o.Short())}}
	}
	return nil
}

func tail(xs []string) []string {
	if len(xs) > 40 {
		return append([]string{"…"}, xs[len(xs)-40:]...)
	}
	return xs
}

func firstDiff(want, got []string) string {
	i := 0
	for i < len(want) && i < len(got) && want[i] == got[i] {
		i++
	}
	switch {
	case i < len(want) && i < len(got):
		return "@value"
	case i < len(got):
		return "@extra-output"
	}
	return "@missing-output"
}

// ---------------------------------------------------------------------------------------

func show(tag string, es ...zn.Expr) zn.Stmt {
	return &zn.ExprStmt{E: &zn.Call{Name: "显示", Args: append([]zn.Expr{&zn.Str{V: tag}}, es...)}}
}
func num(f float64) zn.Expr               { return &zn.Num{Val: f} }
func v(n string) zn.Expr                  { return &zn.Var{Name: n} }
func this(n string) zn.Expr               { return &zn.This{Name: n} }
func bin(op string, l, r zn.Expr) zn.Expr { return &zn.Bin{Op: op, L: l, R: r} }
func ret(e zn.Expr) zn.Stmt               { return &zn.Return{E: e} }
func set(t, e zn.Expr) zn.Stmt            { return &zn.ExprStmt{E: &zn.Assign{Target: t, E: e}} }

type gen struct {
	t            *rapid.T
	labels       map[string]bool
	tagN         int
	objs         []string // object variable names
	cls          map[string]string
	maxRec       int
	twoReceivers bool
}

func (g *gen) pick(n int, w string) int { return rapid.IntRange(0, n-1).Draw(g.t, w) }

func (g *gen) tag(e zn.Expr) zn.Expr {
	g.tagN++
	return &zn.Call{Name: "记", Args: []zn.Expr{num(float64(g.tagN)), e}}
}

func (g *gen) numArg(depth int) zn.Expr {
	switch g.pick(6, "arg") {
	case 0, 1:
		return num(float64(g.pick(9, "lit")))
	case 2:
		return g.tag(num(float64(g.pick(9, "tl"))))
	case 3:
		if depth > 0 {
			g.labels["call-nested-in-argument"] = true
			return &zn.Call{Name: "双", Args: []zn.Expr{g.numArg(depth - 1)}}
		}
		return num(2)
	case 4:
		if depth > 0 {
			return &zn.Call{Name: "混", Args: []zn.Expr{g.numArg(depth - 1), g.numArg(depth - 1), g.numArg(depth - 1), g.numArg(depth - 1)}}
		}
		return num(3)
	default:
		if len(g.objs) > 0 {
			return &zn.Member{Root: v(g.objs[g.pick(len(g.objs), "o")]), Name: "数"}
		}
		return num(4)
	}
}

func (g *gen) prelude() []zn.Stmt {
	return []zn.Stmt{
		&zn.FuncDef{Name: "记", Params: []string{"N", "V"}, Body: []zn.Stmt{show("tag", v("N")), ret(v("V"))}},
		&zn.FuncDef{Name: "零", Body: []zn.Stmt{show("零-body"), ret(num(0))}},
		&zn.FuncDef{Name: "双", Params: []string{"N"}, Body: []zn.Stmt{show("双-body", v("N")), ret(bin("*", v("N"), num(2)))}},
		&zn.FuncDef{Name: "混", Params: []string{"A", "B", "C", "D"}, Body: []zn.Stmt{show("混-body", v("A"), v("B"), v("C"), v("D")), ret(bin("-", bin("+", v("A"), bin("*", v("B"), v("C"))), v("D")))}},
		// self recursion on a decreasing counter
		&zn.FuncDef{Name: "和", Params: []string{"N"}, Body: []zn.Stmt{
			&zn.If{Conds: []zn.Expr{bin("<=", v("N"), num(0))}, Blocks: [][]zn.Stmt{{ret(num(0))}}},
			ret(bin("+", v("N"), &zn.Call{Name: "和", Args: []zn.Expr{bin("-", v("N"), num(1))}})),
		}},
		// recursion with statements after the recursive call (each level continues after its callee returned)
		&zn.FuncDef{Name: "层", Params: []string{"N"}, Body: []zn.Stmt{
			&zn.If{Conds: []zn.Expr{bin("<=", v("N"), num(0))}, Blocks: [][]zn.Stmt{{ret(num(0))}}},
			&zn.Let{Names: []string{"R"}, E: &zn.Call{Name: "层", Args: []zn.Expr{bin("-", v("N"), num(1))}}},
			show("层-after", v("N"), v("R")),
			ret(bin("+", v("R"), num(1))),
		}},
		// an exception raised two calls below whoever handles it
		&zn.FuncDef{Name: "真抛", Params: []string{"N"}, Body: []zn.Stmt{&zn.Throw{Class: "异常", Args: []zn.Expr{&zn.Str{V: "深"}}}}},
		&zn.FuncDef{Name: "深抛", Params: []string{"N"}, Body: []zn.Stmt{show("深抛-in", v("N")), ret(&zn.Call{Name: "真抛", Args: []zn.Expr{v("N")}})}},
		// a method (and a type) declared inside a method body: they belong to each call
		&zn.FuncDef{Name: "外", Params: []string{"N"}, Body: []zn.Stmt{
			&zn.FuncDef{Name: "内", Params: []string{"M"}, Body: []zn.Stmt{ret(bin("*", v("M"), num(2)))}},
			&zn.ClassDef{Name: "内类", Props: []zn.Prop{{Name: "值", Init: num(7)}}},
			show("外-in", v("N")),
			ret(bin("+", &zn.Call{Name: "内", Args: []zn.Expr{v("N")}}, &zn.Member{Root: &zn.New{Class: "内类"}, Name: "值"})),
		}},
		// a name bound nearer than a top-level method of the same name is what a call means: an
		// input that holds a method (施 is called with 翻 for its input 变, while a method 变
		// exists), a method declared inside a body (支 below, while a top-level 支 exists)
		&zn.FuncDef{Name: "翻", Params: []string{"M"}, Body: []zn.Stmt{ret(bin("*", v("M"), num(2)))}},
		&zn.FuncDef{Name: "变", Params: []string{"M"}, Body: []zn.Stmt{ret(bin("+", v("M"), num(1)))}},
		&zn.FuncDef{Name: "支", Params: []string{"M"}, Body: []zn.Stmt{ret(bin("+", v("M"), num(7000)))}},
		&zn.FuncDef{Name: "施", Params: []string{"变", "X"}, Body: []zn.Stmt{show("施-in", v("X")), ret(&zn.Call{Name: "变", Args: []zn.Expr{v("X")}})}},
		// methods and types declared inside a branch, a loop pass, a handler: known in that
		// block (from their declaration on), gone when it ends
		&zn.FuncDef{Name: "嵌", Params: []string{"N"}, Body: []zn.Stmt{
			&zn.Let{Names: []string{"和"}, E: num(0)},
			&zn.If{Conds: []zn.Expr{bin(">", v("N"), num(0))}, Blocks: [][]zn.Stmt{{
				&zn.FuncDef{Name: "支", Params: []string{"M"}, Body: []zn.Stmt{ret(bin("+", v("M"), num(100)))}},
				&zn.ClassDef{Name: "支类", Props: []zn.Prop{{Name: "值", Init: num(8)}}},
				&zn.CtorDef{Class: "支类", Params: []string{"初"}, Body: []zn.Stmt{&zn.ExprStmt{E: &zn.Assign{Target: &zn.This{Name: "值"}, E: v("初")}}}},
				&zn.ExprStmt{E: &zn.Assign{Target: v("和"), E: bin("+", bin("+", v("和"), &zn.Call{Name: "支", Args: []zn.Expr{v("N")}}), &zn.Member{Root: &zn.New{Class: "支类", Args: []zn.Expr{num(8)}}, Name: "值"})}},
			}}, Else: []zn.Stmt{
				&zn.FuncDef{Name: "支", Params: []string{"M"}, Body: []zn.Stmt{ret(bin("-", v("M"), num(100)))}},
				&zn.ExprStmt{E: &zn.Assign{Target: v("和"), E: &zn.Call{Name: "支", Args: []zn.Expr{v("N")}}}},
			}},
			&zn.ForEach{Names: []string{"项"}, E: &zn.ListLit{Items: []zn.Expr{num(1), num(2)}}, Body: []zn.Stmt{
				&zn.FuncDef{Name: "环", Params: []string{"M"}, Body: []zn.Stmt{ret(bin("*", v("M"), num(3)))}},
				&zn.ExprStmt{E: &zn.Assign{Target: v("和"), E: bin("+", v("和"), &zn.Call{Name: "环", Args: []zn.Expr{v("项")}})}},
			}},
			show("嵌-sum", v("N"), v("和")),
			ret(v("和")),
		}},
		&zn.FuncDef{Name: "嵌救", Params: []string{"N"}, Body: []zn.Stmt{ret(bin("/", v("N"), num(0)))},
			Catches: []zn.Catch{{Class: "异常", Body: []zn.Stmt{
				&zn.FuncDef{Name: "救", Params: []string{"M"}, Body: []zn.Stmt{ret(bin("+", v("M"), num(1000)))}},
				ret(&zn.Call{Name: "救", Args: []zn.Expr{v("N")}}),
			}}}},
		&zn.FuncDef{Name: "嵌漏", Params: []string{"N"}, Body: []zn.Stmt{
			&zn.If{Conds: []zn.Expr{&zn.BoolLit{V: true}}, Blocks: [][]zn.Stmt{{
				&zn.FuncDef{Name: "漏支", Params: []string{"M"}, Body: []zn.Stmt{ret(v("M"))}},
				show("嵌漏-in", &zn.Call{Name: "漏支", Args: []zn.Expr{v("N")}}),
			}}},
			ret(&zn.Call{Name: "漏支", Args: []zn.Expr{v("N")}}),
		}},
		// 输出 from inside a loop over a collection: the call yields THAT value, and nothing of
		// the loop runs afterwards (no later entry is visited, no later 输出 replaces the value)
		&zn.FuncDef{Name: "查", Params: []string{"集", "标"}, Body: []zn.Stmt{
			&zn.ForEach{Names: []string{"键", "值"}, E: v("集"), Body: []zn.Stmt{
				show("查-visit", v("键")),
				&zn.If{Conds: []zn.Expr{bin("==", v("值"), v("标"))}, Blocks: [][]zn.Stmt{{ret(v("键"))}}},
			}},
			ret(&zn.Str{V: "无"}),
		}},
		// a method received as an input and called through that name: the SAME call site runs
		// whichever method THIS call was handed
		&zn.FuncDef{Name: "应用", Params: []string{"某法", "值"}, Body: []zn.Stmt{
			show("应用-in", v("值")),
			ret(&zn.Call{Name: "某法", Args: []zn.Expr{v("值")}}),
		}},
		// mutual recursion
		&zn.FuncDef{Name: "偶", Params: []string{"N"}, Body: []zn.Stmt{
			&zn.If{Conds: []zn.Expr{bin("==", v("N"), num(0))}, Blocks: [][]zn.Stmt{{ret(&zn.BoolLit{V: true})}}},
			ret(&zn.Call{Name: "奇", Args: []zn.Expr{bin("-", v("N"), num(1))}}),
		}},
		&zn.FuncDef{Name: "奇", Params: []string{"N"}, Body: []zn.Stmt{
			&zn.If{Conds: []zn.Expr{bin("==", v("N"), num(0))}, Blocks: [][]zn.Stmt{{ret(&zn.BoolLit{V: false})}}},
			ret(&zn.Call{Name: "偶", Args: []zn.Expr{bin("-", v("N"), num(1))}}),
		}},
	}
}

func (g *gen) classes() []zn.Stmt {
	var out []zn.Stmt
	for ci, name := range []string{"甲类", "乙类"} {
		listDefault := &zn.ListLit{}
		if g.pick(2, "ld") == 0 {
			listDefault.Items = []zn.Expr{num(float64(ci))}
		}
		c := &zn.ClassDef{Name: name, Props: []zn.Prop{
			{Name: "数", Init: num(float64(10 * (ci + 1)))},
			{Name: "表", Init: listDefault},
			{Name: "典", Init: &zn.DictLit{Keys: []string{"k"}, Vals: []zn.Expr{num(1)}}},
			{Name: "名", Init: &zn.Str{V: name}},
			// a scalar default that is never reassigned, only changed in place (自增 / 自减)
			{Name: "次", Init: num(0)},
			// another object of the same type (linked objects: a chain link may return a
			// DIFFERENT receiver of the same type)
			{Name: "邻", Init: &zn.NullLit{}},
		}}
		if ci == 1 {
			// defaults that are not literals: the result of a method declared above the type,
			// and an object of the EARLIER type (built by that type's constructor if it has one)
			c.Props = append(c.Props, zn.Prop{Name: "初", Init: &zn.Call{Name: "双", Args: []zn.Expr{num(3)}}})
			var args []zn.Expr
			if g.cls["甲类"] == "ctor" {
				args = []zn.Expr{num(7), num(8)}
			}
			c.Props = append(c.Props, zn.Prop{Name: "件", Init: &zn.New{Class: "甲类", Args: args}})
			g.labels["computed-default-properties"] = true
		}
		c.Methods = []zn.FuncDef{
			{Name: "加", Params: []string{"D"}, Body: []zn.Stmt{show(name+"-加", this("数"), v("D")), set(this("数"), bin("+", this("数"), v("D"))), ret(v("此"))}},
			{Name: "取", Body: []zn.Stmt{ret(this("数"))}},
			{Name: "推", Params: []string{"E"}, Body: []zn.Stmt{&zn.ExprStmt{E: &zn.MCall{Root: this("表"), Chain: []zn.Call{{Name: "后增", Args: []zn.Expr{v("E")}}}}}, ret(&zn.Member{Root: this("表"), Name: "长度"})}},
			{Name: "取表", Body: []zn.Stmt{ret(this("表"))}},
			// 稳: handles an exception that crossed two calls; 托: another object's method calls it and uses 其 afterwards
			{Name: "稳", Params: []string{"N"}, Body: []zn.Stmt{ret(&zn.Call{Name: "深抛", Args: []zn.Expr{v("N")}})},
				Catches: []zn.Catch{{Class: "异常", Body: []zn.Stmt{show(name + "-稳-handler"), ret(num(-1))}}}},
			{Name: "托", Params: []string{"别", "N"}, Body: []zn.Stmt{
				&zn.Let{Names: []string{"果"}, E: &zn.MCall{Root: v("别"), Chain: []zn.Call{{Name: "稳", Args: []zn.Expr{v("N")}}}}},
				show(name+"-托", this("名"), this("数"), v("果")),
				set(this("数"), bin("+", this("数"), num(1))),
				ret(this("数"))}},
			{Name: "设邻", Params: []string{"别"}, Body: []zn.Stmt{set(this("邻"), v("别")), ret(v("此"))}},
			{Name: "取邻", Body: []zn.Stmt{ret(this("邻"))}},
			{Name: "计", Params: []string{"D"}, Body: []zn.Stmt{&zn.ExprStmt{E: &zn.MCall{Root: this("次"), Chain: []zn.Call{{Name: "自增", Args: []zn.Expr{v("D")}}}}}, ret(this("次"))}},
			{Name: "减数", Params: []string{"D"}, Body: []zn.Stmt{&zn.ExprStmt{E: &zn.MCall{Root: this("数"), Chain: []zn.Call{{Name: "自减", Args: []zn.Expr{v("D")}}}}}, ret(this("数"))}},
			{Name: "调", Body: []zn.Stmt{ret(&zn.Call{Name: "双", Args: []zn.Expr{this("数")}})}},
			{Name: "自增两次", Body: []zn.Stmt{&zn.ExprStmt{E: &zn.MCall{Root: v("此"), Chain: []zn.Call{{Name: "加", Args: []zn.Expr{num(1)}}, {Name: "加", Args: []zn.Expr{num(1)}}}}}, ret(this("数"))}},
			{Name: "并", Params: []string{"别"}, Body: []zn.Stmt{
				// uses another receiver inside a method: 其 must stay this object's
				&zn.ExprStmt{E: &zn.MCall{Root: v("别"), Chain: []zn.Call{{Name: "加", Args: []zn.Expr{this("数")}}}}},
				show(name+"-并", this("数"), &zn.Member{Root: v("别"), Name: "数"}),
				ret(this("数"))}},
		}
		out = append(out, c)
		if ci == 0 || g.pick(2, "ctor") == 0 {
			out = append(out, &zn.CtorDef{Class: name, Params: []string{"A", "B"}, Body: []zn.Stmt{
				show(name+"-ctor", v("A"), v("B")),
				set(this("数"), v("A")),
				&zn.ExprStmt{E: &zn.MCall{Root: this("表"), Chain: []zn.Call{{Name: "后增", Args: []zn.Expr{v("B")}}}}},
			}})
			g.cls[name] = "ctor"
		} else {
			g.cls[name] = ""
		}
	}
	return out
}

func (g *gen) showObj2(o string) zn.Stmt {
	return show("obj2-"+o, &zn.Member{Root: v(o), Name: "初"}, &zn.Member{Root: &zn.Member{Root: v(o), Name: "件"}, Name: "数"}, &zn.Member{Root: &zn.Member{Root: v(o), Name: "件"}, Name: "表"})
}

func (g *gen) showObj(o string) zn.Stmt {
	return show("obj-"+o, &zn.Member{Root: v(o), Name: "数"}, &zn.Member{Root: v(o), Name: "表"}, &zn.Member{Root: v(o), Name: "典"}, &zn.Member{Root: v(o), Name: "次"})
}

func (g *gen) mainOps() []zn.Stmt {
	var out []zn.Stmt
	n := 3 + g.pick(8, "nops")
	fresh := 0
	nm := func(p string) string { fresh++; return fmt.Sprintf("%s%d", p, fresh) }
	for i := 0; i < n; i++ {
		switch g.pick(32, "op") {
		case 25, 26: // one call site, different callees: through an input, and through a loop variable
			fns := []string{"双", "和", "层", "偶", "奇", "深抛"}
			a, b := fns[g.pick(len(fns), "hf1")], fns[g.pick(len(fns), "hf2")]
			if g.pick(2, "hform") == 0 {
				out = append(out, show("apply-1", &zn.Call{Name: "应用", Args: []zn.Expr{v(a), g.numArg(1)}}), show("apply-2", &zn.Call{Name: "应用", Args: []zn.Expr{v(b), num(float64(g.pick(4, "harg")))}}))
				g.labels["callee-received-as-input"] = true
			} else {
				lv := nm("操作")
				out = append(out, &zn.ForEach{Names: []string{lv}, E: &zn.ListLit{Items: []zn.Expr{v(a), v(b), v(a)}}, Body: []zn.Stmt{show("loop-call", &zn.Call{Name: lv, Args: []zn.Expr{num(float64(g.pick(4, "larg")))}})}})
				g.labels["callee-held-by-loop-variable"] = true
			}
		case 23, 24: // the value of a call that leaves a loop over a collection through 输出
			nent := 2 + g.pick(5, "nent")
			target := float64(g.pick(3, "target"))
			var coll zn.Expr
			if g.pick(3, "colkind") == 0 {
				l := &zn.ListLit{}
				for k := 0; k < nent; k++ {
					l.Items = append(l.Items, num(float64(g.pick(3, "ev"))))
				}
				coll = l
				g.labels["output-inside-list-loop"] = true
			} else {
				d := &zn.DictLit{}
				for k := 0; k < nent; k++ {
					d.Keys = append(d.Keys, fmt.Sprintf("k%d", k))
					d.Vals = append(d.Vals, num(float64(g.pick(3, "ev"))))
				}
				coll = d
				g.labels["output-inside-dictionary-loop"] = true
			}
			r := nm("QR")
			out = append(out, &zn.ExprStmt{E: &zn.Call{Name: "查", Args: []zn.Expr{coll, num(target)}, Yield: r}}, show("查", v(r)))
		case 21, 22: // 其 after a call into another object that handled a deep exception
			if len(g.objs) < 2 {
				continue
			}
			a := g.objs[g.pick(len(g.objs), "ta")]
			b := g.objs[g.pick(len(g.objs), "tb")]
			out = append(out, show("托", &zn.MCall{Root: v(a), Chain: []zn.Call{{Name: "托", Args: []zn.Expr{v(b), g.numArg(1)}}}}), g.showObj(a), g.showObj(b))
			g.labels["receiver-after-handled-deep-exception"] = true
			g.twoReceivers = true
		case 30, 31: // an input named like a top-level method
			out = append(out, show("input-shadows-method", &zn.Call{Name: "施", Args: []zn.Expr{v("翻"), g.numArg(1)}}, &zn.Call{Name: "变", Args: []zn.Expr{num(1)}}, &zn.Call{Name: "支", Args: []zn.Expr{num(1)}}))
			g.labels["input-named-like-a-top-level-method"] = true
		case 27, 28: // declarations inside branches, loop passes, handlers
			out = append(out, show("block-decl", &zn.Call{Name: "嵌", Args: []zn.Expr{g.numArg(1)}}), show("block-decl-handler", &zn.Call{Name: "嵌救", Args: []zn.Expr{g.numArg(1)}}))
			g.labels["declarations-inside-nested-blocks"] = true
		case 29: // ... which do not outlive their block
			g.labels["planted:block-declared-name-after-its-block"] = true
			out = append(out, show("bad", &zn.Call{Name: "嵌漏", Args: []zn.Expr{num(1)}}))
		case 19: // a method with inner declarations, called again and again
			out = append(out, show("nested", &zn.Call{Name: "外", Args: []zn.Expr{g.numArg(1)}}), show("nested-again", &zn.Call{Name: "外", Args: []zn.Expr{num(3)}}))
			g.labels["inner-declarations-called-twice"] = true
		case 20: // ... and what a call declared does not outlive it
			g.labels["planted:inner-name-after-call"] = true
			out = append(out, show("nested", &zn.Call{Name: "外", Args: []zn.Expr{num(1)}}))
			if g.pick(2, "innerkind") == 0 {
				out = append(out, show("bad", &zn.Call{Name: "内", Args: []zn.Expr{num(1)}}))
			} else {
				out = append(out, &zn.Let{Names: []string{nm("IO")}, E: &zn.New{Class: "内类"}})
			}
		case 17, 18: // a chain whose intermediate link returns another object (maybe of the same type)
			if len(g.objs) < 2 {
				continue
			}
			a := g.objs[g.pick(len(g.objs), "la")]
			b := g.objs[g.pick(len(g.objs), "lb")]
			out = append(out, &zn.ExprStmt{E: &zn.MCall{Root: v(a), Chain: []zn.Call{{Name: "设邻", Args: []zn.Expr{v(b)}}}}})
			out = append(out, show("link-add", &zn.MCall{Root: v(a), Chain: []zn.Call{{Name: "取邻"}, {Name: "加", Args: []zn.Expr{g.numArg(1)}}, {Name: "取"}}}))
			out = append(out, show("link-get", &zn.MCall{Root: v(a), Chain: []zn.Call{{Name: "取邻"}, {Name: "取"}}}), g.showObj(a), g.showObj(b))
			out = append(out, show("link-count", &zn.MCall{Root: v(a), Chain: []zn.Call{{Name: "取邻"}, {Name: "计", Args: []zn.Expr{g.numArg(1)}}}}), g.showObj(a), g.showObj(b))
			g.labels["chain-to-other-receiver"] = true
			g.labels["chain"] = true
		case 16: // in-place change of a scalar property: this object's only
			if len(g.objs) == 0 {
				continue
			}
			o := g.objs[g.pick(len(g.objs), "io")]
			switch g.pick(3, "ip") {
			case 0:
				out = append(out, show("计", &zn.MCall{Root: v(o), Chain: []zn.Call{{Name: "计", Args: []zn.Expr{g.numArg(1)}}}}))
			case 1:
				out = append(out, show("减数", &zn.MCall{Root: v(o), Chain: []zn.Call{{Name: "减数", Args: []zn.Expr{g.numArg(1)}}}}))
			case 2:
				out = append(out, &zn.ExprStmt{E: &zn.MCall{Root: &zn.Member{Root: v(o), Name: "次"}, Chain: []zn.Call{{Name: "自增", Args: []zn.Expr{g.numArg(1)}}}}})
			}
			for _, x := range g.objs {
				out = append(out, g.showObj(x))
			}
			// an object created afterwards starts from the untouched defaults
			cls := []string{"甲类", "乙类"}[g.pick(2, "icls")]
			f := nm("O")
			out = append(out, &zn.Let{Names: []string{f}, E: &zn.New{Class: cls, Args: g.ctorArgs(cls)}}, g.showObj(f))
			g.objs = append(g.objs, f)
			g.labels["in-place-scalar"] = true
		case 0, 1: // create an object
			cls := []string{"甲类", "乙类"}[g.pick(2, "cls")]
			o := nm("O")
			var e zn.Expr
			if g.cls[cls] == "ctor" {
				e = &zn.New{Class: cls, Args: []zn.Expr{g.numArg(1), g.numArg(1)}}
			} else {
				e = &zn.New{Class: cls}
			}
			out = append(out, &zn.Let{Names: []string{o}, E: e}, g.showObj(o))
			if cls == "乙类" {
				out = append(out, g.showObj2(o))
			}
			g.objs = append(g.objs, o)
		case 2: // function call with tagged arguments
			r := nm("R")
			out = append(out, &zn.Let{Names: []string{r}, E: &zn.Call{Name: "混", Args: []zn.Expr{g.numArg(2), g.numArg(2), g.numArg(1), g.numArg(1)}}}, show("r", v(r)))
		case 3: // 得到
			y := nm("Y")
			out = append(out, &zn.ExprStmt{E: &zn.Call{Name: "双", Args: []zn.Expr{g.numArg(2)}, Yield: y}}, show("yield", v(y)))
			g.labels["得到"] = true
		case 4: // recursion
			k := g.pick(g.maxRec, "rec")
			if k > 3 {
				g.labels["recursion>=3"] = true
			}
			out = append(out, show("rec", &zn.Call{Name: "和", Args: []zn.Expr{num(float64(k))}}, &zn.Call{Name: "偶", Args: []zn.Expr{num(float64(k))}}))
			out = append(out, show("层", &zn.Call{Name: "层", Args: []zn.Expr{num(float64(k % 7))}}))
		case 5, 6: // method on an object
			if len(g.objs) == 0 {
				continue
			}
			o := g.objs[g.pick(len(g.objs), "mo")]
			switch g.pick(5, "meth") {
			case 0:
				out = append(out, show("加", &zn.Member{Root: &zn.Grp{E: &zn.MCall{Root: v(o), Chain: []zn.Call{{Name: "加", Args: []zn.Expr{g.numArg(1)}}}}}, Name: "数"}))
			case 1:
				out = append(out, show("推", &zn.MCall{Root: v(o), Chain: []zn.Call{{Name: "推", Args: []zn.Expr{g.numArg(1)}}}}))
			case 2:
				out = append(out, show("调", &zn.MCall{Root: v(o), Chain: []zn.Call{{Name: "调"}}}))
			case 3:
				out = append(out, show("自增两次", &zn.MCall{Root: v(o), Chain: []zn.Call{{Name: "自增两次"}}}))
			case 4:
				y := nm("Y")
				out = append(out, &zn.ExprStmt{E: &zn.MCall{Root: v(o), Chain: []zn.Call{{Name: "取"}}, Yield: y}}, show("yield-m", v(y)))
				g.labels["得到"] = true
			}
			out = append(out, g.showObj(o))
		case 7: // chain
			if len(g.objs) == 0 {
				continue
			}
			o := g.objs[g.pick(len(g.objs), "co")]
			out = append(out, show("chain", &zn.MCall{Root: v(o), Chain: []zn.Call{{Name: "加", Args: []zn.Expr{g.numArg(1)}}, {Name: "加", Args: []zn.Expr{g.numArg(1)}}, {Name: "取"}}}), g.showObj(o))
			// a chain whose intermediate result is not the receiver: list of the object, then list methods
			out = append(out, show("chain2", &zn.MCall{Root: v(o), Chain: []zn.Call{{Name: "取表"}, {Name: "后增", Args: []zn.Expr{g.numArg(1)}}, {Name: "后增", Args: []zn.Expr{num(8)}}}}), g.showObj(o))
			g.labels["chain"] = true
		case 8: // two receivers
			if len(g.objs) < 2 {
				continue
			}
			a := g.objs[g.pick(len(g.objs), "a")]
			b := g.objs[g.pick(len(g.objs), "b")]
			out = append(out, show("并", &zn.MCall{Root: v(a), Chain: []zn.Call{{Name: "并", Args: []zn.Expr{v(b)}}}}), g.showObj(a), g.showObj(b))
			g.twoReceivers = true
		case 9: // sharing by reference
			if len(g.objs) == 0 {
				continue
			}
			o := g.objs[g.pick(len(g.objs), "so")]
			a := nm("S")
			out = append(out, &zn.Let{Names: []string{a}, E: v(o)}, set(&zn.Member{Root: v(a), Name: "数"}, g.numArg(1)), g.showObj(o))
			g.objs = append(g.objs, a)
			g.labels["alias"] = true
		case 10: // property write
			if len(g.objs) == 0 {
				continue
			}
			o := g.objs[g.pick(len(g.objs), "po")]
			out = append(out, set(&zn.Member{Root: v(o), Name: "数"}, g.numArg(1)))
			for _, x := range g.objs {
				out = append(out, g.showObj(x))
			}
		case 11: // planted arity mismatch
			g.labels["planted:arity"] = true
			switch g.pick(4, "ar") {
			case 0:
				out = append(out, show("bad", &zn.Call{Name: "双", Args: []zn.Expr{g.tag(num(1)), g.tag(num(2))}}))
			case 1:
				out = append(out, show("bad", &zn.Call{Name: "混", Args: []zn.Expr{num(1)}}))
			case 2:
				out = append(out, show("bad", &zn.Call{Name: "零", Args: []zn.Expr{num(1)}}))
			case 3:
				out = append(out, &zn.Let{Names: []string{nm("B")}, E: &zn.New{Class: "甲类", Args: []zn.Expr{num(1)}}})
			}
		case 12: // planted unknown member
			if len(g.objs) == 0 {
				continue
			}
			o := g.objs[g.pick(len(g.objs), "uo")]
			g.labels["planted:unknown-member"] = true
			switch g.pick(3, "un") {
			case 0:
				out = append(out, show("bad", &zn.MCall{Root: v(o), Chain: []zn.Call{{Name: "无此法"}}}))
			case 1:
				out = append(out, show("bad", &zn.Member{Root: v(o), Name: "无此项"}))
			case 2:
				out = append(out, set(&zn.Member{Root: v(o), Name: "无此项"}, num(1)))
			}
		case 13: // zero-argument function, call as statement
			out = append(out, &zn.ExprStmt{E: &zn.Call{Name: "零"}})
		case 14: // call a non-method / unknown name
			g.labels["planted:not-callable"] = true
			if g.pick(2, "nc") == 0 {
				out = append(out, &zn.Let{Names: []string{nm("NV")}, E: num(5)}, show("bad", &zn.Call{Name: fmt.Sprintf("NV%d", fresh)}))
			} else {
				out = append(out, show("bad", &zn.Call{Name: "未知法", Args: []zn.Expr{g.tag(num(1))}}))
			}
		case 15: // default collections are per instance
			out = append(out, &zn.Let{Names: []string{nm("P")}, E: &zn.New{Class: "乙类", Args: g.ctorArgs("乙类")}})
			p1 := fmt.Sprintf("P%d", fresh)
			out = append(out, &zn.Let{Names: []string{nm("P")}, E: &zn.New{Class: "乙类", Args: g.ctorArgs("乙类")}})
			p2 := fmt.Sprintf("P%d", fresh)
			out = append(out, show("推", &zn.MCall{Root: v(p1), Chain: []zn.Call{{Name: "推", Args: []zn.Expr{num(99)}}}}),
				set(&zn.Index{Root: &zn.Member{Root: v(p1), Name: "典"}, Idx: &zn.Str{V: "k"}}, num(42)), g.showObj(p1), g.showObj(p2))
			g.labels["per-instance-defaults"] = true
		}
	}
	return out
}

func (g *gen) ctorArgs(cls string) []zn.Expr {
	if g.cls[cls] == "ctor" {
		return []zn.Expr{num(1), num(2)}
	}
	return nil
}

func TestCalls(t *testing.T) {
	maxRec := h.Scale(40, 3000)
	rapid.Check(t, func(t *rapid.T) {
		g := &gen{t: t, labels: map[string]bool{}, cls: map[string]string{}, maxRec: maxRec}
		p := &zn.Program{}
		p.Body = append(p.Body, g.prelude()...)
		p.Body = append(p.Body, g.classes()...)
		p.Body = append(p.Body, g.mainOps()...)
		p.Body = append(p.Body, ret(&zn.Str{V: "done"}))
		src, _ := zn.Render(p, nil)
		in := zn.NewInterp()
		in.MaxDepth = 8000
		in.MaxSteps = 400000
		ref := in.Run(p)
		if ref.Exhausted {
			h.R.Skip("reference budget")
			return
		}
		if len(ref.Unspec) > 0 {
			h.R.Skip("calls: " + ref.Unspec[0])
			return
		}
		s := saved{Src: src, WantTrace: ref.Out, WantErr: ref.Err != nil, Steps: ref.Steps, Depth: maxRec}
		if ref.Err != nil {
			s.ErrWhat = ref.Err.What
		} else if ref.ValKnown {
			s.WantKnown, s.WantShow = true, zn.Show(ref.Val)
		}
		fails := judge(&s)
		var labels []string
		for l := range g.labels {
			labels = append(labels, l)
		}
		if ref.Err != nil {
			labels = append(labels, "documented-error:"+ref.Err.What)
		}
		if g.twoReceivers {
			labels = append(labels, "two-receivers")
		}
		nt := g.twoReceivers || g.labels["declarations-inside-nested-blocks"] || g.labels["inner-declarations-called-twice"] || g.labels["in-place-scalar"] || g.labels["得到"] || g.labels["chain"] || g.labels["recursion>=3"]
		h.R.Case(t, "calls", src, s, labels, nt, fails)
	})
}

func TestCorpus(t *testing.T) { h.RunCorpus(t, "c08", replay) }
