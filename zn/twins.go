package zn

// HashTwins - pairs of different identifiers with the same value under a commonplace 32-bit hash
// function (found by exhaustive search over two-character names; tools: see DESIGN.md). A
// symbol table, cache or intern table that compares hashes where it should compare names
// confuses exactly such pairs.
var HashTwins = [][3]string{
	{"adler32", "一什", "丁丂"},
	{"adler32", "一仁", "丁七"},
	{"adler32", "一仂", "丁丄"},
	{"djb2", "一両", "一乀"},
	{"djb2", "一丢", "一乁"},
	{"djb2", "一丣", "一乂"},
	{"djb2-xor", "一丣", "一什"},
	{"djb2-xor", "一丢", "一仁"},
	{"djb2-xor", "一両", "一仂"},
	{"fnv32", "侳伌", "儇吀"},
	{"fnv32", "侳伍", "儇吁"},
	{"fnv32", "侳伎", "儇吂"},
	{"fnv32a", "丗亲", "僿勀"},
	{"fnv32a", "丗亳", "僿勁"},
	{"fnv32a", "丗亰", "僿勂"},
	{"fnv64a-fold", "並偮", "並垇"},
	{"fnv64a-fold", "下僁", "丩伋"},
	{"fnv64a-fold", "下僵", "丩伿"},
	{"java31-bytes", "一丟", "一乀"},
	{"java31-bytes", "一丠", "一乁"},
	{"java31-bytes", "一両", "一乂"},
	{"java31-runes", "一丟", "丁一"},
	{"java31-runes", "一丠", "丁丁"},
	{"java31-runes", "一両", "丁丂"},
}
