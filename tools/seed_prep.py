#!/usr/bin/env python3
"""Prepare a round of independently written changes: one scratch worktree of /repo and one
prompt per property.   tools/seed_prep.py <round-letter> [CNN ...]
Prompts go to /tmp/seedprompt-<letter>NN.txt, worktrees to /tmp/zn-<letter>NN."""
import glob, json, os, subprocess, sys
ROOT = os.path.dirname(os.path.dirname(os.path.abspath(__file__)))
letter = sys.argv[1]
props = sys.argv[2:] or ["C%02d" % i for i in range(1, 21)]
by = {}
for m in sorted(glob.glob(os.path.join(ROOT, "seeded/*/meta.json"))):
    d = json.load(open(m))
    by.setdefault(d["breaks_property"], []).append("%s: %s" % (d["id"].split("-", 1)[1].replace("-", " "), d["needs_to_manifest"][:220]))
for p in props:
    n = p[1:]
    wt = "/tmp/zn-%s%s" % (letter, n)
    if not os.path.isdir(wt):
        subprocess.run(["git", "-C", "/repo", "worktree", "add", "--detach", "-q", wt, "HEAD"], check=True)
    out = subprocess.run([os.path.join(ROOT, "tools/mkseedprompt.py"), p, wt] + by.get(p, []), stdout=subprocess.PIPE, text=True, check=True).stdout
    open("/tmp/seedprompt-%s%s.txt" % (letter, n), "w").write(out)
    print(p, wt, len(out))
