// C07 - lists and dictionaries are copied on assignment; objects are shared
package c07

import (
	"encoding/json"
	"fmt"
	"sort"
	"strings"
	"testing"

	"pgregory.net/rapid"

	h "verif/harness"
	"verif/zn"
)

func TestMain(m *testing.M) { h.Main(m, "C07", replay) }

type saved struct {
	Src       string   `json:"src"`
	WantTrace []string `json:"want_trace"`
	WantErr   bool     `json:"want_err"`
	ErrWhat   string   `json:"err_what,omitempty"`
	Steps     int64    `json:"ref_steps"`
}

func replay(sub string, raw json.RawMessage) ([]h.Failure, error) {
	var s saved
	if err := json.Unmarshal(raw, &s); err != nil {
		return nil, err
	}
	return judge(&s), nil
}

func judge(s *saved) []h.Failure {
	o := h.Run(s.Src, h.Opts{EvalTicks: 20*s.Steps + 2000})
	ctx := "program:\n" + s.Src
	switch o.Kind {
	case h.KPanic:
		return []h.Failure{{Sig: "copy/go-panic@" + o.PanicSite, Msg: ctx + "\nGo panic: " + o.PanicMsg}}
	case h.KBudget:
		return []h.Failure{{Sig: "copy/does-not-terminate", Msg: ctx}}
	case h.KNil:
		return []h.Failure{{Sig: "copy/nil-result", Msg: ctx}}
	}
	if strings.Join(o.Trace, "\n") != strings.Join(s.WantTrace, "\n") {
		i := 0
		for i < len(o.Trace) && i < len(s.WantTrace) && o.Trace[i] == s.WantTrace[i] {
			i++
		}
		at := "end"
		if i < len(s.WantTrace) {
			at = strings.SplitN(s.WantTrace[i], " ", 2)[0]
		}
		return []h.Failure{{Sig: "copy/trace-mismatch@" + at, Msg: fmt.Sprintf("%s\nfirst difference at display #%d\ndocumented: %v\ninterpreter: %v\noutcome: %s", ctx, i+1, around(s.WantTrace, i), around(o.Trace, i), o.Short())}}
	}
	if s.WantErr != (o.Kind == h.KError) {
		return []h.Failure{{Sig: "copy/error-ness:" + s.ErrWhat, Msg: fmt.Sprintf("%s\ndocumented error=%v (%s); interpreter: %s", ctx, s.WantErr, s.ErrWhat, o.Short())}}
	}
	return nil
}

func around(xs []string, i int) []string {
	lo, hi := i-2, i+3
	if lo < 0 {
		lo = 0
	}
	if hi > len(xs) {
		hi = len(xs)
	}
	return xs[lo:hi]
}

func show(tag string, es ...zn.Expr) zn.Stmt {
	return &zn.ExprStmt{E: &zn.Call{Name: "显示", Args: append([]zn.Expr{&zn.Str{V: tag}}, es...)}}
}
func num(f float64) zn.Expr { return &zn.Num{Val: f} }
func v(n string) zn.Expr    { return &zn.Var{Name: n} }
func mc(root zn.Expr, name string, args ...zn.Expr) zn.Expr {
	return &zn.MCall{Root: root, Chain: []zn.Call{{Name: name, Args: args}}}
}
func set(t, e zn.Expr) zn.Stmt { return &zn.ExprStmt{E: &zn.Assign{Target: t, E: e}} }

type gen struct {
	t                *rapid.T
	prog             *zn.Program
	fresh            int
	lit              int
	labels           map[string]bool
	copied           map[string]string // variable -> the variable it was copied from
	consts           map[string]bool
	deepMutAfterCopy bool
}

func (g *gen) pick(n int, w string) int { return rapid.IntRange(0, n-1).Draw(g.t, w) }
func (g *gen) name() string             { g.fresh++; return fmt.Sprintf("V%d", g.fresh) }
func (g *gen) scalar() zn.Expr          { g.lit++; return num(float64(100 + g.lit)) }

// nested literal of bounded depth
func (g *gen) literal(depth int) zn.Expr {
	switch k := g.pick(5, "litkind"); {
	case depth <= 0 || k == 0:
		return g.scalar()
	case k <= 2:
		l := &zn.ListLit{}
		for i, n := 0, 1+g.pick(3, "ln"); i < n; i++ {
			l.Items = append(l.Items, g.literal(depth-1))
		}
		return l
	default:
		d := &zn.DictLit{}
		keys := []string{"a", "b", "c"}
		for i, n := 0, 1+g.pick(3, "dn"); i < n; i++ {
			d.Keys = append(d.Keys, keys[i])
			d.Vals = append(d.Vals, g.literal(depth-1))
		}
		return d
	}
}

type path struct {
	expr  zn.Expr
	val   zn.Value
	depth int
	root  string
}

// paths - every addressable collection location reachable from the live variables
func (g *gen) paths(vars map[string]zn.Value) []path {
	var out []path
	names := make([]string, 0, len(vars))
	for n := range vars {
		names = append(names, n)
	}
	sort.Strings(names)
	var walk func(e zn.Expr, val zn.Value, depth int, root string)
	walk = func(e zn.Expr, val zn.Value, depth int, root string) {
		if depth > 3 {
			return
		}
		switch x := val.(type) {
		case *zn.ListV:
			out = append(out, path{e, val, depth, root})
			for i, it := range x.Items {
				walk(&zn.Index{Root: e, Idx: num(float64(i + 1))}, it, depth+1, root)
			}
		case *zn.DictV:
			out = append(out, path{e, val, depth, root})
			for _, k := range x.Keys {
				walk(&zn.Index{Root: e, Idx: &zn.Str{V: k}}, x.M[k], depth+1, root)
			}
		case *zn.ObjV:
			for _, p := range []string{"表", "典"} {
				walk(&zn.Member{Root: e, Name: p}, x.Props[p], depth+1, root)
			}
		}
	}
	for _, n := range names {
		walk(v(n), vars[n], 0, n)
	}
	return out
}

func (g *gen) showAll(vars map[string]zn.Value) zn.Stmt {
	names := make([]string, 0, len(vars))
	for n := range vars {
		names = append(names, n)
	}
	sort.Strings(names)
	args := []zn.Expr{}
	for _, n := range names {
		switch vars[n].(type) {
		case *zn.ObjV:
			args = append(args, &zn.Member{Root: v(n), Name: "数"}, &zn.Member{Root: v(n), Name: "表"}, &zn.Member{Root: v(n), Name: "典"})
		default:
			args = append(args, v(n))
		}
	}
	return show("all", args...)
}

func (g *gen) state() (map[string]zn.Value, bool) {
	in := zn.NewInterp()
	res := in.Run(g.prog)
	if res.Err != nil || res.Exhausted || len(res.Unspec) > 0 {
		return nil, false
	}
	return in.MainVars, true
}

func (g *gen) step() bool {
	vars, ok := g.state()
	if !ok {
		return false
	}
	add := func(ss ...zn.Stmt) { g.prog.Body = append(g.prog.Body, ss...) }
	ps := g.paths(vars)
	var objs, colls []string
	for n, val := range vars {
		switch val.(type) {
		case *zn.ObjV:
			objs = append(objs, n)
		case *zn.ListV, *zn.DictV:
			colls = append(colls, n)
		}
	}
	sort.Strings(objs)
	sort.Strings(colls)
	pickPath := func(w string, pred func(path) bool) (path, bool) {
		var c []path
		for _, p := range ps {
			if pred == nil || pred(p) {
				c = append(c, p)
			}
		}
		if len(c) == 0 {
			return path{}, false
		}
		return c[g.pick(len(c), w)], true
	}
	isList := func(p path) bool { _, ok := p.val.(*zn.ListV); return ok }
	isDict := func(p path) bool { _, ok := p.val.(*zn.DictV); return ok }
	switch g.pick(20, "action") {
	case 18, 19: // a literal that names the SAME list / dictionary twice (or a variable and one of its
		// own items): every mention is stored as a copy of its own
		if p, ok := pickPath("twice", func(p path) bool { return isList(p) || isDict(p) }); ok {
			n := g.name()
			var lit zn.Expr
			switch g.pick(3, "twice-form") {
			case 0:
				lit = &zn.ListLit{Items: []zn.Expr{p.expr, p.expr}}
			case 1:
				lit = &zn.DictLit{Keys: []string{"p", "q"}, Vals: []zn.Expr{p.expr, p.expr}}
			default:
				lit = &zn.ListLit{Items: []zn.Expr{p.expr, &zn.ListLit{Items: []zn.Expr{p.expr}}, g.scalar()}}
			}
			if g.pick(2, "twice-assign") == 0 || len(colls) == 0 {
				add(&zn.Let{Names: []string{n}, E: lit})
			} else if t := colls[g.pick(len(colls), "twice-tgt")]; !g.consts[t] {
				add(set(v(t), lit))
			} else {
				add(&zn.Let{Names: []string{n}, E: lit})
			}
			g.labels["literal-naming-one-collection-twice"] = true
		}
	case 16, 17: // a name bound by 得到: to what a method hands out (one of its inputs, as it is),
		// or to the result of a method call on a value - a declaration like any other
		if p, ok := pickPath("ysrc", nil); ok {
			n := g.name()
			if _, isL := p.val.(*zn.ListV); isL && g.pick(2, "yform") == 0 {
				add(&zn.ExprStmt{E: &zn.MCall{Root: p.expr, Chain: []zn.Call{{Name: "后增", Args: []zn.Expr{g.scalar()}}}, Yield: n}})
				g.labels["yield-name-after-method-call"] = true
			} else {
				add(&zn.ExprStmt{E: &zn.Call{Name: "原样", Args: []zn.Expr{p.expr}, Yield: n}})
				g.labels["yield-name-bound-to-handed-out-input"] = true
			}
			g.copied[n] = p.root
			g.consts[n] = true
		}
	case 0, 1: // declare from a literal
		add(&zn.Let{Names: []string{g.name()}, E: g.literal(3)})
	case 2, 3: // declare from a variable / element / property (copy)
		if p, ok := pickPath("src", nil); ok {
			n := g.name()
			if len(colls) > 0 && g.pick(4, "chained") == 0 {
				// chained: 令A = B = X gives B a copy of X and A a copy of its own
				if t := colls[g.pick(len(colls), "chain-tgt")]; !g.consts[t] {
					add(&zn.Let{Names: []string{n}, E: &zn.Assign{Target: v(t), E: p.expr}})
					g.copied[n], g.copied[t] = p.root, p.root
					g.labels["chained-declaration"] = true
					break
				}
			}
			konst := g.pick(3, "const") == 0
			add(&zn.Let{Names: []string{n}, E: p.expr, Const: konst})
			g.copied[n] = p.root
			g.labels["declare-from-path"] = true
			if konst {
				// 恒为 only forbids giving the NAME another value: the stored value is still a copy
				g.consts[n] = true
				g.labels["constant-declared-from-path"] = true
			}
		}
	case 4: // multi-declaration
		if p, ok := pickPath("msrc", nil); ok {
			a, b := g.name(), g.name()
			konst := g.pick(3, "mconst") == 0
			add(&zn.Let{Names: []string{a, b}, E: p.expr, Const: konst})
			g.copied[a], g.copied[b] = p.root, p.root
			g.labels["multi-declare"] = true
			if konst {
				g.consts[a], g.consts[b] = true, true
				g.labels["constant-declared-from-path"] = true
			}
		}
	case 5: // assign variable from a path
		if len(colls) > 0 {
			if p, ok := pickPath("asrc", nil); ok {
				t := colls[g.pick(len(colls), "atgt")]
				if g.consts[t] {
					break // a constant name cannot be given another value (C06)
				}
				add(set(v(t), p.expr))
				g.copied[t] = p.root
				g.labels["assign-variable"] = true
			}
		}
	case 6: // assign element / key / property from a path
		src, ok1 := pickPath("esrc", nil)
		dst, ok2 := pickPath("edst", nil)
		if ok1 && ok2 {
			switch d := dst.val.(type) {
			case *zn.ListV:
				if len(d.Items) > 0 {
					add(set(&zn.Index{Root: dst.expr, Idx: num(float64(1 + g.pick(len(d.Items), "ei")))}, src.expr))
					g.labels["assign-element"] = true
				}
			case *zn.DictV:
				add(set(&zn.Index{Root: dst.expr, Idx: &zn.Str{V: []string{"a", "b", "n"}[g.pick(3, "ek")]}}, src.expr))
				g.labels["assign-key"] = true
			}
			if g.copied[dst.root] == "" {
				g.copied[dst.root] = src.root
			}
		}
	case 7: // property assignment on an object
		if len(objs) > 0 {
			o := objs[g.pick(len(objs), "po")]
			if src, ok := pickPath("psrc", isList); ok {
				add(set(&zn.Member{Root: v(o), Name: "表"}, src.expr))
				g.labels["assign-property"] = true
			}
		}
	case 8, 9, 10: // mutate in place through a variable or an element path
		if p, ok := pickPath("mut", nil); ok {
			if p.depth >= 1 && g.copied[p.root] != "" {
				g.deepMutAfterCopy = true
			}
			for n, from := range g.copied {
				if from == p.root && p.depth >= 1 {
					_ = n
					g.deepMutAfterCopy = true
				}
			}
			switch x := p.val.(type) {
			case *zn.ListV:
				switch g.pick(8, "lm") {
				case 6, 7:
					// a NUMBER item changed in place (自增 / 自减): the item of this list only
					var idx []int
					for i, it := range x.Items {
						if _, isNum := it.(float64); isNum {
							idx = append(idx, i+1)
						}
					}
					if len(idx) > 0 {
						i := idx[g.pick(len(idx), "ni")]
						add(&zn.ExprStmt{E: mc(&zn.Index{Root: p.expr, Idx: num(float64(i))}, []string{"自增", "自减"}[g.pick(2, "incdec")], num(float64(1+g.pick(9, "nd"))))})
						g.labels["number-item-changed-in-place"] = true
					}
				case 0:
					add(&zn.ExprStmt{E: mc(p.expr, "后增", g.scalar())})
				case 1:
					add(&zn.ExprStmt{E: mc(p.expr, "前增", g.scalar())})
				case 2:
					add(&zn.ExprStmt{E: mc(p.expr, "左移")})
				case 3:
					add(&zn.ExprStmt{E: mc(p.expr, "右移")})
				case 4:
					if len(x.Items) >= 2 {
						add(&zn.ExprStmt{E: mc(p.expr, "交换", num(1), num(float64(len(x.Items))))})
					}
				case 5:
					if len(x.Items) >= 1 {
						add(set(&zn.Index{Root: p.expr, Idx: num(float64(1 + g.pick(len(x.Items), "mi")))}, g.scalar()))
					}
				}
				g.labels["mutate-list"] = true
			case *zn.DictV:
				switch g.pick(4, "dm") {
				case 3:
					var ks []string
					for _, k := range x.Keys {
						if _, isNum := x.M[k].(float64); isNum {
							ks = append(ks, k)
						}
					}
					if len(ks) > 0 {
						k := ks[g.pick(len(ks), "nk")]
						add(&zn.ExprStmt{E: mc(&zn.Index{Root: p.expr, Idx: &zn.Str{V: k}}, "自增", num(float64(1+g.pick(9, "nd"))))})
						g.labels["number-item-changed-in-place"] = true
					}
				case 0:
					add(&zn.ExprStmt{E: mc(p.expr, "写入", &zn.Str{V: []string{"a", "z"}[g.pick(2, "wk")]}, g.scalar())})
				case 1:
					if len(x.Keys) > 0 {
						add(&zn.ExprStmt{E: mc(p.expr, "移除", &zn.Str{V: x.Keys[g.pick(len(x.Keys), "rk")]})})
					}
				case 2:
					add(set(&zn.Index{Root: p.expr, Idx: &zn.Str{V: []string{"a", "b", "y"}[g.pick(3, "sk")]}}, g.scalar()))
				}
				g.labels["mutate-dict"] = true
			}
		}
	case 11: // objects: create, alias, mutate through the alias
		switch {
		case len(objs) == 0 || g.pick(3, "newobj") == 0:
			add(&zn.Let{Names: []string{g.name()}, E: &zn.New{Class: "盒"}})
		default:
			o := objs[g.pick(len(objs), "ao")]
			a := g.name()
			add(&zn.Let{Names: []string{a}, E: v(o)}, set(&zn.Member{Root: v(a), Name: "数"}, g.scalar()), &zn.ExprStmt{E: mc(&zn.Member{Root: v(a), Name: "表"}, "后增", g.scalar())})
			g.labels["object-alias"] = true
		}
	case 12: // loop variable bound to an element, then mutated / assigned
		if p, ok := pickPath("loop", func(p path) bool { return isList(p) || isDict(p) }); ok {
			lv := g.name()
			var body []zn.Stmt
			body = append(body, &zn.If{Conds: []zn.Expr{&zn.BoolLit{V: true}}, Blocks: [][]zn.Stmt{{show("lv", v(lv))}}})
			allLists, allDicts, n := true, true, 0
			each := func(it zn.Value) {
				n++
				if _, ok := it.(*zn.ListV); !ok {
					allLists = false
				}
				if _, ok := it.(*zn.DictV); !ok {
					allDicts = false
				}
			}
			switch x := p.val.(type) {
			case *zn.ListV:
				for _, it := range x.Items {
					each(it)
				}
			case *zn.DictV:
				for _, k := range x.Keys {
					each(x.M[k])
				}
			}
			if n > 0 && allLists {
				// mutate the element through the loop variable: must not reach the collection
				body = append(body, &zn.ExprStmt{E: mc(v(lv), "后增", g.scalar())}, show("lv-mutated", v(lv)))
				g.labels["loop-variable-mutated"] = true
				g.deepMutAfterCopy = true
			} else if n > 0 && allDicts {
				body = append(body, &zn.ExprStmt{E: mc(v(lv), "写入", &zn.Str{V: "loop"}, g.scalar())}, show("lv-mutated", v(lv)))
				g.labels["loop-variable-mutated"] = true
				g.deepMutAfterCopy = true
			}
			body = append(body, set(v(lv), g.scalar()))
			add(&zn.ForEach{Names: []string{lv}, E: p.expr, Body: body})
			g.labels["loop-variable"] = true
		}
	case 15: // loop over a LITERAL whose items are variables / paths: the loop variable is a copy of the item
		if p, ok := pickPath("litloop", func(p path) bool { return isList(p) || isDict(p) }); ok {
			lv := g.name()
			var mut zn.Stmt
			if isList(p) {
				mut = &zn.ExprStmt{E: mc(v(lv), "后增", g.scalar())}
			} else {
				mut = &zn.ExprStmt{E: mc(v(lv), "写入", &zn.Str{V: "lit"}, g.scalar())}
			}
			var coll zn.Expr = &zn.ListLit{Items: []zn.Expr{p.expr, g.scalar()}}
			if g.pick(2, "litdict") == 0 {
				coll = &zn.DictLit{Keys: []string{"p", "q"}, Vals: []zn.Expr{p.expr, g.scalar()}}
			}
			add(&zn.ForEach{Names: []string{lv}, E: coll, Body: []zn.Stmt{
				&zn.If{Conds: []zn.Expr{&zn.Bin{Op: "/=", L: v(lv), R: num(-1)}}, Blocks: [][]zn.Stmt{{show("lit-lv", v(lv))}}},
			}})
			// (the mutating pass only for the item that is a collection)
			add(&zn.ForEach{Names: []string{lv}, E: &zn.ListLit{Items: []zn.Expr{p.expr}}, Body: []zn.Stmt{mut, show("lit-lv-mutated", v(lv))}})
			g.labels["loop-over-literal-of-variables"] = true
			g.deepMutAfterCopy = true
		}
	case 13: // a literal executed repeatedly must be fresh each time
		tv := g.name()
		add(&zn.ForEach{E: &zn.ListLit{Items: []zn.Expr{num(1), num(2)}}, Body: []zn.Stmt{
			&zn.Let{Names: []string{tv}, E: &zn.ListLit{Items: []zn.Expr{num(0), &zn.ListLit{Items: []zn.Expr{num(0)}}}}},
			&zn.ExprStmt{E: mc(v(tv), "后增", num(1))},
			&zn.ExprStmt{E: mc(&zn.Index{Root: v(tv), Idx: num(2)}, "后增", num(2))},
			show("fresh", v(tv)),
		}})
		g.labels["literal-in-loop"] = true
	case 14: // a literal executed repeatedly and changed in place WITHOUT being bound to a
		// variable first (argument, result of a method, receiver): still fresh each time
		iv := g.name()
		var lit zn.Expr
		var use zn.Stmt
		consts := func() []zn.Expr {
			var out []zn.Expr
			for i, n := 0, g.pick(3, "nconst"); i < n; i++ {
				if g.pick(2, "ck") == 0 {
					out = append(out, num(float64(10*(i+1))))
				} else {
					out = append(out, &zn.Str{V: []string{"甲", "乙", "丙"}[i]})
				}
			}
			return out
		}
		switch g.pick(6, "unbound") {
		case 4, 5:
			// a NUMBER literal handed straight to a method that changes its input in place;
			// the same spelling evaluated again afterwards still denotes the number
			lit = num(float64(7300 + g.pick(3, "numlit")))
			use = show("num-arg", &zn.Call{Name: "增", Args: []zn.Expr{lit, v(iv)}}, &zn.Bin{Op: "+", L: lit, R: num(0)})
		case 0:
			lit = &zn.ListLit{Items: consts()}
			use = show("arg", &zn.Call{Name: "改", Args: []zn.Expr{lit, v(iv)}})
		case 1:
			use = show("result", mc(&zn.Call{Name: "新表"}, "后增", v(iv)))
		case 2:
			lit = &zn.ListLit{Items: consts()}
			use = show("receiver", mc(lit, "后增", v(iv)))
		default:
			lit = &zn.DictLit{Keys: []string{"a"}, Vals: []zn.Expr{num(1)}}
			use = show("dict-arg", &zn.Call{Name: "改典", Args: []zn.Expr{lit, v(iv)}})
		}
		add(&zn.ForEach{Names: []string{iv}, E: &zn.ListLit{Items: []zn.Expr{num(3), num(4), num(5)}}, Body: []zn.Stmt{use}})
		g.labels["unbound-literal-mutated-repeatedly"] = true
		g.deepMutAfterCopy = true
	}
	vars2, ok := g.state()
	if !ok {
		// the last action is rejected by the documented semantics (e.g. a path that no longer
		// exists): keep it, the run ends there
		return false
	}
	g.prog.Body = append(g.prog.Body, g.showAll(vars2))
	return true
}

func TestCopySemantics(t *testing.T) {
	rapid.Check(t, func(t *rapid.T) {
		g := &gen{t: t, labels: map[string]bool{}, copied: map[string]string{}, consts: map[string]bool{}}
		g.prog = &zn.Program{Body: []zn.Stmt{
			&zn.ClassDef{Name: "盒", Props: []zn.Prop{
				{Name: "数", Init: num(0)},
				{Name: "表", Init: &zn.ListLit{Items: []zn.Expr{num(1), &zn.ListLit{Items: []zn.Expr{num(2)}}}}},
				{Name: "典", Init: &zn.DictLit{Keys: []string{"a"}, Vals: []zn.Expr{&zn.ListLit{Items: []zn.Expr{num(3)}}}}},
			}},
			&zn.FuncDef{Name: "改", Params: []string{"表", "项"}, Body: []zn.Stmt{&zn.ExprStmt{E: mc(v("表"), "后增", v("项"))}, &zn.Return{E: v("表")}}},
			&zn.FuncDef{Name: "改典", Params: []string{"典", "项"}, Body: []zn.Stmt{&zn.ExprStmt{E: mc(v("典"), "写入", &zn.Str{V: "k"}, v("项"))}, &zn.Return{E: v("典")}}},
			&zn.FuncDef{Name: "增", Params: []string{"数", "项"}, Body: []zn.Stmt{&zn.ExprStmt{E: mc(v("数"), "自增", v("项"))}, &zn.Return{E: v("数")}}},
			&zn.FuncDef{Name: "原样", Params: []string{"物"}, Body: []zn.Stmt{&zn.Return{E: v("物")}}},
			&zn.FuncDef{Name: "新表", Body: []zn.Stmt{&zn.Return{E: &zn.ListLit{Items: []zn.Expr{num(7)}}}}},
			&zn.Let{Names: []string{"V0"}, E: &zn.ListLit{Items: []zn.Expr{num(1), &zn.ListLit{Items: []zn.Expr{num(2), num(3)}}, &zn.DictLit{Keys: []string{"a"}, Vals: []zn.Expr{&zn.ListLit{Items: []zn.Expr{num(4)}}}}}}},
		}}
		n := rapid.IntRange(2, 22).Draw(t, "nactions")
		for i := 0; i < n; i++ {
			if !g.step() {
				break
			}
		}
		src, _ := zn.Render(g.prog, nil)
		ref := zn.NewInterp().Run(g.prog)
		if ref.Exhausted {
			return
		}
		if len(ref.Unspec) > 0 {
			h.R.Skip("copy: " + ref.Unspec[0])
			return
		}
		s := saved{Src: src, WantTrace: ref.Out, WantErr: ref.Err != nil, Steps: ref.Steps}
		if ref.Err != nil {
			s.ErrWhat = ref.Err.What
		}
		var labels []string
		for l := range g.labels {
			labels = append(labels, l)
		}
		if g.deepMutAfterCopy {
			labels = append(labels, "copy-then-deep-mutation")
		}
		h.R.Case(t, "copy", src, s, labels, g.deepMutAfterCopy, judge(&s))
	})
}

func TestCorpus(t *testing.T) { h.RunCorpus(t, "c07", replay) }
