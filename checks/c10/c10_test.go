// C10 - no program can crash the host process
package c10

import (
	"encoding/json"
	"fmt"
	"go/ast"
	"go/parser"
	"go/token"
	"math"
	"os"
	"path/filepath"
	"sort"
	"strconv"
	"strings"
	"testing"

	"github.com/DemoHn/Zn/pkg/common"
	"github.com/DemoHn/Zn/pkg/exec"
	r "github.com/DemoHn/Zn/pkg/runtime"
	"github.com/DemoHn/Zn/pkg/value"
	"pgregory.net/rapid"

	h "verif/harness"
)

var tmpDir string

func TestMain(m *testing.M) {
	d, err := os.MkdirTemp("", "verif-c10-*")
	if err != nil {
		panic(err)
	}
	tmpDir = d
	os.WriteFile(filepath.Join(d, "存在.txt"), []byte("内容"), 0o644)
	h.AtExit(func() { os.RemoveAll(d) })
	h.Main(m, "C10", replay)
}

// ---------------------------------------------------------------------------------------
// value pool (fresh element per use)

type poolEntry struct {
	name string
	mk   func() r.Element
}

var userClass = func() *value.ClassModel {
	c := value.NewClassModel("用户类")
	c.DefineProperty("名", value.NewString("n"))
	c.DefineProperty("表", value.NewArray([]r.Element{value.NewNumber(1)}))
	c.DefineMethod("法", value.NewFunction(func(recv r.Element, ps []r.Element) (r.Element, error) { return value.NewNumber(float64(len(ps))), nil }))
	return c
}()

func num(f float64) func() r.Element { return func() r.Element { return value.NewNumber(f) } }
func str(s string) func() r.Element  { return func() r.Element { return value.NewString(s) } }

var pool = []poolEntry{
	{"0", num(0)}, {"-0", num(math.Copysign(0, -1))}, {"1", num(1)}, {"-1", num(-1)}, {"2", num(2)}, {"0.5", num(0.5)}, {"-1.5", num(-1.5)},
	{"2^31", num(1 << 31)}, {"2^63", num(math.Pow(2, 63))}, {"-2^63", num(-math.Pow(2, 63))}, {"1e30", num(1e30)}, {"+Inf", num(math.Inf(1))}, {"-Inf", num(math.Inf(-1))}, {"NaN", num(math.NaN())},
	{"\"\"", str("")}, {"\"abc\"", str("abc")}, {"\"你好\"", str("你好")}, {"\"😊𝒳\"", str("😊𝒳")}, {"\"12\"", str("12")}, {"\"{}\"", str("{}")}, {"\"{#.2}{\"", str("{#.2}{")},
	{"[]", func() r.Element { return value.NewArray([]r.Element{}) }},
	{"[1]", func() r.Element { return value.NewArray([]r.Element{value.NewNumber(1)}) }},
	{"[\"a\",\"b\"]", func() r.Element { return value.NewArray([]r.Element{value.NewString("a"), value.NewString("b")}) }},
	{"[[1],[=]]", func() r.Element {
		return value.NewArray([]r.Element{value.NewArray([]r.Element{value.NewNumber(1)}), value.NewEmptyHashMap()})
	}},
	{"[=]", func() r.Element { return value.NewEmptyHashMap() }},
	{"[a=1]", func() r.Element {
		return value.NewHashMap([]value.KVPair{{Key: "a", Value: value.NewNumber(1)}, {Key: "b", Value: value.NewHashMap([]value.KVPair{{Key: "c", Value: value.NewNull()}})}})
	}},
	{"真", func() r.Element { return value.NewBool(true) }}, {"假", func() r.Element { return value.NewBool(false) }},
	{"空", func() r.Element { return value.NewNull() }},
	{"object", func() r.Element { return value.NewObject(userClass, r.ElementMap{}) }},
	{"method", func() r.Element {
		return value.NewFunction(func(recv r.Element, ps []r.Element) (r.Element, error) { return value.NewNull(), nil })
	}},
	{"type", func() r.Element { return userClass }},
	{"数值", func() r.Element { return exec.GlobalValues["数值"] }},
	{"异常", func() r.Element { return exec.GlobalValues["异常"] }},
	{"显示", func() r.Element { return exec.GlobalValues["显示"] }},
	{"取随机数", func() r.Element { return exec.GlobalValues["取随机数"] }},
	{"exception", func() r.Element { return value.NewException("e") }},
	{"HTTP请求", func() r.Element { return value.NewObject(common.CLASS_HttpRequest, r.ElementMap{}) }},
	{"HTTP响应", func() r.Element { return value.NewObject(common.CLASS_HttpResponse, r.ElementMap{}) }},
	{"govalue", func() r.Element { return value.NewGoValue("tag", 1) }},
	{"\"1*10^5\"", str("1*10^5")}, {"\"-3*^2\"", str("-3*^2")}, {"\"abcdefgh\"", str("abcdefgh")}, {"6", num(6)}, {"3", num(3)},
}

// pool entries that are singletons of the interpreter (never mutated through a setter/method
// by this check: C16 is about isolation, here they only act as receivers of getters and as arguments)
var sharedSingleton = map[string]bool{"数值": true, "异常": true, "显示": true, "取随机数": true, "type": true}

// ---------------------------------------------------------------------------------------
// member extraction: every key of the map literals in pkg/value/*.go and pkg/common/*.go

type members struct {
	Getters, Setters, Methods []string
}

func extractMembers() members {
	seen := map[string]map[string]bool{"get": {}, "set": {}, "method": {}}
	for _, dir := range []string{"pkg/value", "pkg/common"} {
		files, _ := filepath.Glob(filepath.Join(h.RepoDir(), dir, "*.go"))
		for _, f := range files {
			if strings.HasSuffix(f, "_test.go") {
				continue
			}
			fset := token.NewFileSet()
			file, err := parser.ParseFile(fset, f, nil, 0)
			if err != nil {
				continue
			}
			for _, decl := range file.Decls {
				fd, ok := decl.(*ast.FuncDecl)
				if !ok || fd.Body == nil {
					continue
				}
				kind := ""
				switch fd.Name.Name {
				case "GetProperty":
					kind = "get"
				case "SetProperty":
					kind = "set"
				case "ExecMethod":
					kind = "method"
				default:
					continue
				}
				ast.Inspect(fd.Body, func(n ast.Node) bool {
					switch x := n.(type) {
					case *ast.CompositeLit:
						if _, isMap := x.Type.(*ast.MapType); isMap {
							for _, e := range x.Elts {
								if kv, ok := e.(*ast.KeyValueExpr); ok {
									if bl, ok := kv.Key.(*ast.BasicLit); ok && bl.Kind == token.STRING {
										s, _ := strconv.Unquote(bl.Value)
										seen[kind][s] = true
									}
								}
							}
						}
					case *ast.CaseClause:
						for _, e := range x.List {
							if bl, ok := e.(*ast.BasicLit); ok && bl.Kind == token.STRING {
								s, _ := strconv.Unquote(bl.Value)
								seen[kind][s] = true
							}
						}
					case *ast.BinaryExpr:
						if bl, ok := x.Y.(*ast.BasicLit); ok && bl.Kind == token.STRING && x.Op == token.EQL {
							s, _ := strconv.Unquote(bl.Value)
							seen[kind][s] = true
						}
					}
					return true
				})
			}
		}
	}
	var m members
	for k := range seen["get"] {
		m.Getters = append(m.Getters, k)
	}
	for k := range seen["set"] {
		m.Setters = append(m.Setters, k)
	}
	for k := range seen["method"] {
		m.Methods = append(m.Methods, k)
	}
	// user-defined members of the pool's object, class defaults of the HTTP types, unknown names
	m.Getters = append(m.Getters, "名", "表", "状态码", "头部", "URL", "路径", "方法", "查询参数", "无此项")
	m.Setters = append(m.Setters, "名", "表", "状态码", "头部", "内容", "URL", "无此项")
	m.Methods = append(m.Methods, "法", "无此法")
	sort.Strings(m.Getters)
	sort.Strings(m.Setters)
	sort.Strings(m.Methods)
	return m
}

// ---------------------------------------------------------------------------------------

type callCase struct {
	Kind string `json:"kind"` // method getter setter index-get index-set new lib op display
	Recv int    `json:"recv"`
	Name string `json:"name"`
	Args []int  `json:"args"`
	E2E  bool   `json:"e2e"`
}

func (c callCase) String() string {
	as := []string{}
	for _, a := range c.Args {
		as = append(as, pool[a].name)
	}
	recv := ""
	if c.Recv >= 0 {
		recv = pool[c.Recv].name
	}
	mode := "direct"
	if c.E2E {
		mode = "program"
	}
	return fmt.Sprintf("%s %s %s.%s(%s)", mode, c.Kind, recv, c.Name, strings.Join(as, ", "))
}

func replay(sub string, raw json.RawMessage) ([]h.Failure, error) {
	if sub == "varinput" {
		var p progCase
		if err := json.Unmarshal(raw, &p); err != nil {
			return nil, err
		}
		return checkVarInputText(p.Src), nil
	}
	if sub == "exhaustion" {
		var c exhaustCase
		if err := json.Unmarshal(raw, &c); err != nil {
			return nil, err
		}
		for _, full := range exhaustionCases() {
			if full.Name == c.Name {
				c = full
			}
		}
		return checkExhaustion(c), nil
	}
	if sub == "handler" {
		var c handlerCase
		if err := json.Unmarshal(raw, &c); err != nil {
			return nil, err
		}
		return checkHandler(c), nil
	}
	if sub == "sequence" {
		var c seqCase
		if err := json.Unmarshal(raw, &c); err != nil {
			return nil, err
		}
		return checkSequenceOfCalls(c), nil
	}
	if sub == "illtyped" {
		var p progCase
		if err := json.Unmarshal(raw, &p); err != nil {
			return nil, err
		}
		return checkProgram(p), nil
	}
	var c callCase
	if err := json.Unmarshal(raw, &c); err != nil {
		return nil, err
	}
	return checkCall(c), nil
}

var testLib = func() *r.Library {
	l := r.NewLibrary("@测试库")
	l.RegisterClass("HTTP请求", common.CLASS_HttpRequest)
	l.RegisterClass("HTTP响应", common.CLASS_HttpResponse)
	l.RegisterClass("用户类", userClass)
	return l
}()

var argNames = []string{"甲", "乙", "丙", "丁"}

var libFuncs = map[string]string{"解析JSON": "@JSON", "生成JSON": "@JSON", "读取文件": "@文件", "写入文件": "@文件", "读取目录": "@文件"}
var constructables = []string{"HTTP请求", "HTTP响应", "用户类", "异常", "数值", "显示", "真", "空"}
var arithOps = []string{"+", "-", "*", "/", "|", "%", "==", "/=", ">", "<", ">=", "<=", "为", "不为", "且", "或", "等于", "不等于", "大于", "小于", "不大于", "不小于"}

func judgeResult(desc string, v r.Element, err error, kind, msg, site string) []h.Failure {
	switch kind {
	case h.KPanic:
		return []h.Failure{{Sig: "call/go-panic@" + site, Msg: desc + ": Go panic: " + msg}}
	case h.KBudget:
		return []h.Failure{{Sig: "call/budget-exceeded", Msg: desc}}
	}
	if err == nil && (v == nil || isNil(v)) {
		return []h.Failure{{Sig: "call/nil-result@" + strings.SplitN(desc, " ", 3)[1], Msg: desc + ": returned a nil element and a nil error"}}
	}
	return nil
}

func isNil(v r.Element) bool {
	o := &h.Outcome{}
	h.FillValue(o, v)
	return o.Kind == h.KNil
}

func checkCall(c callCase) []h.Failure {
	desc := c.String()
	args := []r.Element{}
	for _, a := range c.Args {
		args = append(args, pool[a].mk())
	}
	if !c.E2E {
		var v r.Element
		var err error
		kind, msg, site := h.Guard(func() {
			h.Capture(func() {
				switch c.Kind {
				case "method":
					v, err = pool[c.Recv].mk().ExecMethod(c.Name, args)
				case "getter":
					v, err = pool[c.Recv].mk().GetProperty(c.Name)
				case "setter":
					rv := pool[c.Recv].mk()
					err = rv.SetProperty(c.Name, args[0])
					v = rv
				case "index-get":
					rv := pool[c.Recv].mk()
					if n, ok := args[0].(*value.Number); ok {
						v, err = h.ListGet(rv, int(n.GetValue()))
					} else {
						v, err = h.DictGet(rv, args[0].String())
					}
				case "new":
					if ce, ok := pool[c.Recv].mk().(r.ConstructableElement); ok {
						v, err = ce.Construct(args)
					} else {
						v = value.NewNull()
					}
				case "lib":
					var fn r.Element
					for _, l := range h.Libs() {
						if f, ok := l.GetAllExportValues()[c.Name]; ok {
							fn = f
						}
					}
					v, err = fn.(*value.Function).Exec(nil, fileArgs(c.Name, args))
				default:
					v = value.NewNull()
				}
			})
		})
		return judgeResult(desc, v, err, kind, msg, site)
	}
	// end to end: a one-call program, values bound through 输入
	inputs := map[string]r.Element{}
	var names []string
	if c.Recv >= 0 {
		inputs["主"] = pool[c.Recv].mk()
		names = append(names, "主")
	}
	var argv []string
	for i, a := range args {
		inputs[argNames[i]] = a
		names = append(names, argNames[i])
		argv = append(argv, argNames[i])
	}
	if c.Kind == "lib" {
		fa := fileArgs(c.Name, args)
		for i := range fa {
			inputs[argNames[i]] = fa[i]
		}
	}
	head := ""
	if len(names) > 0 {
		head = "输入" + strings.Join(names, "、") + "\n"
	}
	callArgs := ""
	if len(argv) > 0 {
		callArgs = "：" + strings.Join(argv, "、")
	}
	var src string
	switch c.Kind {
	case "method":
		src = head + "输出以主（" + c.Name + callArgs + "）"
	case "method-self":
		src = head + "令己 = 主\n以己（" + c.Name + "：己）\n（显示：己）\n输出己"
	case "getter":
		src = head + "输出主之" + c.Name
	case "setter":
		src = head + "主之" + c.Name + " = 甲\n（显示：主）\n输出主之" + c.Name
	case "index-get":
		src = head + "输出主#{甲}"
	case "index-set":
		src = head + "令己 = 主\n己#{甲} = 乙\n（显示：己）\n输出己"
	case "new":
		src = "导入《@测试库》\n" + head + "输出（新建" + c.Name + callArgs + "）"
	case "lib":
		src = "导入《" + libFuncs[c.Name] + "》\n" + head + "输出（" + c.Name + callArgs + "）"
	case "op":
		src = head + "输出甲 " + c.Name + " 乙"
	case "display":
		src = head + "（显示" + callArgs + "）\n输出（" + c.Name + callArgs + "）"
	case "iterate":
		src = head + "以键、值遍历主：\n    （显示：键、值）\n输出主"
	case "throw":
		src = "导入《@测试库》\n" + head + "抛出" + c.Name + "：甲！"
	case "cond":
		src = head + "如果甲：\n    输出1\n每当甲：\n    输出2\n输出3"
	}
	o := &h.Outcome{}
	h.Capture(func() {
		o = runWithLib(src, inputs)
	})
	desc += "\nprogram:\n" + src
	switch o.Kind {
	case h.KPanic:
		return []h.Failure{{Sig: "program/go-panic@" + o.PanicSite, Msg: desc + "\nGo panic: " + o.PanicMsg}}
	case h.KBudget:
		return []h.Failure{{Sig: "program/budget-exceeded", Msg: desc}}
	case h.KNil:
		return []h.Failure{{Sig: "program/nil-result@" + c.Kind + ":" + c.Name, Msg: desc + "\nthe program's value is a nil element (it crashes callers that use the result)"}}
	}
	return nil
}

// file-library arguments: the first text argument is confined to the scratch directory
func fileArgs(name string, args []r.Element) []r.Element {
	if libFuncs[name] != "@文件" || len(args) == 0 {
		return args
	}
	out := append([]r.Element{}, args...)
	if s, ok := out[0].(*value.String); ok {
		p := s.GetValue()
		if p == "" {
			return out
		}
		switch p {
		case "abc":
			out[0] = value.NewString(filepath.Join(tmpDir, "存在.txt"))
		case "12":
			out[0] = value.NewString(tmpDir)
		default:
			out[0] = value.NewString(filepath.Join(tmpDir, "子", p))
		}
	}
	return out
}

func runWithLib(src string, inputs map[string]r.Element) *h.Outcome {
	pr := h.Parse(src, 0)
	if pr.Kind != h.KValue {
		o := &h.Outcome{Kind: pr.Kind, PanicMsg: pr.PanicMsg, PanicSite: pr.PanicSite}
		if pr.Kind == h.KError {
			h.ClassifyErr(o, pr.Err)
			// a generated one-call program must parse: a syntax error is a harness bug
			o.Kind, o.PanicMsg, o.PanicSite = h.KPanic, "HARNESS: generated program does not parse: "+pr.Err.Error(), "harness"
		}
		return o
	}
	vm := r.InitVM(exec.GlobalValues)
	vm.LoadExternalLibs(append([]*r.Library{testLib}, h.Libs()...))
	vm.SetModuleCodeFinder(h.Finder(src, nil))
	o := &h.Outcome{}
	exec.VerifTicks, exec.VerifTickBudget, exec.VerifMaxDepth, exec.VerifDepth = 0, 100000, 2000, 0
	var val r.Element
	var err error
	kind, msg, site := h.Guard(func() { val, err = exec.EvalMainModule(vm, pr.Program, inputs) })
	exec.VerifTickBudget, exec.VerifMaxDepth = 0, 0
	switch {
	case kind != "":
		o.Kind, o.PanicMsg, o.PanicSite = kind, msg, site
	case err != nil:
		h.ClassifyErr(o, err)
		k2, m2, s2 := h.Guard(func() { o.Display = exec.DisplayError(exec.WrapRuntimeError(vm, err)) })
		if k2 != "" {
			o.Kind, o.PanicMsg, o.PanicSite = k2, "DisplayError: "+m2, s2
		}
	default:
		h.FillValue(o, val)
		if o.Kind == h.KValue {
			// what cmd/zinc does with the result
			k2, m2, s2 := h.Guard(func() { _ = val.String() })
			if k2 != "" {
				o.Kind, o.PanicMsg, o.PanicSite = k2, "String() of the result: "+m2, s2
			}
		}
	}
	return o
}

// ---------------------------------------------------------------------------------------
// enumeration

func record(t h.TB, c callCase, sampled *int64) {
	fails := checkCall(c)
	*sampled++
	if len(fails) > 0 || *sampled%2003 == 0 {
		reached := true
		h.R.Case(t, "calls", c.String(), c, []string{"sampled-" + c.Kind}, reached, fails)
	}
}

func TestEnumerateCalls(t *testing.T) {
	m := extractMembers()
	if len(m.Methods) < 30 || len(m.Getters) < 15 {
		t.Fatalf("member extraction found too little: %+v", m)
	}
	h.R.Extra("members_extracted", map[string]int{"getters": len(m.Getters), "setters": len(m.Setters), "methods": len(m.Methods)})
	shard, nsh := h.Shard(), h.NShards()
	thorough := h.Thorough()
	var n, sampled int64
	idx := 0
	mine := func() bool { idx++; return idx%nsh == shard }
	np := len(pool)
	for ri := range pool {
		recvShared := sharedSingleton[pool[ri].name]
		// getters
		for _, g := range m.Getters {
			for _, e2e := range []bool{false, true} {
				if !mine() {
					continue
				}
				record(t, callCase{Kind: "getter", Recv: ri, Name: g, E2E: e2e}, &sampled)
				n++
			}
		}
		if recvShared {
			continue
		}
		// setters
		for _, s := range m.Setters {
			for a := 0; a < np; a++ {
				for _, e2e := range []bool{false, true} {
					if !mine() {
						continue
					}
					record(t, callCase{Kind: "setter", Recv: ri, Name: s, Args: []int{a}, E2E: e2e}, &sampled)
					n++
				}
			}
		}
		// methods, arity 0..2 exhaustively
		for _, me := range m.Methods {
			if mine() {
				record(t, callCase{Kind: "method", Recv: ri, Name: me, Args: nil}, &sampled)
				record(t, callCase{Kind: "method", Recv: ri, Name: me, Args: nil, E2E: true}, &sampled)
				record(t, callCase{Kind: "method-self", Recv: ri, Name: me, E2E: true}, &sampled)
				n += 3
			}
			for a := 0; a < np; a++ {
				if mine() {
					record(t, callCase{Kind: "method", Recv: ri, Name: me, Args: []int{a}}, &sampled)
					record(t, callCase{Kind: "method", Recv: ri, Name: me, Args: []int{a}, E2E: true}, &sampled)
					n += 2
				}
				for b := 0; b < np; b++ {
					if !mine() {
						continue
					}
					record(t, callCase{Kind: "method", Recv: ri, Name: me, Args: []int{a, b}}, &sampled)
					n++
					if thorough || (a*np+b)%7 == 0 {
						record(t, callCase{Kind: "method", Recv: ri, Name: me, Args: []int{a, b}, E2E: true}, &sampled)
						n++
					}
				}
			}
		}
		// indexing
		for a := 0; a < np; a++ {
			if mine() {
				record(t, callCase{Kind: "index-get", Recv: ri, Name: "#", Args: []int{a}}, &sampled)
				record(t, callCase{Kind: "index-get", Recv: ri, Name: "#", Args: []int{a}, E2E: true}, &sampled)
				n += 2
			}
			for b := 0; b < np; b += 3 {
				if mine() {
					record(t, callCase{Kind: "index-set", Recv: ri, Name: "#", Args: []int{a, b}, E2E: true}, &sampled)
					n++
				}
			}
		}
		if mine() {
			record(t, callCase{Kind: "iterate", Recv: ri, Name: "遍历", E2E: true}, &sampled)
			n++
		}
	}
	// operators and conditions
	for a := 0; a < np; a++ {
		if mine() {
			record(t, callCase{Kind: "cond", Recv: -1, Name: "如果", Args: []int{a}, E2E: true}, &sampled)
			n++
		}
		for b := 0; b < np; b++ {
			for _, op := range arithOps {
				if !mine() {
					continue
				}
				record(t, callCase{Kind: "op", Recv: -1, Name: op, Args: []int{a, b}, E2E: true}, &sampled)
				n++
			}
		}
	}
	// constructors, library functions, predefined methods: arity 0..2 (3 with a thinner grid)
	tuples := [][]int{{}}
	for a := 0; a < np; a++ {
		tuples = append(tuples, []int{a})
		for b := 0; b < np; b++ {
			tuples = append(tuples, []int{a, b})
			for c := 0; c < np; c += 5 {
				if (a+b+c)%3 == 0 {
					tuples = append(tuples, []int{a, b, c})
				}
			}
		}
	}
	for _, tup := range tuples {
		for _, cn := range constructables {
			if !mine() {
				continue
			}
			record(t, callCase{Kind: "new", Recv: -1, Name: cn, Args: tup, E2E: true}, &sampled)
			n++
			if len(tup) == 1 {
				record(t, callCase{Kind: "throw", Recv: -1, Name: cn, Args: tup, E2E: true}, &sampled)
				n++
			}
		}
		for ln := range libFuncs {
			if !mine() {
				continue
			}
			record(t, callCase{Kind: "lib", Recv: -1, Name: ln, Args: tup}, &sampled)
			record(t, callCase{Kind: "lib", Recv: -1, Name: ln, Args: tup, E2E: true}, &sampled)
			n += 2
		}
		if len(tup) <= 2 && mine() {
			record(t, callCase{Kind: "display", Recv: -1, Name: "取随机数", Args: tup, E2E: true}, &sampled)
			n++
		}
	}
	// direct construction of the constructable pool entries
	for ri := range pool {
		for _, tup := range tuples {
			if len(tup) > 2 || !mine() {
				continue
			}
			record(t, callCase{Kind: "new", Recv: ri, Name: "Construct", Args: tup}, &sampled)
			n++
		}
	}
	h.R.AddEvals(n - sampled/2003)
	h.R.AddDistinct(n - sampled/2003)
	h.R.Exhaustive("calls", fmt.Sprintf("every extracted member x %d receivers x argument tuples of arity 0..2 from the pool (shard %d/%d)", np, shard, nsh))
}

func TestRandomCalls(t *testing.T) {
	m := extractMembers()
	rapid.Check(t, func(t *rapid.T) {
		ar := rapid.IntRange(3, 4).Draw(t, "arity")
		var args []int
		for i := 0; i < ar; i++ {
			args = append(args, rapid.IntRange(0, len(pool)-1).Draw(t, "arg"))
		}
		c := callCase{Args: args, E2E: rapid.Bool().Draw(t, "e2e")}
		switch rapid.IntRange(0, 3).Draw(t, "kind") {
		case 0, 1:
			c.Kind = "method"
			c.Name = rapid.SampledFrom(m.Methods).Draw(t, "m")
			for {
				c.Recv = rapid.IntRange(0, len(pool)-1).Draw(t, "recv")
				if !sharedSingleton[pool[c.Recv].name] {
					break
				}
			}
		case 2:
			c.Kind, c.Recv, c.E2E = "new", -1, true
			c.Name = rapid.SampledFrom(constructables).Draw(t, "c")
		default:
			c.Kind, c.Recv = "lib", -1
			names := []string{"解析JSON", "生成JSON", "读取文件", "写入文件", "读取目录"}
			c.Name = rapid.SampledFrom(names).Draw(t, "l")
		}
		h.R.Case(t, "calls", c.String(), c, []string{"random-arity-3-4"}, true, checkCall(c))
	})
}

// ---------------------------------------------------------------------------------------
// histories: several members applied one after another to ONE value (results of earlier steps
// may be arguments of later ones): state kept inside a value (caches, in-place rewrites) must
// never turn a later call into a Go panic

type seqStep struct {
	Kind string `json:"kind"` // method getter setter
	Name string `json:"name"`
	Args []int  `json:"args"` // >= 0: pool index; < 0: result of step -n-1 (空 if there is none)
}

type seqCase struct {
	Recv  int       `json:"recv"`
	Steps []seqStep `json:"steps"`
}

func (c seqCase) String() string {
	var parts []string
	for _, st := range c.Steps {
		var as []string
		for _, a := range st.Args {
			if a >= 0 {
				as = append(as, pool[a].name)
			} else {
				as = append(as, fmt.Sprintf("<result %d>", -a))
			}
		}
		parts = append(parts, fmt.Sprintf("%s %s(%s)", st.Kind, st.Name, strings.Join(as, ", ")))
	}
	return "on one value " + pool[c.Recv].name + ": " + strings.Join(parts, "; ")
}

func checkSequenceOfCalls(c seqCase) []h.Failure {
	recv := pool[c.Recv].mk()
	var results []r.Element
	for i, st := range c.Steps {
		var args []r.Element
		for _, a := range st.Args {
			switch {
			case a >= 0:
				args = append(args, pool[a].mk())
			case -a-1 < len(results) && results[-a-1] != nil:
				args = append(args, results[-a-1])
			default:
				args = append(args, value.NewNull())
			}
		}
		var v r.Element
		var err error
		kind, msg, site := h.Guard(func() {
			h.Capture(func() {
				switch st.Kind {
				case "method":
					v, err = recv.ExecMethod(st.Name, args)
				case "getter":
					v, err = recv.GetProperty(st.Name)
				default:
					if len(args) > 0 {
						err = recv.SetProperty(st.Name, args[0])
					}
					v = value.NewNull()
				}
				if err == nil && v != nil && !isNil(v) {
					_ = v.String()
				}
				_ = recv.String()
			})
		})
		if f := judgeResult(fmt.Sprintf("%s [step %d]", c.String(), i+1), v, err, kind, msg, site); f != nil {
			return f
		}
		if err != nil {
			v = nil
		}
		results = append(results, v)
	}
	return nil
}

// applicable - the members of the table that a value of this pool entry knows (probed with
// no arguments: anything but "no such method / property")
func applicable(m members) (meths, gets map[int][]string) {
	meths, gets = map[int][]string{}, map[int][]string{}
	for i, pe := range pool {
		if sharedSingleton[pe.name] {
			continue
		}
		_, unknownM := pe.mk().ExecMethod("无此法", nil)
		_, unknownG := pe.mk().GetProperty("无此项")
		for _, name := range m.Methods {
			var err error
			h.Guard(func() { h.Capture(func() { _, err = pe.mk().ExecMethod(name, nil) }) })
			if err == nil || unknownM == nil || err.Error() != strings.ReplaceAll(unknownM.Error(), "无此法", name) {
				meths[i] = append(meths[i], name)
			}
		}
		for _, name := range m.Getters {
			var err error
			h.Guard(func() { h.Capture(func() { _, err = pe.mk().GetProperty(name) }) })
			if err == nil || unknownG == nil || err.Error() != strings.ReplaceAll(unknownG.Error(), "无此项", name) {
				gets[i] = append(gets[i], name)
			}
		}
	}
	return
}

func TestCallSequences(t *testing.T) {
	m := extractMembers()
	meths, gets := applicable(m)
	var recvs []int
	for i := range pool {
		if len(meths[i]) > 0 {
			recvs = append(recvs, i)
		}
	}
	rapid.Check(t, func(t *rapid.T) {
		c := seqCase{Recv: rapid.SampledFrom(recvs).Draw(t, "recv")}
		n := rapid.IntRange(2, 6).Draw(t, "steps")
		mutating := 0
		for i := 0; i < n; i++ {
			st := seqStep{}
			switch rapid.IntRange(0, 9).Draw(t, "kind") {
			case 0, 1:
				st.Kind = "getter"
				if g := gets[c.Recv]; len(g) > 0 {
					st.Name = rapid.SampledFrom(g).Draw(t, "g")
				} else {
					st.Name = rapid.SampledFrom(m.Getters).Draw(t, "g")
				}
			case 2:
				st.Kind = "setter"
				st.Name = rapid.SampledFrom(m.Setters).Draw(t, "s")
				mutating++
			default:
				st.Kind = "method"
				st.Name = rapid.SampledFrom(meths[c.Recv]).Draw(t, "m")
				mutating++
			}
			if st.Kind != "getter" {
				for j, na := 0, rapid.IntRange(0, 3).Draw(t, "na"); j < na; j++ {
					if i > 0 && rapid.IntRange(0, 2).Draw(t, "prev") == 0 {
						st.Args = append(st.Args, -rapid.IntRange(1, i).Draw(t, "res"))
					} else {
						st.Args = append(st.Args, rapid.IntRange(0, len(pool)-1).Draw(t, "arg"))
					}
				}
			}
			c.Steps = append(c.Steps, st)
		}
		h.R.Case(t, "sequence", c.String(), c, []string{"call-sequence", "recv:" + h.TypeName(pool[c.Recv].mk())}, mutating >= 2, checkSequenceOfCalls(c))
	})
}

// TestCallTriples - bounded-exhaustive histories: for every receiver, the single calls that
// SUCCEED on a fresh value (arguments from a small pool, arity 0..2) are collected, and every
// ordered triple of them is applied to one value
func TestCallTriples(t *testing.T) {
	m := extractMembers()
	meths, gets := applicable(m)
	small := []int{}
	for _, want := range []string{"0", "1", "2", "3", "6", "-1", "\"abc\"", "\"1*10^5\"", "[1]", "空", "[a=1]", "真"} {
		for i, pe := range pool {
			if pe.name == want {
				small = append(small, i)
			}
		}
	}
	capN := h.Scale(40, 90)
	shard, nsh := h.Shard(), h.NShards()
	var total, nrecv int64
	ri := 0
	for recv := range pool {
		if len(meths[recv]) == 0 {
			continue
		}
		ri++
		if ri%nsh != shard {
			continue
		}
		nrecv++
		// succeeding single calls, grouped by member name
		byName := map[string][]seqStep{}
		var names []string
		try := func(st seqStep) {
			if len(checkSequenceOfCalls(seqCase{Recv: recv, Steps: []seqStep{st}})) > 0 {
				return // reported by the single-call enumeration
			}
			rv := pool[recv].mk()
			var err error
			h.Guard(func() {
				h.Capture(func() {
					var args []r.Element
					for _, a := range st.Args {
						args = append(args, pool[a].mk())
					}
					switch st.Kind {
					case "method":
						_, err = rv.ExecMethod(st.Name, args)
					case "getter":
						_, err = rv.GetProperty(st.Name)
					default:
						err = rv.SetProperty(st.Name, args[0])
					}
				})
			})
			if err == nil {
				if len(byName[st.Kind+st.Name]) == 0 {
					names = append(names, st.Kind+st.Name)
				}
				byName[st.Kind+st.Name] = append(byName[st.Kind+st.Name], st)
			}
		}
		for _, g := range gets[recv] {
			try(seqStep{Kind: "getter", Name: g})
		}
		for _, name := range meths[recv] {
			try(seqStep{Kind: "method", Name: name})
			for _, a := range small {
				try(seqStep{Kind: "method", Name: name, Args: []int{a}})
				for _, b := range small {
					try(seqStep{Kind: "method", Name: name, Args: []int{a, b}})
				}
			}
		}
		for _, name := range m.Setters {
			for _, a := range small {
				try(seqStep{Kind: "setter", Name: name, Args: []int{a}})
			}
		}
		// round-robin over the member names up to the cap
		var calls []seqStep
		for round := 0; len(calls) < capN; round++ {
			added := false
			for _, n := range names {
				// alternately from both ends of the list: the extremes of the arguments a
				// member accepts (first / last element, smallest / largest index) come first
				l := byName[n]
				idx := round / 2
				if round%2 == 1 {
					idx = len(l) - 1 - round/2
				}
				if round < len(l) && len(calls) < capN {
					calls = append(calls, l[idx])
					added = true
				}
			}
			if !added {
				break
			}
		}
		for _, a := range calls {
			for _, b := range calls {
				for _, c := range calls {
					sc := seqCase{Recv: recv, Steps: []seqStep{a, b, c}}
					fails := checkSequenceOfCalls(sc)
					total++
					if len(fails) > 0 || total%500009 == 1 {
						h.R.Case(t, "sequence", sc.String(), sc, []string{"call-triple", "recv:" + h.TypeName(pool[recv].mk())}, true, fails)
					}
				}
			}
		}
	}
	h.R.AddEvals(total)
	h.R.AddDistinct(total)
	h.R.Count("call-triples", total)
	h.R.Exhaustive("call-triples", fmt.Sprintf("every ordered triple of up to %d succeeding single calls per receiver, %d receivers (shard %d/%d)", capN, nrecv, shard, nsh))
}

func TestCorpus(t *testing.T) { h.RunCorpus(t, "c10", replay) }
