package main

import (
	"fmt"
	"hash/adler32"
	"hash/crc32"
	"hash/fnv"
	"sort"
)

// common CJK characters that are identifier characters and not keyword glyphs
const avoid = "令为以其或且之的设恒新建何不如果再输出入拦截导定义得到否则每当遍历等于大小抛继续循环结束此注是成恒空真假"

func main() {
	var chars []rune
	for c := rune(0x4E00); c < 0x4E00+2600; c++ {
		skip := false
		for _, a := range avoid {
			if a == c {
				skip = true
			}
		}
		if !skip {
			chars = append(chars, c)
		}
	}
	castagnoli := crc32.MakeTable(crc32.Castagnoli)
	hashes := map[string]func(string) uint32{
		"fnv32a": func(s string) uint32 { h := fnv.New32a(); h.Write([]byte(s)); return h.Sum32() },
		"fnv32":  func(s string) uint32 { h := fnv.New32(); h.Write([]byte(s)); return h.Sum32() },
		"crc32":  func(s string) uint32 { return crc32.ChecksumIEEE([]byte(s)) },
		"crc32c": func(s string) uint32 { return crc32.Checksum([]byte(s), castagnoli) },
		"adler32": func(s string) uint32 { return adler32.Checksum([]byte(s)) },
		"java31-bytes": func(s string) uint32 {
			var h uint32
			for _, b := range []byte(s) {
				h = h*31 + uint32(b)
			}
			return h
		},
		"java31-runes": func(s string) uint32 {
			var h uint32
			for _, r := range s {
				h = h*31 + uint32(r)
			}
			return h
		},
		"djb2": func(s string) uint32 {
			h := uint32(5381)
			for _, b := range []byte(s) {
				h = h*33 + uint32(b)
			}
			return h
		},
		"djb2-xor": func(s string) uint32 {
			h := uint32(5381)
			for _, b := range []byte(s) {
				h = h*33 ^ uint32(b)
			}
			return h
		},
		"sdbm": func(s string) uint32 {
			var h uint32
			for _, b := range []byte(s) {
				h = uint32(b) + (h << 6) + (h << 16) - h
			}
			return h
		},
		"fnv64a-low32": func(s string) uint32 { h := fnv.New64a(); h.Write([]byte(s)); return uint32(h.Sum64()) },
		"fnv64a-fold": func(s string) uint32 { h := fnv.New64a(); h.Write([]byte(s)); v := h.Sum64(); return uint32(v) ^ uint32(v>>32) },
	}
	names := make([]string, 0, len(hashes))
	for n := range hashes {
		names = append(names, n)
	}
	sort.Strings(names)
	fmt.Println("package zn\n\n// HashTwins - pairs of different identifiers with the same value under a commonplace 32-bit hash\n// function (found by exhaustive search over two-character names; tools: see DESIGN.md). A\n// symbol table, cache or intern table that compares hashes where it should compare names\n// confuses exactly such pairs.\nvar HashTwins = [][3]string{")
	for _, hn := range names {
		f := hashes[hn]
		seen := make(map[uint32]uint32, 8<<20)
		found := 0
		for i, a := range chars {
			for j, b := range chars {
				s := string([]rune{a, b})
				h := f(s)
				code := uint32(i)<<16 | uint32(j)
				if prev, ok := seen[h]; ok {
					p := string([]rune{chars[prev>>16], chars[prev&0xffff]})
					if p != s {
						fmt.Printf("\t{%q, %q, %q},\n", hn, p, s)
						found++
						if found >= 3 {
							goto next
						}
					}
				} else {
					seen[h] = code
				}
			}
		}
	next:
	}
	fmt.Println("}")
}
