package harness

import (
	"fmt"
	"reflect"
	"strings"

	"github.com/DemoHn/Zn/pkg/syntax"
)

// Dumper - nil-safe walk of a *syntax.Program producing a canonical S-expression and the
// list of parts the grammar requires but the tree lacks (completeness predicate).
type Dumper struct {
	b       strings.Builder
	Missing []string
	Lines   bool // include statement line numbers
	// SkipEmpty - drop EmptyStmt nodes (the `；` separator is a statement of its own)
	SkipEmpty bool
}

func isNil(x any) bool {
	if x == nil {
		return true
	}
	v := reflect.ValueOf(x)
	switch v.Kind() {
	case reflect.Ptr, reflect.Interface, reflect.Slice, reflect.Map:
		return v.IsNil()
	}
	return false
}

func (d *Dumper) miss(what string) {
	d.Missing = append(d.Missing, what)
	d.b.WriteString("<MISSING:" + what + ">")
}

// DumpProgramNoEmpty - like DumpProgram, with empty statements dropped
func DumpProgramNoEmpty(p *syntax.Program) (string, []string) {
	d := &Dumper{SkipEmpty: true}
	d.program(p)
	return d.b.String(), d.Missing
}

// DumpProgram - canonical text and missing parts of a program
func DumpProgram(p *syntax.Program) (string, []string) {
	d := &Dumper{}
	d.program(p)
	return d.b.String(), d.Missing
}

func (d *Dumper) program(p *syntax.Program) {
	if p == nil {
		d.miss("program")
		return
	}
	d.b.WriteString("(prog (imports")
	for _, im := range p.ImportBlock {
		d.b.WriteString(" ")
		d.importStmt(im)
	}
	d.b.WriteString(") ")
	if p.ExecBlock == nil {
		d.b.WriteString("nil")
	} else {
		d.exec(p.ExecBlock, "program")
	}
	d.b.WriteString(")")
}

func (d *Dumper) importStmt(im *syntax.ImportStmt) {
	if im == nil {
		d.miss("import")
		return
	}
	fmt.Fprintf(&d.b, "(import %d ", im.ImportLibType)
	if im.ImportName == nil {
		d.miss("import.name")
	} else {
		fmt.Fprintf(&d.b, "%q", im.ImportName.GetLiteral())
	}
	for _, it := range im.ImportItems {
		d.b.WriteString(" ")
		d.id(it, "import.item")
	}
	d.b.WriteString(")")
}

func (d *Dumper) id(id *syntax.ID, where string) {
	if id == nil {
		d.miss(where)
		return
	}
	fmt.Fprintf(&d.b, "(id %q)", id.GetLiteral())
}

func (d *Dumper) exec(e *syntax.ExecBlock, where string) {
	if e == nil {
		d.miss(where + ".exec")
		return
	}
	d.b.WriteString("(exec (inputs")
	for _, in := range e.InputBlock {
		d.b.WriteString(" ")
		d.id(in, where+".input")
	}
	d.b.WriteString(") ")
	if e.StmtBlock == nil {
		d.miss(where + ".stmts")
	} else {
		d.block(e.StmtBlock, where+".body", where != "program")
	}
	d.b.WriteString(" (catch")
	for _, c := range e.CatchBlock {
		if c == nil {
			d.miss(where + ".catchpair")
			continue
		}
		d.b.WriteString(" (on ")
		d.id(c.ExceptionClass, where+".catch.class")
		d.b.WriteString(" ")
		d.block(c.StmtBlock, where+".catch.block", true)
		d.b.WriteString(")")
	}
	d.b.WriteString("))")
}

func (d *Dumper) block(b *syntax.StmtBlock, where string, nonEmpty bool) {
	if b == nil {
		d.miss(where)
		return
	}
	if nonEmpty && len(b.Children) == 0 {
		d.miss(where + ".empty")
	}
	d.b.WriteString("(block")
	for _, s := range b.Children {
		if _, empty := s.(*syntax.EmptyStmt); empty && d.SkipEmpty {
			continue
		}
		d.b.WriteString(" ")
		d.stmt(s)
	}
	d.b.WriteString(")")
}

func (d *Dumper) stmt(s syntax.Statement) {
	if isNil(s) {
		d.miss("stmt")
		return
	}
	if d.Lines {
		fmt.Fprintf(&d.b, "@%d", s.GetCurrentLine())
	}
	switch v := s.(type) {
	case *syntax.VarDeclareStmt:
		d.b.WriteString("(let")
		if len(v.AssignPair) == 0 {
			d.miss("let.pairs")
		}
		for _, p := range v.AssignPair {
			fmt.Fprintf(&d.b, " (pair %d (vars", p.Type)
			if len(p.Variables) == 0 {
				d.miss("let.vars")
			}
			for _, id := range p.Variables {
				d.b.WriteString(" ")
				d.id(id, "let.var")
			}
			d.b.WriteString(") ")
			d.expr(p.AssignExpr, "let.expr")
			d.b.WriteString(")")
		}
		d.b.WriteString(")")
	case *syntax.EmptyStmt:
		d.b.WriteString("(empty)")
	case *syntax.BranchStmt:
		d.b.WriteString("(if ")
		d.expr(v.IfTrueExpr, "if.cond")
		d.b.WriteString(" ")
		d.block(v.IfTrueBlock, "if.then", true)
		if len(v.OtherExprs) != len(v.OtherBlocks) {
			d.miss("if.elif-count")
		}
		for i := range v.OtherExprs {
			d.b.WriteString(" (elif ")
			d.expr(v.OtherExprs[i], "elif.cond")
			d.b.WriteString(" ")
			if i < len(v.OtherBlocks) {
				d.block(v.OtherBlocks[i], "elif.block", true)
			}
			d.b.WriteString(")")
		}
		if v.HasElse {
			d.b.WriteString(" (else ")
			d.block(v.IfFalseBlock, "else.block", true)
			d.b.WriteString(")")
		} else if v.IfFalseBlock != nil {
			d.miss("else.flag")
		}
		d.b.WriteString(")")
	case *syntax.WhileLoopStmt:
		d.b.WriteString("(while ")
		d.expr(v.TrueExpr, "while.cond")
		d.b.WriteString(" ")
		d.block(v.LoopBlock, "while.body", true)
		d.b.WriteString(")")
	case *syntax.IterateStmt:
		d.b.WriteString("(iter (names")
		for _, id := range v.IndexNames {
			d.b.WriteString(" ")
			d.id(id, "iter.name")
		}
		d.b.WriteString(") ")
		d.expr(v.IterateExpr, "iter.expr")
		d.b.WriteString(" ")
		d.block(v.IterateBlock, "iter.body", true)
		d.b.WriteString(")")
	case *syntax.ImportStmt:
		d.importStmt(v)
	case *syntax.BreakStmt:
		d.b.WriteString("(break)")
	case *syntax.ContinueStmt:
		d.b.WriteString("(continue)")
	case *syntax.FunctionDeclareStmt:
		d.funcDecl(v)
	case *syntax.FunctionReturnStmt:
		d.b.WriteString("(ret ")
		d.expr(v.ReturnExpr, "ret.expr")
		d.b.WriteString(")")
	case *syntax.ClassDeclareStmt:
		d.b.WriteString("(class ")
		d.id(v.ClassName, "class.name")
		d.b.WriteString(" (props")
		for _, p := range v.PropertyList {
			if p == nil {
				d.miss("class.prop")
				continue
			}
			d.b.WriteString(" (prop ")
			d.id(p.PropertyID, "prop.id")
			d.b.WriteString(" ")
			d.expr(p.InitValue, "prop.init")
			d.b.WriteString(")")
		}
		d.b.WriteString(") (methods")
		for _, m := range v.MethodList {
			d.b.WriteString(" ")
			d.funcDecl(m)
		}
		d.b.WriteString(") (getters")
		for _, m := range v.GetterList {
			d.b.WriteString(" ")
			d.funcDecl(m)
		}
		d.b.WriteString("))")
	case *syntax.ThrowExceptionStmt:
		d.b.WriteString("(throw ")
		d.id(v.ExceptionClass, "throw.class")
		if len(v.Params) == 0 {
			d.miss("throw.params")
		}
		for _, p := range v.Params {
			d.b.WriteString(" ")
			d.expr(p, "throw.param")
		}
		d.b.WriteString(")")
	case syntax.Expression:
		d.expr(v, "stmt.expr")
	default:
		d.miss(fmt.Sprintf("unknown-stmt-%T", s))
	}
}

func (d *Dumper) funcDecl(f *syntax.FunctionDeclareStmt) {
	if f == nil {
		d.miss("func")
		return
	}
	fmt.Fprintf(&d.b, "(func %d ", f.DeclareType)
	d.id(f.Name, "func.name")
	d.b.WriteString(" ")
	d.exec(f.ExecBlock, "func")
	d.b.WriteString(")")
}

var logicNames = map[uint8]string{
	syntax.LogicOR: "or", syntax.LogicAND: "and", syntax.LogicEQ: "eq", syntax.LogicNEQ: "neq",
	syntax.LogicGT: "gt", syntax.LogicGTE: "gte", syntax.LogicLT: "lt", syntax.LogicLTE: "lte",
	syntax.LogicXEQ: "xeq", syntax.LogicXNEQ: "xneq",
}

var arithNames = map[uint8]string{
	syntax.ArithAdd: "+", syntax.ArithSub: "-", syntax.ArithMul: "*", syntax.ArithDiv: "/",
	syntax.ArithIntDiv: "|", syntax.ArithModulo: "%",
}

func (d *Dumper) call(c *syntax.FuncCallExpr, where string) {
	if c == nil {
		d.miss(where)
		return
	}
	d.b.WriteString("(call ")
	d.id(c.FuncName, where+".name")
	d.b.WriteString(" (args")
	for _, p := range c.Params {
		d.b.WriteString(" ")
		d.expr(p, where+".arg")
	}
	d.b.WriteString(")")
	if c.YieldResult != nil {
		d.b.WriteString(" (yield ")
		d.id(c.YieldResult, where+".yield")
		d.b.WriteString(")")
	}
	d.b.WriteString(")")
}

func (d *Dumper) expr(e syntax.Expression, where string) {
	if isNil(e) {
		d.miss(where)
		return
	}
	switch v := e.(type) {
	case *syntax.ID:
		fmt.Fprintf(&d.b, "(id %q)", v.GetLiteral())
	case *syntax.String:
		fmt.Fprintf(&d.b, "(str %q)", v.GetLiteral())
	case *syntax.ArrayExpr:
		d.b.WriteString("(arr")
		for _, it := range v.Items {
			d.b.WriteString(" ")
			d.expr(it, "arr.item")
		}
		d.b.WriteString(")")
	case *syntax.HashMapExpr:
		d.b.WriteString("(map")
		for _, kv := range v.KVPair {
			d.b.WriteString(" (kv ")
			d.expr(kv.Key, "map.key")
			d.b.WriteString(" ")
			d.expr(kv.Value, "map.value")
			d.b.WriteString(")")
		}
		d.b.WriteString(")")
	case *syntax.VarAssignExpr:
		d.b.WriteString("(assign ")
		if isNil(v.TargetVar) {
			d.miss("assign.target")
		} else {
			d.expr(v.TargetVar, "assign.target")
		}
		d.b.WriteString(" ")
		d.expr(v.AssignExpr, "assign.expr")
		d.b.WriteString(")")
	case *syntax.ObjNewExpr:
		d.b.WriteString("(new ")
		d.id(v.ClassName, "new.class")
		for _, p := range v.Params {
			d.b.WriteString(" ")
			d.expr(p, "new.arg")
		}
		d.b.WriteString(")")
	case *syntax.FuncCallExpr:
		d.call(v, "call")
	case *syntax.MemberExpr:
		switch v.RootType {
		case syntax.RootTypeProp:
			d.b.WriteString("(this ")
			d.id(v.MemberID, "this.member")
			d.b.WriteString(")")
		case syntax.RootTypeExpr:
			switch v.MemberType {
			case syntax.MemberID:
				d.b.WriteString("(member ")
				d.expr(v.Root, "member.root")
				d.b.WriteString(" ")
				d.id(v.MemberID, "member.id")
				d.b.WriteString(")")
			case syntax.MemberIndex:
				d.b.WriteString("(index ")
				d.expr(v.Root, "index.root")
				d.b.WriteString(" ")
				d.expr(v.MemberIndex, "index.idx")
				d.b.WriteString(")")
			default:
				d.miss("member.type")
			}
		default:
			d.miss("member.roottype")
		}
	case *syntax.MemberMethodExpr:
		d.b.WriteString("(mcall ")
		d.expr(v.Root, "mcall.root")
		if len(v.MethodChain) == 0 {
			d.miss("mcall.chain")
		}
		for _, c := range v.MethodChain {
			d.b.WriteString(" ")
			d.call(c, "mcall.call")
		}
		if v.YieldResult != nil {
			d.b.WriteString(" (yield ")
			d.id(v.YieldResult, "mcall.yield")
			d.b.WriteString(")")
		}
		d.b.WriteString(")")
	case *syntax.LogicExpr:
		n, ok := logicNames[v.Type]
		if !ok {
			d.miss("logic.type")
		}
		d.b.WriteString("(" + n + " ")
		d.expr(v.LeftExpr, "logic.left")
		d.b.WriteString(" ")
		d.expr(v.RightExpr, "logic.right")
		d.b.WriteString(")")
	case *syntax.ArithExpr:
		n, ok := arithNames[v.Type]
		if !ok {
			d.miss("arith.type")
		}
		d.b.WriteString("(" + n + " ")
		d.expr(v.LeftExpr, "arith.left")
		d.b.WriteString(" ")
		d.expr(v.RightExpr, "arith.right")
		d.b.WriteString(")")
	default:
		d.miss(fmt.Sprintf("unknown-expr-%T", e))
	}
}
