// C11 - execution is deterministic
package c11

import (
	"encoding/json"
	"fmt"
	"github.com/DemoHn/Zn/pkg/common"
	"net/http"
	"net/http/httptest"
	"net/url"
	"os"
	"path/filepath"
	"sort"
	"strings"
	"testing"

	"github.com/DemoHn/Zn/pkg/exec"
	r "github.com/DemoHn/Zn/pkg/runtime"
	"github.com/DemoHn/Zn/pkg/server"
	"github.com/DemoHn/Zn/pkg/value"
	"pgregory.net/rapid"

	h "verif/harness"
	"verif/zn"
)

var tmpDir string

func TestMain(m *testing.M) {
	d, err := os.MkdirTemp("", "verif-c11-*")
	if err != nil {
		panic(err)
	}
	tmpDir = d
	h.AtExit(func() { os.RemoveAll(d) })
	h.Main(m, "C11", replay)
}

const repeats = 24

// ---------------------------------------------------------------------------------------
// cases

type relCase struct {
	A   json.RawMessage `json:"a"` // dictionary as ordered [key, value] pairs
	B   json.RawMessage `json:"b"`
	Rel string          `json:"rel"`
}

type progCase struct {
	Src     string            `json:"src"`
	Modules map[string]string `json:"modules,omitempty"`
	Text    string            `json:"text,omitempty"` // value of the input 文 (JSON document)
}

type reqCase struct {
	Headers     [][2]string `json:"headers"`
	Query       [][2]string `json:"query"`
	RawHeaders  [][2]string `json:"raw_headers,omitempty"`  // set in the header map as spelled
	RespHeaders [][2]string `json:"resp_headers,omitempty"` // the program answers with a response object carrying these headers (in this order)
}

func replay(sub string, raw json.RawMessage) ([]h.Failure, error) {
	switch sub {
	case "relation":
		var c relCase
		if err := json.Unmarshal(raw, &c); err != nil {
			return nil, err
		}
		return checkRelation(c), nil
	case "repeat":
		var c progCase
		if err := json.Unmarshal(raw, &c); err != nil {
			return nil, err
		}
		return checkRepeat(c), nil
	case "order":
		var c orderCase
		if err := json.Unmarshal(raw, &c); err != nil {
			return nil, err
		}
		return checkOrder(c), nil
	case "exprmap":
		var c exprMapCase
		if err := json.Unmarshal(raw, &c); err != nil {
			return nil, err
		}
		return checkExprMap(c), nil
	case "request":
		var c reqCase
		if err := json.Unmarshal(raw, &c); err != nil {
			return nil, err
		}
		return checkRequest(c), nil
	}
	return nil, fmt.Errorf("unknown sub-check %q", sub)
}

// plain values as JSON: numbers, strings, nested pair lists {"d":[[k,v]...]} and lists {"l":[...]}
func encVal(v zn.Value) any {
	switch x := v.(type) {
	case *zn.DictV:
		pairs := [][]any{}
		for _, k := range x.Keys {
			pairs = append(pairs, []any{k, encVal(x.M[k])})
		}
		return map[string]any{"d": pairs}
	case *zn.ListV:
		items := []any{}
		for _, it := range x.Items {
			items = append(items, encVal(it))
		}
		return map[string]any{"l": items}
	case zn.NullV:
		return nil
	}
	return v
}

func decVal(a any) zn.Value {
	switch x := a.(type) {
	case nil:
		return zn.NullV{}
	case map[string]any:
		if d, ok := x["d"]; ok {
			out := zn.NewDict()
			for _, p := range d.([]any) {
				pp := p.([]any)
				out.Set(pp[0].(string), decVal(pp[1]))
			}
			return out
		}
		out := &zn.ListV{}
		for _, it := range x["l"].([]any) {
			out.Items = append(out.Items, decVal(it))
		}
		return out
	}
	return a
}

func rawOf(v zn.Value) json.RawMessage {
	b, _ := json.Marshal(encVal(v))
	return b
}

func valOf(raw json.RawMessage) zn.Value {
	var a any
	json.Unmarshal(raw, &a)
	return decVal(a)
}

// ---------------------------------------------------------------------------------------
// (i) dictionary relations against structural equality

var relProgs = map[string]string{
	"为":       "输入甲、乙\n输出甲 为 乙",
	"不为":      "输入甲、乙\n输出甲 不为 乙",
	"==":      "输入甲、乙\n输出甲 == 乙",
	"/=":      "输入甲、乙\n输出甲 /= 乙",
	"包含":      "输入甲、乙\n输出以【1，甲，“x”】（包含：乙）",
	"寻找":      "输入甲、乙\n输出以【1，甲，“x”】（寻找：乙）",
	"nested为": "输入甲、乙\n输出【甲，【甲】】 为 【乙，【乙】】",
	"dict为":   "输入甲、乙\n输出【“p” = 甲，“q” = 1】 为 【“p” = 乙，“q” = 1】",
}

func checkRelation(c relCase) []h.Failure {
	a, b := valOf(c.A), valOf(c.B)
	eq, _ := zn.Equal(a, b)
	var want zn.Value
	switch c.Rel {
	case "为", "==", "包含", "nested为", "dict为":
		want = eq
	case "不为", "/=":
		want = !eq
	case "寻找":
		if eq {
			want = float64(2)
		} else {
			want = nil // absent: any non-position
		}
	}
	src := relProgs[c.Rel]
	for i := 0; i < 3; i++ {
		o := h.Run(src, h.Opts{Inputs: map[string]r.Element{"甲": zn.ToElem(a), "乙": zn.ToElem(b)}})
		desc := fmt.Sprintf("甲=%s 乙=%s relation %s (program %q)", zn.Show(a), zn.Show(b), c.Rel, src)
		if o.Kind != h.KValue {
			return []h.Failure{{Sig: "relation/not-a-value", Msg: desc + ": " + o.Short()}}
		}
		if want == nil {
			if n, ok := o.Val.(*value.Number); ok && n.GetValue() >= 1 && n.GetValue() <= 3 {
				return []h.Failure{{Sig: "relation/find-reports-unequal-element", Msg: fmt.Sprintf("%s: the dictionaries differ, but 寻找 reports position %v", desc, n.GetValue())}}
			}
			continue
		}
		if ok, why := zn.Same(o.Val, want); !ok {
			return []h.Failure{{Sig: "relation/wrong-answer:" + c.Rel, Msg: fmt.Sprintf("%s: equality is a function of the contents (structurally equal=%v): %s (run %d)", desc, eq, why, i+1)}}
		}
	}
	return nil
}

func genScalar(t *rapid.T) zn.Value {
	switch rapid.IntRange(0, 4).Draw(t, "sk") {
	case 0:
		return float64(rapid.IntRange(0, 3).Draw(t, "n"))
	case 1:
		return rapid.SampledFrom([]string{"", "a", "b"}).Draw(t, "s")
	case 2:
		return rapid.Bool().Draw(t, "b")
	case 3:
		return zn.NullV{}
	default:
		return &zn.ListV{Items: []zn.Value{float64(rapid.IntRange(0, 1).Draw(t, "li"))}}
	}
}

func TestDictRelations(t *testing.T) {
	keys := []string{"a", "b", "c", "d", "e", "f", "g", "h"}
	rapid.Check(t, func(t *rapid.T) {
		k := rapid.IntRange(2, 8).Draw(t, "k")
		a, b := zn.NewDict(), zn.NewDict()
		ks := rapid.Permutation(keys).Draw(t, "keys")[:k]
		ndiff := rapid.IntRange(0, 2).Draw(t, "ndiff")
		diffAt := map[int]bool{}
		for i := 0; i < ndiff; i++ {
			diffAt[rapid.IntRange(0, k-1).Draw(t, "diffpos")] = true
		}
		nested := false
		for i, key := range ks {
			var v zn.Value = genScalar(t)
			if rapid.IntRange(0, 5).Draw(t, "nest") == 0 {
				inner := zn.NewDict()
				inner.Set("x", genScalar(t))
				inner.Set("y", genScalar(t))
				v = inner
				nested = true
			}
			a.Set(key, v)
			if diffAt[i] {
				switch rapid.IntRange(0, 2).Draw(t, "dk") {
				case 0:
					b.Set(key, "≠")
				case 1:
					b.Set(key+"′", zn.Copy(v)) // different key set, same size
				default:
					if d, ok := v.(*zn.DictV); ok {
						nd := zn.Copy(d).(*zn.DictV)
						nd.Set("y", "≠")
						b.Set(key, nd)
					} else {
						b.Set(key, &zn.ListV{Items: []zn.Value{"≠"}})
					}
				}
			} else {
				b.Set(key, zn.Copy(v))
			}
		}
		// insertion order of b is independent of a's
		if rapid.Bool().Draw(t, "shuffle") {
			nb := zn.NewDict()
			for _, key := range rapid.Permutation(b.Keys).Draw(t, "border") {
				nb.Set(key, b.M[key])
			}
			b = nb
		}
		rel := rapid.SampledFrom([]string{"为", "不为", "==", "/=", "包含", "寻找", "nested为", "dict为"}).Draw(t, "rel")
		c := relCase{A: rawOf(a), B: rawOf(b), Rel: rel}
		eq, _ := zn.Equal(a, b)
		labels := []string{"rel:" + rel}
		if !eq {
			labels = append(labels, "partially-equal")
		} else {
			labels = append(labels, "equal")
		}
		if nested {
			labels = append(labels, "nested-dict")
		}
		h.R.Case(t, "relation", string(c.A)+string(c.B)+rel, c, labels, k >= 2 && len(diffAt) > 0, checkRelation(c))
	})
}

// ---------------------------------------------------------------------------------------
// (ii) repetition: N runs of the same program must agree on result, trace and error text

func observe(c progCase) string {
	inputs := map[string]r.Element{}
	if c.Text != "" || strings.Contains(c.Src, "输入文") {
		inputs["文"] = value.NewString(c.Text)
	}
	o := h.Run(c.Src, h.Opts{Modules: c.Modules, Inputs: inputs, EvalTicks: 100000})
	return fmt.Sprintf("kind=%s value=%s %q error=%q trace=%q", o.Kind, o.ValType, o.ValText, o.Display, strings.Join(o.Trace, "\n"))
}

func checkRepeat(c progCase) []h.Failure {
	first := observe(c)
	if strings.HasPrefix(first, "kind="+h.KPanic) || strings.HasPrefix(first, "kind="+h.KBudget) {
		return []h.Failure{{Sig: "repeat/crash", Msg: c.Src + "\n" + first}}
	}
	for i := 1; i < repeats; i++ {
		if again := observe(c); again != first {
			return []h.Failure{{Sig: "repeat/runs-differ@" + diffField(first, again), Msg: fmt.Sprintf("program:\n%s\ninput 文=%q modules=%v\nrun 1:   %s\nrun %d: %s", c.Src, c.Text, c.Modules, first, i+1, again)}}
		}
	}
	return nil
}

func diffField(a, b string) string {
	for _, f := range []string{"value=", "error=", "trace="} {
		ia, ib := strings.Index(a, f), strings.Index(b, f)
		if ia < 0 || ib < 0 {
			continue
		}
		ea, eb := a[ia:], b[ib:]
		if j := strings.Index(ea[1:], "="); j > 0 {
			// compare up to the next field
		}
		if strings.SplitN(ea, " error=", 2)[0] != strings.SplitN(eb, " error=", 2)[0] && f == "value=" {
			return "value"
		}
		if f == "error=" && strings.SplitN(ea, " trace=", 2)[0] != strings.SplitN(eb, " trace=", 2)[0] {
			return "error"
		}
		if f == "trace=" && ea != eb {
			return "trace"
		}
	}
	return "other"
}

func genJSONDoc(t *rapid.T, depth int) string {
	n := rapid.IntRange(2, 6).Draw(t, "nkeys")
	keys := rapid.Permutation([]string{"z", "a", "m", "b", "键", "k1", "k2", "y"}).Draw(t, "jk")[:n]
	var parts []string
	for _, k := range keys {
		v := fmt.Sprint(rapid.IntRange(0, 9).Draw(t, "jv"))
		if depth > 0 && rapid.IntRange(0, 3).Draw(t, "jn") == 0 {
			v = genJSONDoc(t, depth-1)
		} else if rapid.IntRange(0, 4).Draw(t, "jl") == 0 {
			v = "[1," + genJSONDoc(t, 0) + "]"
		}
		parts = append(parts, fmt.Sprintf("%q:%s", k, v))
	}
	return "{" + strings.Join(parts, ",") + "}"
}

// equality of dictionaries is a function of their contents: writing the entries of either
// operand in another order changes nothing about the answer - also when some entries cannot
// be compared at all (objects, methods) and others differ
type orderCase struct {
	SrcA string `json:"src_a"`
	SrcB string `json:"src_b"`
}

func checkOrder(c orderCase) []h.Failure {
	obs := func(src string) string {
		o := h.Run(src, h.Opts{EvalTicks: 100000})
		return fmt.Sprintf("kind=%s value=%s %q code=%d", o.Kind, o.ValType, o.ValText, o.ErrCode)
	}
	a, b := obs(c.SrcA), obs(c.SrcB)
	if strings.HasPrefix(a, "kind="+h.KPanic) || strings.HasPrefix(b, "kind="+h.KPanic) {
		return []h.Failure{{Sig: "order/crash", Msg: c.SrcA + "\n" + a + "\n" + c.SrcB + "\n" + b}}
	}
	if a != b {
		return []h.Failure{{Sig: "order/answer-depends-on-insertion-order", Msg: fmt.Sprintf("entries written in one order:\n%s\n-> %s\nthe same entries written in another order:\n%s\n-> %s", c.SrcA, a, c.SrcB, b)}}
	}
	return nil
}

func TestInsertionOrderIrrelevant(t *testing.T) {
	rapid.Check(t, func(t *rapid.T) {
		n := rapid.IntRange(2, 6).Draw(t, "n")
		keys := rapid.Permutation([]string{"q", "w", "e", "r", "t", "y"}).Draw(t, "keys")[:n]
		var ps, qs []string
		hard, diff := 0, 0
		for i, k := range keys {
			va, vb := fmt.Sprint(i), fmt.Sprint(i)
			switch rapid.IntRange(0, 4).Draw(t, "ek") {
			case 0:
				va, vb = "物", "物"
				hard++
			case 1:
				va, vb = "物", "另"
				hard++
			case 2:
				vb = "99"
				diff++
			case 3:
				va, vb = "某法", "某法"
				hard++
			}
			ps = append(ps, fmt.Sprintf("“%s” = %s", k, va))
			qs = append(qs, fmt.Sprintf("“%s” = %s", k, vb))
		}
		rel := rapid.SampledFrom([]string{"输出甲 为 乙", "输出甲 == 乙", "输出甲 不为 乙", "输出甲 /= 乙", "输出以【甲】（包含：乙）", "输出以【1，甲】（寻找：乙）", "输出【“p” = 甲】 为 【“p” = 乙】", "输出【甲】 == 【乙】"}).Draw(t, "rel")
		prog := func(ps, qs []string) string {
			return "定义狗：\n    其名 = “黄”\n如何某法？\n    输出1\n令物 = （新建狗）\n令另 = （新建狗）\n令甲 = 【" + strings.Join(ps, "，") + "】\n令乙 = 【" + strings.Join(qs, "，") + "】\n" + rel
		}
		c := orderCase{SrcA: prog(ps, qs), SrcB: prog(rapid.Permutation(ps).Draw(t, "perm-a"), rapid.Permutation(qs).Draw(t, "perm-b"))}
		labels := []string{"insertion-order-permuted"}
		if rapid.IntRange(0, 3).Draw(t, "self") == 0 {
			// ... nor on whether the two operands are one and the same dictionary or two with
			// the same contents
			op := rapid.SampledFrom([]string{"为", "==", "不为", "/="}).Draw(t, "self-op")
			head := "定义狗：\n    其名 = “黄”\n如何某法？\n    输出1\n令物 = （新建狗）\n令另 = （新建狗）\n令甲 = 【" + strings.Join(ps, "，") + "】\n"
			wrapA, wrapB := "甲 "+op+" 甲", "甲 "+op+" 丙"
			if rapid.Bool().Draw(t, "self-nested") {
				head += "令甲 = 【1，甲】\n"
			}
			c = orderCase{SrcA: head + "令丙 = 甲\n输出" + wrapA, SrcB: head + "令丙 = 甲\n输出" + wrapB}
			labels = []string{"same-instance-against-equal-copy"}
		}
		if hard > 0 && diff > 0 {
			labels = append(labels, "incomparable-entry-next-to-differing-entry")
		}
		key, _ := json.Marshal(c)
		h.R.Case(t, "order", string(key), c, labels, hard > 0 && diff > 0, checkOrder(c))
	})
}

func TestRepeatPrograms(t *testing.T) {
	rapid.Check(t, func(t *rapid.T) {
		var c progCase
		labels := []string{}
		switch rapid.IntRange(0, 13).Draw(t, "kind") {
		case 13: // import graphs that hold a cycle somewhere behind the main program (reached
			// directly or through modules that are not on it): what is reported, and where, is the
			// same on every run
			n := rapid.IntRange(2, 5).Draw(t, "nmods")
			names := []string{"甲", "乙", "丙", "丁", "戊"}[:n]
			c.Modules = map[string]string{}
			for i, nm := range names {
				var b strings.Builder
				// a chain towards the end, the last module closes a cycle onto a drawn earlier one
				if i+1 < n {
					b.WriteString("导入“" + names[i+1] + "”\n")
				} else {
					b.WriteString("导入“" + names[rapid.IntRange(0, n-1).Draw(t, "back")] + "”\n")
				}
				if rapid.IntRange(0, 2).Draw(t, "extra") == 0 {
					b.WriteString("导入“" + names[rapid.IntRange(0, n-1).Draw(t, "extra-to")] + "”\n")
				}
				fmt.Fprintf(&b, "（显示：“body-%s”）\n如何%s法？\n    输出%d\n", nm, nm, i)
				c.Modules[nm] = b.String()
			}
			c.Src = "导入“甲”\n（显示：“main”）\n输出（甲法）"
			labels = append(labels, "import-cycle-behind-main")
		case 11, 12: // errors whose message names ONE of several offending entries of a dictionary:
			// which one is named is the same on every run (generation of JSON from values
			// without JSON form, comparison / search with values that cannot be compared)
			offenders := []string{"显示", "（新建狗）", "（新建猫）", "异常", "某法", "1 / {1 - 1}"}
			n := rapid.IntRange(2, 6).Draw(t, "n")
			keys := rapid.Permutation([]string{"q", "w", "e", "r", "t", "y", "u"}).Draw(t, "keys")[:n]
			var ps []string
			bad := 0
			for i, k := range keys {
				val := fmt.Sprint(i)
				if i < 2 || rapid.Bool().Draw(t, "offender") {
					val = rapid.SampledFrom(offenders[:5]).Draw(t, "which")
					bad++
				}
				ps = append(ps, fmt.Sprintf("“%s” = %s", k, val))
			}
			lit := "【" + strings.Join(ps, "，") + "】"
			if rapid.Bool().Draw(t, "nested") {
				lit = "【“外” = 【1，" + lit + "】，“别” = 显示】"
			}
			use := rapid.SampledFrom([]string{"（生成JSON：典）", "（生成JSON：【“层” = 【典】】）", "典 == 典二", "以【典二】（寻找：典）", "“{#}” % 【典】"}).Draw(t, "use")
			c.Src = "导入《@JSON》\n定义狗：\n    其名 = “黄”\n定义猫：\n    其名 = “花”\n如何某法？\n    输出1\n令典 = " + lit + "\n令典二 = " + lit + "\n（显示：" + use + "）\n输出“没有异常”\n拦截异常：\n    （显示：其内容）\n    输出其内容"
			labels = append(labels, "error-naming-one-of-several-offenders")
		case 9, 10: // built-in members of texts and lists whose arguments (and receiver) are made of the
			// pieces those members give a meaning to - placeholders inside the texts that replace
			// placeholders, separators inside the parts, the pattern inside the replacement: what
			// the member makes of them is the same on every run
			pieces := []string{"{#1}", "{#2}", "{#3}", "{#10}", "{}", "甲", "乙", "a", "aa", "", "，", "{#", "}", "1", "{#1}{#2}"}
			txt := func(w string) string {
				n := rapid.IntRange(0, 3).Draw(t, w+"-n")
				out := ""
				for i := 0; i < n; i++ {
					out += rapid.SampledFrom(pieces).Draw(t, w)
				}
				return "“" + out + "”"
			}
			args := func(w string, lo, hi int) string {
				var as []string
				for i, n := 0, rapid.IntRange(lo, hi).Draw(t, w+"-k"); i < n; i++ {
					as = append(as, txt(fmt.Sprintf("%s%d", w, i)))
				}
				return strings.Join(as, "、")
			}
			var lines []string
			for i, n := 0, rapid.IntRange(1, 4).Draw(t, "ncalls"); i < n; i++ {
				switch rapid.IntRange(0, 6).Draw(t, "member") {
				case 0, 1, 2:
					lines = append(lines, "（显示：以"+txt("tpl")+"（格式化："+args("fa", 1, 4)+"））")
				case 3:
					lines = append(lines, "（显示：以"+txt("rs")+"（替换："+args("ra", 2, 2)+"））")
				case 4:
					lines = append(lines, "（显示：以"+txt("ss")+"（分隔："+args("sa", 1, 1)+"））")
				case 5:
					lines = append(lines, "（显示：以【"+strings.ReplaceAll(args("jl", 0, 4), "、", "，")+"】（拼接："+args("ja", 1, 1)+"））")
				default:
					lines = append(lines, "（显示："+txt("pt")+" % 【"+strings.ReplaceAll(args("pa", 0, 3), "、", "，")+"】）")
				}
			}
			c.Src = strings.Join(lines, "\n") + "\n输出1\n拦截异常：\n    输出其内容"
			labels = append(labels, "members-fed-their-own-markers")
		case 8: // in-place number methods reaching values written as literals: the next run of the
			// same text starts from the same literals
			a := rapid.IntRange(0, 9999).Draw(t, "lit-a")
			b := rapid.IntRange(0, 9999).Draw(t, "lit-b")
			m1 := rapid.SampledFrom([]string{"自增", "自减"}).Draw(t, "m1")
			m2 := rapid.SampledFrom([]string{"自增", "自减"}).Draw(t, "m2")
			c.Src = fmt.Sprintf("如何改？\n    输入基数\n    以基数（%s：10）\n    输出基数\n令表 = 【“甲”，“乙”，“丙”，“丁”】\n（显示：（改：%d）、{以%d（%s：3）}、%d、%d）\n输出【（改：%d），表#{%d - %d + 1}】", m1, a, b, m2, a, b, a, b, b)
			labels = append(labels, "in-place-method-on-literal")
		case 6, 7: // dictionaries holding values that cannot be compared (objects, methods) next to
			// entries that differ: whether the answer is an error or 假 must not depend on
			// which entry is examined first
			n := rapid.IntRange(2, 6).Draw(t, "n")
			keys := rapid.Permutation([]string{"q", "w", "e", "r", "t", "y"}).Draw(t, "keys")[:n]
			var ps, qs []string
			hard, diff := 0, 0
			for i, k := range keys {
				va, vb := fmt.Sprint(i), fmt.Sprint(i)
				switch rapid.IntRange(0, 3).Draw(t, "ek") {
				case 0:
					va, vb = "物", "物"
					hard++
				case 1:
					va, vb = "物", "另"
					hard++
				case 2:
					vb = "99"
					diff++
				}
				ps = append(ps, fmt.Sprintf("“%s” = %s", k, va))
				qs = append(qs, fmt.Sprintf("“%s” = %s", k, vb))
			}
			if rapid.Bool().Draw(t, "rev") {
				for i, j := 0, len(qs)-1; i < j; i, j = i+1, j-1 {
					qs[i], qs[j] = qs[j], qs[i]
				}
			}
			rel := rapid.SampledFrom([]string{"输出甲 为 乙", "输出甲 == 乙", "输出甲 不为 乙", "输出以【甲】（包含：乙）", "输出以【1，甲】（寻找：乙）", "输出以【【甲】】（包含：【乙】）", "输出【“p” = 甲】 为 【“p” = 乙】"}).Draw(t, "rel")
			c.Src = "定义狗：\n    其名 = “黄”\n令物 = （新建狗）\n令另 = （新建狗）\n令甲 = 【" + strings.Join(ps, "，") + "】\n令乙 = 【" + strings.Join(qs, "，") + "】\n" + rel
			labels = append(labels, "incomparable-entries")
			if hard > 0 && diff > 0 {
				labels = append(labels, "error-or-false-race")
			}
		case 0, 1: // values built from external data: parsed JSON displayed, iterated, re-generated, compared
			c.Text = genJSONDoc(t, 2)
			if rapid.IntRange(0, 3).Draw(t, "deep") == 0 {
				// the same document below many enclosing containers (depth limits of decoders)
				levels := rapid.SampledFrom([]int{1, 10, 31, 32, 63, 64, 65, 100, 127, 128, 129, 300}).Draw(t, "levels")
				for i := 0; i < levels; i++ {
					if i%2 == 0 || i == levels-1 {
						c.Text = "{\"w\":" + c.Text + ",\"v\":0}"
					} else {
						c.Text = "[" + c.Text + "]"
					}
				}
				labels = append(labels, "deeply-nested-json")
			}
			c.Src = "导入《@JSON》\n输入文\n令典 = （解析JSON：文）\n（显示：典）\n以键、值遍历典：\n    （显示：键、值）\n（显示：典之所有索引、典之所有值）\n（显示：（生成JSON：典））\n输出典 为 （解析JSON：（生成JSON：典））"
			labels = append(labels, "parsed-json")
		case 2: // dictionary literals: display, iteration, equality, search
			n := rapid.IntRange(2, 7).Draw(t, "n")
			keys := rapid.Permutation([]string{"q", "w", "e", "r", "t", "y", "u"}).Draw(t, "keys")[:n]
			var ps, qs []string
			for i, k := range keys {
				ps = append(ps, fmt.Sprintf("“%s” = %d", k, i))
				v := i
				if i == n-1 && rapid.Bool().Draw(t, "lastdiff") {
					v = 99
				}
				qs = append([]string{fmt.Sprintf("“%s” = %d", k, v)}, qs...)
			}
			labels = append(labels, "dict-literals")
			// a literal may give the same key more than once (and so may a copy of it)
			for i, nd := 0, rapid.IntRange(0, 3).Draw(t, "ndup"); i < nd; i++ {
				k := keys[rapid.IntRange(0, n-1).Draw(t, "dupkey")]
				at := rapid.IntRange(0, len(ps)).Draw(t, "dupat")
				ps = append(ps[:at], append([]string{fmt.Sprintf("“%s” = %d", k, 50+i)}, ps[at:]...)...)
				if i == 0 {
					labels = append(labels, "literal-repeats-a-key")
				}
			}
			c.Src = "令甲 = 【" + strings.Join(ps, "，") + "】\n令乙 = 【" + strings.Join(qs, "，") + "】\n（显示：甲、乙）\n（显示：甲 为 乙、甲 不为 乙、甲 == 乙）\n（显示：{以【乙】（包含：甲）}、{以【乙】（寻找：甲）}）\n遍历甲：\n    （显示：1）\n以键、值遍历甲：\n    （显示：键、值）\n（显示：甲之所有索引、甲之所有值）\n输出【甲，乙】"
		case 3: // import-all of modules whose exports collide: which name the error reports
			n := rapid.IntRange(2, 5).Draw(t, "nexp")
			var body strings.Builder
			for i := 0; i < n; i++ {
				fmt.Fprintf(&body, "如何共%d？\n    输出%d\n", i, i)
			}
			c.Modules = map[string]string{"甲": body.String(), "乙": body.String()}
			c.Src = "导入“甲”\n导入“乙”\n输出1"
			labels = append(labels, "colliding-imports")
		case 4: // import-all into a module that already declares one of the names
			c.Modules = map[string]string{"甲": "如何一？\n    输出1\n如何二？\n    输出2\n如何三？\n    输出3\n定义四：\n    其名 = 4\n"}
			c.Src = "导入“甲”\n（显示：（一）、（二）、（三）、（新建四）之名）\n输出（一） + （二）"
			labels = append(labels, "import-all")
		default: // errors: code, message, line
			c.Src = "令典 = 【“a” = 1，“b” = 2，“c” = 3】\n以键、值遍历典：\n    （显示：键）\n    如果值 == 2：\n        （显示：典#“无”）\n输出典"
			labels = append(labels, "error-text")
		}
		// how the first run ends (a class of programs that never gets past the parser shows here)
		first := observe(c)
		switch {
		case strings.Contains(first, "error=\"\""):
			labels = append(labels, "ends:value")
		case strings.Contains(first, "语法错误"):
			labels = append(labels, "ends:syntax-error")
		default:
			labels = append(labels, "ends:runtime-error")
		}
		key, _ := json.Marshal(c)
		h.R.Case(t, "repeat", string(key), c, labels, true, checkRepeat(c))
	})
}

// ---------------------------------------------------------------------------------------
// (iii) request headers / query parameters through the HTTP handler

var httpLib = func() *r.Library {
	l := r.NewLibrary("@测试库")
	l.RegisterClass("HTTP响应", common.CLASS_HttpResponse)
	return l
}()

func checkRequest(c reqCase) []h.Failure {
	entry := filepath.Join(tmpDir, fmt.Sprintf("entry-%d.zn", os.Getpid()))
	prog := "输入当前请求\n输出【“头” = 当前请求之头部，“参” = 当前请求之查询参数】"
	if len(c.RespHeaders) > 0 {
		prog = "导入《@测试库》\n输入当前请求\n令应 = （新建HTTP响应：200、“体”）\n"
		for _, kv := range c.RespHeaders {
			prog += "以应之头部（写入：“" + kv[0] + "”、“" + kv[1] + "”）\n"
		}
		prog += "输出应"
	}
	os.WriteFile(entry, []byte(prog), 0o644)
	first := ""
	for i := 0; i < repeats; i++ {
		q := url.Values{}
		for _, kv := range c.Query {
			q.Add(kv[0], kv[1])
		}
		req := httptest.NewRequest("GET", "http://zn.test/p?"+q.Encode(), nil)
		for _, kv := range c.Headers {
			req.Header.Add(kv[0], kv[1])
		}
		for _, kv := range c.RawHeaders {
			req.Header[kv[0]] = append(req.Header[kv[0]], kv[1])
		}
		rec := httptest.NewRecorder()
		var kind, msg, site string
		h.Capture(func() {
			kind, msg, site = h.Guard(func() {
				hd := server.NewZnHttpHandler(exec.NewInterpreter("verif").SetExternalLibs(append([]*r.Library{httpLib}, h.Libs()...)), entry)
				hd.ServeHTTP(rec, req)
			})
		})
		if kind != "" {
			return []h.Failure{{Sig: "request/" + kind + "@" + site, Msg: msg}}
		}
		body := fmt.Sprintf("%d %s", rec.Code, rec.Body.String())
		if len(c.RespHeaders) > 0 {
			var names []string
			for n := range rec.Header() {
				names = append(names, n)
			}
			sort.Strings(names)
			for _, n := range names {
				body += fmt.Sprintf(" %s=%q", n, rec.Header()[n])
			}
		}
		if i == 0 {
			first = body
			if rec.Code != http.StatusOK {
				return []h.Failure{{Sig: "request/handler-error", Msg: body}}
			}
		} else if body != first {
			return []h.Failure{{Sig: "request/order-differs", Msg: fmt.Sprintf("headers %v query %v\nresponse 1:  %s\nresponse %d: %s", c.Headers, c.Query, first, i+1, body)}}
		}
	}
	return nil
}

func TestRequestOrder(t *testing.T) {
	names := []string{"X-A", "X-B", "Accept", "X-Token", "User-Agent", "X-Z", "Cookie"}
	rapid.Check(t, func(t *rapid.T) {
		var c reqCase
		for _, n := range rapid.Permutation(names).Draw(t, "hn")[:rapid.IntRange(2, 6).Draw(t, "nh")] {
			c.Headers = append(c.Headers, [2]string{n, "v" + n})
		}
		// names that differ in capitalisation only are different names of a query string
		for i, n := range rapid.Permutation([]string{"a", "b", "c", "d", "e", "A", "B", "Token", "token", "TOKEN"}).Draw(t, "qn")[:rapid.IntRange(2, 7).Draw(t, "nq")] {
			c.Query = append(c.Query, [2]string{n, fmt.Sprint(i + 1)})
		}
		if rapid.Bool().Draw(t, "rawheaders") {
			// header names as a non-canonicalising client / proxy may deliver them
			for i, n := range rapid.Permutation([]string{"x-trace", "X-Trace", "X-TRACE", "x-b"}).Draw(t, "rh")[:rapid.IntRange(2, 4).Draw(t, "nrh")] {
				c.RawHeaders = append(c.RawHeaders, [2]string{n, fmt.Sprint("r", i)})
			}
		}
		labels := []string{"http-request"}
		if rapid.IntRange(0, 2).Draw(t, "respobj") == 0 {
			// the program answers with a response object; names that differ in capitalisation
			// end up under one canonical header name, the values in the order they were set
			for i, n := range rapid.Permutation([]string{"x-a", "X-A", "X-a", "x-b", "Content-Type", "x-c"}).Draw(t, "rsp")[:rapid.IntRange(2, 5).Draw(t, "nrsp")] {
				c.RespHeaders = append(c.RespHeaders, [2]string{n, fmt.Sprint("v", i)})
			}
			labels = append(labels, "response-object-headers")
		}
		key, _ := json.Marshal(c)
		h.R.Case(t, "request", string(key), c, labels, true, checkRequest(c))
	})
}

// ---------------------------------------------------------------------------------------
// (iv) a map of expression texts (exec.ExecExpressionInputText): with several invalid entries
// the reported error must not depend on the order in which the Go map is walked

type exprMapCase struct {
	Exprs map[string]string `json:"exprs"`
}

func checkExprMap(c exprMapCase) []h.Failure {
	first := ""
	for i := 0; i < repeats; i++ {
		var got string
		kind, msg, site := h.Guard(func() {
			res, err := exec.ExecExpressionInputText(c.Exprs)
			if err != nil {
				got = "error=" + err.Error()
				return
			}
			keys := make([]string, 0, len(res))
			for k := range res {
				keys = append(keys, k)
			}
			sort.Strings(keys)
			for _, k := range keys {
				got += k + "=" + res[k].String() + ";"
			}
		})
		if kind != "" {
			return []h.Failure{{Sig: "exprmap/" + kind + "@" + site, Msg: msg}}
		}
		if i == 0 {
			first = got
		} else if got != first {
			return []h.Failure{{Sig: "exprmap/runs-differ", Msg: fmt.Sprintf("expressions %v\nrun 1:  %s\nrun %d: %s", c.Exprs, first, i+1, got)}}
		}
	}
	return nil
}

func TestExprMapOrder(t *testing.T) {
	good := []string{"1", "1 + 2", "“文”", "【1，2】", "【“k” = 1】", "真"}
	bad := []string{"未知甲", "未知乙", "未知丙", "1 / 0", "【1】#5", "1 +", "（（", "“a” + 1", "令A = 1"}
	rapid.Check(t, func(t *rapid.T) {
		n := rapid.IntRange(2, 7).Draw(t, "n")
		keys := rapid.Permutation([]string{"a", "b", "c", "d", "e", "f", "g"}).Draw(t, "keys")[:n]
		c := exprMapCase{Exprs: map[string]string{}}
		nbad := 0
		for _, k := range keys {
			if rapid.IntRange(0, 2).Draw(t, "isbad") == 0 {
				c.Exprs[k] = rapid.SampledFrom(bad).Draw(t, "bad")
				nbad++
			} else {
				c.Exprs[k] = rapid.SampledFrom(good).Draw(t, "good")
			}
		}
		labels := []string{"expr-map"}
		if nbad >= 2 {
			labels = append(labels, "several-invalid-entries")
		}
		key, _ := json.Marshal(c)
		h.R.Case(t, "exprmap", string(key), c, labels, nbad >= 2, checkExprMap(c))
	})
}

func TestCorpus(t *testing.T) { h.RunCorpus(t, "c11", replay) }
