package c09

import (
	"fmt"
	"strings"
	"testing"

	h "verif/harness"
)

// The "too many nested calls" fault is an exception like any other: handled by the 拦截 handler
// of whichever body is nearest, after which the callers go on exactly as if the protected body
// had returned normally (their variables, the depth of their scopes and the call depth are what
// they were). Few programs, each recursing to the interpreter's own bound; fixed expectations.

type depthCase struct {
	Name    string            `json:"name"`
	Src     string            `json:"src"`
	Want    string            `json:"want"` // displayed form of the program's value
	Modules map[string]string `json:"modules,omitempty"`
}

const endless = "如何无尽？\n    输入N\n    输出（无尽：N + 1）\n"

var depthCases = []depthCase{
	{"handled by the method that started the recursion; its input is named like a variable of the caller",
		"令甲 = 5\n令乙 = 【1，2】\n" + endless + "如何守护？\n    输入甲\n    令内 = （无尽：甲）\n    输出内\n    拦截异常：\n        输出“已拦截”\n令果 = （守护：1）\n令丙 = 甲 + 1\n输出【果，甲，丙，乙】",
		"[已拦截，5，6，[1，2]]", nil},
	{"handled two calls above the recursion, the caller declares the names the callee used",
		"令甲 = 5\n" + endless + "如何中？\n    输入乙\n    令丙 = 7\n    输出（无尽：乙）\n如何守护？\n    输入甲、乙、丙\n    输出（中：甲）\n    拦截异常：\n        输出“已拦截”\n令果 = （守护：1、2、3）\n令乙 = 8\n令丙 = 9\n输出【果，甲，乙，丙】",
		"[已拦截，5，8，9]", nil},
	{"handled twice in a row by the same method, inside a loop of the caller",
		"令甲 = 0\n" + endless + "如何守护？\n    输入次\n    输出（无尽：次）\n    拦截异常：\n        输出次\n以值遍历【10，20】：\n    令局 = （守护：值）\n    甲 = 甲 + 局\n输出甲",
		"30", nil},
	{"handled inside a method of an object; 其 of the calling method afterwards",
		endless + "定义盒：\n    其量 = 3\n    如何试？\n        输入量\n        输出（无尽：量）\n        拦截异常：\n            输出-1\n    如何跑？\n        令果 = 以此（试：100）\n        输出【果，其量】\n输出以（新建盒）（跑）",
		"[-1，3]", nil},
	{"handled by the program body itself, a second program-level statement would not run",
		"令甲 = 5\n" + endless + "（无尽：1）\n输出“到不了”\n拦截异常：\n    输出“已拦截”",
		"已拦截", nil},
	{"a handler whose class is a number stands before the matching one: it matches nothing, the exception goes on to the next handler",
		"令A = 1 / 0\n拦截100：\n    输出 5\n拦截异常：\n    输出 6",
		"6", nil},
	{"a handler whose class is a number is the only one, inside a method: the exception reaches the caller's handler unchanged",
		"如何试？\n    输出 1 / 0\n    拦截3.5：\n        输出 5\n令果 = （试）\n输出“到不了”\n拦截异常：\n    输出其内容",
		"被除数不得为0", nil},
	{"the predefined type held under another name: the handler written with THAT name matches",
		"令E = 异常\n如何F？\n    抛出E：“m”！\n    拦截E：\n        输出“caught E”\n    拦截异常：\n        输出“caught 异常”\n输出（F）",
		"caught E", nil},
	{"a type of an imported module with the same NAME as a type of the main program is another class: the handler for main's type lets it pass",
		"导入“甲”的F\n定义错误：\n    其内容 = “main's”\n如何G？\n    输出（F）\n    拦截错误：\n        输出“wrong handler”\n输出（G）\n拦截异常：\n    输出“not this one either”",
		"error", map[string]string{"甲": "定义错误：\n    其内容 = “module's”\n如何F？\n    抛出错误：1！\n"}},
	{"... while main's own object of that name is caught by it",
		"导入“甲”的F\n定义错误：\n    其内容 = “main's”\n如何G？\n    抛出错误：1！\n    拦截错误：\n        输出其内容\n输出（G）",
		"main's", map[string]string{"甲": "定义错误：\n    其内容 = “module's”\n如何F？\n    抛出错误：1！\n"}},
	{"two methods each declare a LOCAL type of the same name: the handler written with the outer method's type lets the inner method's object pass",
		"如何内层？\n    定义故障：\n        其内容 = “内层的故障”\n    抛出故障：1！\n如何外层？\n    定义故障：\n        其内容 = “外层的故障”\n    输出（内层）\n    拦截故障：\n        输出“外层拦截”\n令果 = （外层）\n输出“到不了”",
		"error", nil},
	{"a local type shadows the program's type of the same name: the program's handler lets the local type's object pass",
		"定义故障：\n    其内容 = “主程序的故障”\n如何触发？\n    定义故障：\n        其内容 = “方法内的故障”\n    抛出故障：1！\n（触发）\n输出“到不了”\n拦截故障：\n    输出“被拦截”",
		"error", nil},
	{"... while a local type is caught by the handler of the method that declares it",
		"定义故障：\n    其内容 = “主程序的故障”\n如何触发？\n    定义故障：\n        其内容 = “方法内的故障”\n    抛出故障：1！\n    拦截故障：\n        输出其内容\n输出（触发）",
		"方法内的故障", nil},
	{"... and the program's type, thrown after a call that handled its own local type of that name, by the program's handler",
		"定义故障：\n    其内容 = “主程序的故障”\n如何触发？\n    定义故障：\n        其内容 = “方法内的故障”\n    抛出故障：1！\n    拦截故障：\n        输出其内容\n（触发）\n抛出故障：1！\n拦截故障：\n    输出其内容",
		"主程序的故障", nil},
	{"not handled at all: the program ends with the fault",
		endless + "（无尽：1）\n输出“到不了”",
		"error", nil},
}

func checkDepth(c depthCase) []h.Failure {
	o := h.Run(c.Src, h.Opts{EvalTicks: 200000000, MaxDepth: -1, WantVM: true, Modules: c.Modules})
	desc := fmt.Sprintf("%s\nprogram:\n%s", c.Name, c.Src)
	switch o.Kind {
	case h.KPanic, h.KBudget, h.KNil:
		return []h.Failure{{Sig: "depth/" + o.Kind + "@" + o.PanicSite, Msg: desc + "\n" + o.PanicMsg}}
	case h.KError:
		if c.Want == "error" {
			if !strings.Contains(o.Display, "运行异常") {
				return []h.Failure{{Sig: "depth/odd-error", Msg: desc + "\n" + o.Short()}}
			}
			return nil
		}
		return []h.Failure{{Sig: "depth/not-handled", Msg: fmt.Sprintf("%s\nexpected the value %s, got %s", desc, c.Want, o.Short())}}
	}
	if c.Want == "error" || o.ValText != c.Want {
		return []h.Failure{{Sig: "depth/caller-state-changed", Msg: fmt.Sprintf("%s\nexpected %s, got %s", desc, c.Want, o.Short())}}
	}
	if o.StackLen != 0 {
		return []h.Failure{{Sig: "depth/call-stack-not-empty", Msg: fmt.Sprintf("%s\n%d frames left on the call stack", desc, o.StackLen)}}
	}
	for id, d := range o.ScopeDepth {
		if d != 0 {
			return []h.Failure{{Sig: "depth/scope-depth-leak", Msg: fmt.Sprintf("%s\nsymbol table of module %d is left at depth %d", desc, id, d)}}
		}
	}
	return nil
}

func TestDepthFault(t *testing.T) {
	for _, c := range depthCases {
		h.R.Case(t, "depth", c.Name, c, []string{"call-depth-fault"}, c.Want != "error", checkDepth(c))
	}
	h.R.Exhaustive("depth", fmt.Sprintf("%d listed programs (recursion to the interpreter's own call-depth bound; handlers whose class is not a name)", len(depthCases)))
}
