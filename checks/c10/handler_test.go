package c10

// Programs served through ZnHttpHandler: whatever value the program yields - in particular a
// response object whose properties were given values of any type - the handler answers; it
// never panics and never hands an invalid status code to the HTTP layer.

import (
	"encoding/json"
	"fmt"
	"net/http/httptest"
	"os"
	"path/filepath"
	"strings"
	"testing"

	"github.com/DemoHn/Zn/pkg/exec"
	r "github.com/DemoHn/Zn/pkg/runtime"
	"github.com/DemoHn/Zn/pkg/server"
	"pgregory.net/rapid"
	h "verif/harness"
)

type handlerCase struct {
	Src string `json:"src"`
}

func checkHandler(c handlerCase) []h.Failure {
	entry := filepath.Join(tmpDir, fmt.Sprintf("handler-entry-%d.zn", os.Getpid()))
	os.WriteFile(entry, []byte(c.Src), 0o644)
	req := httptest.NewRequest("GET", "http://zn.test/p?a=1", nil)
	rec := httptest.NewRecorder()
	var kind, msg, site string
	h.Capture(func() {
		kind, msg, site = h.Guard(func() {
			hd := server.NewZnHttpHandler(exec.NewInterpreter("verif").SetExternalLibs(append([]*r.Library{testLib}, h.Libs()...)), entry)
			hd.ServeHTTP(rec, req)
		})
	})
	if kind != "" {
		return []h.Failure{{Sig: "handler/" + kind + "@" + site, Msg: fmt.Sprintf("entry program:\n%s\nserving a request: %s", c.Src, msg)}}
	}
	if rec.Code < 100 || rec.Code > 999 {
		return []h.Failure{{Sig: "handler/invalid-status", Msg: fmt.Sprintf("entry program:\n%s\nanswered with status %d", c.Src, rec.Code)}}
	}
	return nil
}

func TestHandlerResponses(t *testing.T) {
	vals := []string{"0", "-1", "99", "100", "200", "404.5", "999", "1000", "1*10^30", "{1*10^308 * 10}", "{1*10^308 * 10 - 1*10^308 * 10}",
		"“文”", "“”", "【】", "【1，2】", "【“a” = “b”】", "【“a” = 1，“A” = 【2】】", "真", "空", "显示", "数值", "（新建HTTP响应）", "（新建HTTP请求：“GET”、“u”）", "当前请求", "当前请求之头部"}
	rapid.Check(t, func(t *rapid.T) {
		pick := func(w string) string { return rapid.SampledFrom(vals).Draw(t, w) }
		var b strings.Builder
		b.WriteString("导入《@测试库》\n输入当前请求\n")
		var args []string
		for i, n := 0, rapid.IntRange(0, 3).Draw(t, "nargs"); i < n; i++ {
			args = append(args, pick("arg"))
		}
		if len(args) > 0 {
			b.WriteString("令应 = （新建HTTP响应：" + strings.Join(args, "、") + "）\n")
		} else {
			b.WriteString("令应 = （新建HTTP响应）\n")
		}
		props := 0
		for _, p := range []string{"状态码", "头部", "内容"} {
			if rapid.IntRange(0, 2).Draw(t, "set-"+p) == 0 {
				b.WriteString("应之" + p + " = " + pick("v-"+p) + "\n")
				props++
			}
		}
		if rapid.IntRange(0, 3).Draw(t, "hdr") == 0 {
			b.WriteString("以应之头部（写入：“k”、" + pick("hv") + "）\n")
		}
		if rapid.IntRange(0, 4).Draw(t, "other") == 0 {
			b.WriteString("输出" + pick("result") + "\n")
		} else {
			b.WriteString("输出应\n")
		}
		b.WriteString("拦截异常：\n    输出应\n")
		c := handlerCase{Src: b.String()}
		key, _ := json.Marshal(c)
		h.R.Case(t, "handler", string(key), c, []string{"served-program"}, props > 0, checkHandler(c))
	})
}
